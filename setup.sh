#!/bin/sh
# Offline setup: overlay venv (python 3.12) with the solver wheels, sharing /venv's site-packages
# (numpy/scipy/pandas/atomman editable install) through a .pth file.
set -e
cd "$(dirname "$0")"
if [ ! -x .venv/bin/python ] || ! .venv/bin/python -c "import z3, cvc5, sympy, jsonschema, icontract" 2>/dev/null; then
  rm -rf .venv
  /venv/bin/python -m venv .venv
  PIP_NO_INDEX=1 .venv/bin/pip install -q --no-index --find-links /opt/veriftools/wheels z3-solver cvc5 sympy icontract jsonschema
  echo "import site; site.addsitedir('/venv/lib/python3.12/site-packages')" > .venv/lib/python3.12/site-packages/_repo_deps.pth
fi
.venv/bin/python -W ignore -c "import z3, cvc5, sympy, numpy, jsonschema, icontract; print('setup ok', z3.get_version_string())"
