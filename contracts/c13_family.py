"""Bounded run-time contract family for C13: real crystals through the real Dislocation class, every clause of the property checked against independent oracles
(lattice membership in the unit-cell frame, brute-force distances, own disregistry evaluation, own region tests).  Labelled bounded; never counted as proved."""
import itertools

import numpy as np


# ----------------------------------------------------------------------------
# crystals and slip systems

def crystals(am):
    out = {}
    a = 4.05
    out['fcc'] = (am.System(atoms=am.Atoms(atype=1, pos=[[0, 0, 0], [.5, .5, 0], [.5, 0, .5], [0, .5, .5]]), box=am.Box.cubic(a), scale=True, symbols='Al'),
                  am.ElasticConstants(C11=1.08, C12=0.62, C44=0.28))
    a = 2.86
    out['bcc'] = (am.System(atoms=am.Atoms(atype=1, pos=[[0, 0, 0], [.5, .5, .5]]), box=am.Box.cubic(a), scale=True, symbols='Fe'),
                  am.ElasticConstants(C11=2.43, C12=1.45, C44=1.16))
    a, c = 3.2, 5.2
    out['hcp'] = (am.System(atoms=am.Atoms(atype=1, pos=[[0, 0, 0], [1 / 3, 2 / 3, .5]]), box=am.Box.hexagonal(a, c), scale=True, symbols='Mg'),
                  am.ElasticConstants(C11=0.63, C12=0.26, C13=0.22, C33=0.66, C44=0.18))
    a = 3.0
    out['B2'] = (am.System(atoms=am.Atoms(atype=[1, 2], pos=[[0, 0, 0], [.5, .5, .5]]), box=am.Box.cubic(a), scale=True, symbols=['Ni', 'Al']),
                 am.ElasticConstants(C11=2.0, C12=1.3, C44=1.1))
    return out


SLIP = {
    # name: (crystal, burgers, xi, hkl, setting)
    'fcc_edge': ('fcc', [.5, -.5, 0], [1, 1, -2], [1, 1, 1], 'f'),
    'fcc_screw': ('fcc', [.5, -.5, 0], [1, -1, 0], [1, 1, 1], 'f'),
    'fcc_mixed60': ('fcc', [.5, -.5, 0], [0, 1, -1], [1, 1, 1], 'f'),
    'fcc_edge_conv': ('fcc', [.5, -.5, 0], [1, 1, -2], [1, 1, 1], 'p'),
    'bcc_edge': ('bcc', [.5, .5, .5], [1, 1, -2], [1, -1, 0], 'i'),
    'bcc_screw': ('bcc', [.5, .5, .5], [1, 1, 1], [1, -1, 0], 'i'),
    'bcc_mixed': ('bcc', [.5, .5, .5], [1, 1, -1], [1, -1, 0], 'i'),
    'bcc_edge_conv': ('bcc', [.5, .5, .5], [1, 1, -2], [1, -1, 0], 'p'),
    'hcp_basal_edge': ('hcp', [1 / 3, 1 / 3, -2 / 3, 0], [1, -1, 0, 0], [0, 0, 0, 1], 'p'),
    'hcp_basal_screw': ('hcp', [1 / 3, 1 / 3, -2 / 3, 0], [1, 1, -2, 0], [0, 0, 0, 1], 'p'),
    'hcp_prism_edge': ('hcp', [1 / 3, 1 / 3, -2 / 3, 0], [0, 0, 0, 1], [1, -1, 0, 0], 'p'),
    'hcp_prism_screw': ('hcp', [1 / 3, 1 / 3, -2 / 3, 0], [1, 1, -2, 0], [1, -1, 0, 0], 'p'),
    'hcp_pyramidal_mixed': ('hcp', [1 / 3, 1 / 3, -2 / 3, 1], [-1, 2, -1, 0], [1, 0, -1, -1], 'p'),          # tilted rotated cell: no lattice vector normal to the plane
    'B2_edge': ('B2', [1, 0, 0], [0, 0, 1], [0, 1, 0], 'p'),
    'B2_mixed': ('B2', [1, 0, 0], [1, 0, 1], [0, 1, 0], 'p'),
}
AXES = [('y', 'z'), ('x', 'y'), ('z', 'x'), ('x', 'z'), ('y', 'x'), ('z', 'y')]


def _case(slip, mn=('y', 'z'), gen='monopole', mults=None, shiftindex=None, center=0, boundary=None, width=0.0, linear=False, history=None, shift=None, tuple_mults=False):
    key = '%s,m=%s,n=%s,%s,mults=%s,shiftindex=%r,center=%r,boundary=%s/%g,linear=%s,history=%s,shift=%r' % (slip, mn[0], mn[1], gen, mults, shiftindex, center, boundary, width, linear,
                                                                                                          history, shift)
    return dict(key=key, slip=slip, mn=mn, gen=gen, mults=mults, shiftindex=shiftindex, center=center, boundary=boundary, width=width, linear=linear, history=history, shift=shift,
                tuple_mults=tuple_mults)


def quick_cases():
    cs = []
    cs.append(_case('fcc_edge', gen='monopole', mults=(1, 24, 12), boundary='cylinder', width=6.0))
    cs.append(_case('fcc_edge', gen='periodicarray', mults=(1, 20, 10), shiftindex=0, history='construct_shiftindex1'))
    cs.append(_case('fcc_mixed60', mn=('x', 'y'), gen='monopole', mults=(12, 24, 1), center=-2, boundary='box', width=5.0))
    cs.append(_case('fcc_screw', mn=('z', 'x'), gen='monopole', mults=(10, 1, 20), shiftindex=1, center=1))
    cs.append(_case('fcc_edge', mn=('y', 'z'), gen='periodicarray', mults=(1, 20, 10), linear=True, shiftindex=2, history='call_shiftindex2_first'))
    cs.append(_case('bcc_edge', gen='monopole', mults=(1, 30, 20), center=1, boundary='cylinder', width=8.0))
    cs.append(_case('bcc_edge', mn=('x', 'y'), gen='periodicarray', mults=(20, 14, 2), boundary='array', width=5.0))
    cs.append(_case('bcc_screw', mn=('z', 'x'), gen='monopole', mults=(16, 2, 16), boundary='box', width=4.0, tuple_mults=True))
    cs.append(_case('bcc_mixed', gen='monopole', mults=(1, 20, 20), shiftindex=1))
    cs.append(_case('hcp_basal_edge', gen='monopole', mults=(1, 30, 12), boundary='cylinder', width=5.0))
    cs.append(_case('hcp_basal_edge', gen='periodicarray', mults=(1, 30, 12), center=0))
    cs.append(_case('hcp_basal_screw', mn=('x', 'y'), gen='monopole', mults=(20, 10, 1), shiftindex=1))
    cs.append(_case('hcp_prism_screw', gen='monopole', mults=(1, 20, 20)))
    cs.append(_case('hcp_prism_edge', gen='monopole', mults=(1, 20, 20)))
    cs.append(_case('B2_edge', gen='monopole', mults=(1, 24, 24), boundary='box', width=3.0))
    cs.append(_case('B2_edge', mn=('x', 'y'), gen='periodicarray', mults=(24, 24, 1), linear=True))
    cs.append(_case('B2_mixed', gen='monopole', mults=(1, 20, 20), shift=(0.0, 0.0, 0.31)))
    cs.append(_case('fcc_edge', mn=('x', 'z'), gen='monopole', mults=(12, 1, 6), boundary='cylinder', width=4.0))
    cs.append(_case('bcc_mixed', mn=('z', 'y'), gen='periodicarray', mults=(1, 12, 16)))
    cs.append(_case('hcp_basal_edge', mn=('y', 'x'), gen='monopole', mults=(8, 20, 1), center=1))
    cs.append(_case('hcp_pyramidal_mixed', gen='monopole', mults=(1, 8, 16), boundary='cylinder', width=6.0))          # the tilted faces are the nearest ones
    cs.append(_case('hcp_pyramidal_mixed', gen='monopole', mults=(1, 16, 8), boundary='box', width=5.0, history='repeat'))
    cs.append(_case('hcp_pyramidal_mixed', mn=('z', 'y'), gen='monopole', mults=(1, 12, 12)))     # an assignment the rotated cell cannot hold: refused (was silently misoriented)
    cs.append(_case('hcp_pyramidal_mixed', mn=('x', 'y'), gen='periodicarray', mults=(16, 8, 1)))
    cs.append(_case('fcc_edge', mn=('x', 'y'), gen='monopole', mults=(8, 12, 1), history='repeat'))
    cs.append(_case('bcc_screw', mn=('x', 'y'), gen='periodicarray', mults=(10, 8, 2), history='repeat'))
    cs.append(_case('fcc_edge_conv', gen='monopole', mults=(1, 16, 8)))
    cs.append(_case('bcc_edge_conv', gen='periodicarray', mults=(1, 16, 12)))
    return cs


def thorough_cases():
    cs = list(quick_cases())
    for slip, mn in itertools.product(sorted(SLIP), AXES):
        li = {'x': 0, 'y': 1, 'z': 2}[({'x', 'y', 'z'} - set(mn)).pop()]
        mults = [16, 16, 16]
        mults[li] = 1
        for gen in ('monopole', 'periodicarray'):
            for k, (shiftindex, center, boundary, width, linear) in enumerate([(None, 0, None, 0.0, False), (1, 1, 'cylinder' if gen == 'monopole' else 'array', 4.0, False),
                                                                               (0, -1, 'box' if gen == 'monopole' else None, 3.0 if gen == 'monopole' else 0.0, True)]):
                if gen == 'monopole' and linear:
                    linear = False
                cs.append(_case(slip, mn=mn, gen=gen, mults=tuple(mults), shiftindex=shiftindex, center=center, boundary=boundary, width=width, linear=linear,
                                history='construct_shiftindex1' if k == 2 else None))
    return cs


# ----------------------------------------------------------------------------
# oracles

def lattice_mismatch(ucell, transform, pos, atype):
    """largest distance (fractional units of the unit cell) of the positions, taken back to the unit-cell frame, from a unit-cell site of the same type"""
    V = np.asarray(ucell.box.vects)
    pos_u = pos.dot(transform) - ucell.box.origin
    frac = pos_u.dot(np.linalg.inv(V))
    sites = ucell.atoms.pos.dot(np.linalg.inv(V))
    worst = np.full(len(frac), np.inf)
    for sidx in range(ucell.natoms):
        d = frac - sites[sidx]
        d -= np.round(d)
        dist = np.abs(d).max(axis=1)
        same = atype == ucell.atoms.atype[sidx]
        worst = np.where(same, np.minimum(worst, dist), worst)
    return worst


def own_disregistry(basepos, disp, m, n, y0):
    """displacement difference between the two atomic planes adjacent to y0 (coordinates along n), on the union of their in-plane coordinates"""
    x = basepos.dot(m)
    y = basepos.dot(n)
    ys = np.unique(np.round(y, 5))
    above = ys[ys > y0 + 1e-6].min()
    below = ys[ys < y0 - 1e-6].max()
    res = {}
    for nm, yy in (('a', above), ('b', below)):
        sel = np.abs(y - yy) < 1e-4
        xs = np.round(x[sel], 5)
        ux = np.unique(xs)
        mean = np.array([disp[sel][xs == v].mean(axis=0) for v in ux])
        res[nm] = (ux, mean)
    coord = np.union1d(res['a'][0], res['b'][0])
    out = np.zeros((len(coord), 3))
    for j in range(3):
        out[:, j] = np.interp(coord, res['a'][0], res['a'][1][:, j]) - np.interp(coord, res['b'][0], res['b'][1][:, j])
    return coord, out, below, above, (max(res['a'][0].min(), res['b'][0].min()), min(res['a'][0].max(), res['b'][0].max()))


def min_distance(pos, vects, pbc):
    """smallest interatomic distance with periodic images along the flagged directions (brute force on a sub-sample near the cell faces + all pairs chunked)"""
    n = len(pos)
    images = [np.zeros(3)]
    rng = [(-1, 0, 1) if p else (0,) for p in pbc]
    images = [i * vects[0] + j * vects[1] + k * vects[2] for i in rng[0] for j in rng[1] for k in rng[2]]
    best = np.inf
    for im in images:
        for s in range(0, n, 400):
            d = pos[s:s + 400, None, :] - (pos[None, :, :] + im)
            r2 = (d ** 2).sum(axis=2)
            if not im.any():
                idx = np.arange(s, min(s + 400, n))
                r2[idx - s, idx] = np.inf
            best = min(best, r2.min())
    return float(np.sqrt(best))


def build(am, case):
    cname, burgers, xi, hkl, setting = SLIP[case['slip']]
    ucell, C = crystals(am)[cname]
    kw = {}
    if case['history'] == 'construct_shiftindex1':
        kw['shiftindex'] = 1
    try:
        d = am.defect.Dislocation(ucell, C, burgers, xi, hkl, conventional_setting=setting, m=case['mn'][0], n=case['mn'][1], **kw)
    except ValueError as e:
        if 'isotropic' in str(e) or 'Stroh' in str(e):
            return ucell, C, None          # the elastic solver refuses this orientation (degenerate Stroh problem): C12's documented refusal
        if 'cannot have a component along n' in str(e):
            return ucell, C, None          # the m, n assignment would need a box whose out-of-plane vector tilts in a way a LAMMPS-compatible box cannot: refused
        raise
    return ucell, C, d


def check_case(am, case):
    msgs = []
    ucell, C, d = build(am, case)
    if d is None:
        return ['REFUSED: elastic solver']
    sol = d.dislsol
    m, n, xi, b = sol.m, sol.n, sol.ξ, sol.burgers
    li, ci, mi = d.lineindex, d.cutindex, d.motionindex
    T = d.transform
    rc = d.rcell
    bnorm = np.linalg.norm(b)
    # ---- rotated cell
    uv = np.asarray(d.uvws_prim, dtype=float)
    if not np.allclose(uv, np.round(uv), atol=1e-9):
        msgs.append('cell vectors are not integer: %r' % uv.tolist())
    V = rc.box.vects
    axis = lambda i: np.eye(3)[i]
    if sorted([li, ci, mi]) != [0, 1, 2] or abs(abs(xi[li]) - 1) > 1e-8 or abs(abs(n[ci]) - 1) > 1e-8:
        msgs.append('line/cut/motion indices %r do not match the solution axes' % ((li, ci, mi),))
    if np.linalg.norm(np.cross(V[li], xi)) > 1e-6 * np.linalg.norm(V[li]):
        msgs.append('rotated cell vector %d %r is not along the dislocation line %r' % (li, V[li].round(6).tolist(), xi.tolist()))
    if abs(V[mi].dot(n)) > 1e-6 * np.linalg.norm(V[mi]) or abs(V[li].dot(n)) > 1e-6:
        msgs.append('rotated cell vectors %d and %d do not both lie in the slip plane' % (li, mi))
    if np.linalg.det(V) <= 0:
        msgs.append('rotated cell is not right-handed')
    mis = lattice_mismatch(ucell, T, rc.atoms.pos, rc.atoms.atype)
    if mis.max() > 1e-6:
        msgs.append('rotated cell atoms are not sites of the crystal in the solution frame (fractional mismatch %.3g)' % mis.max())
    dens_u = ucell.natoms / abs(np.linalg.det(ucell.box.vects))
    if abs(rc.natoms / abs(np.linalg.det(V)) - dens_u) > 1e-8 * dens_u:
        msgs.append('rotated cell atom density %.6g differs from the crystal density %.6g' % (rc.natoms / abs(np.linalg.det(V)), dens_u))
    # ---- offered shifts: slip plane strictly between atomic planes, midway
    width = V[ci].dot(n)
    ys = np.unique(np.round(rc.atoms.pos.dot(n), 6))
    ys_all = np.concatenate([ys - width, ys, ys + width])
    for k, sh in enumerate(d.shifts):
        if np.linalg.norm(np.cross(sh, n)) > 1e-9:
            msgs.append('shift %d %r is not along the slip-plane normal' % (k, sh.tolist()))
        yy = np.sort(ys_all + sh.dot(n))
        up = yy[yy > 1e-9].min() if np.any(yy > 1e-9) else None
        dn = yy[yy < -1e-9].max() if np.any(yy < -1e-9) else None
        onplane = np.any(np.abs(yy) <= 1e-6)
        if onplane or up is None or dn is None or abs(up + dn) > 1e-6:
            msgs.append('shift %d puts the slip plane at distances %r / %r from the adjacent atomic planes (atom on plane: %s)' % (k, dn, up, onplane))
    nplanes = len(np.unique(np.round(np.mod(ys, abs(width)) , 5) % round(abs(width), 5)))
    if len(d.shifts) != nplanes:
        msgs.append('%d shifts offered for %d distinct atomic planes' % (len(d.shifts), nplanes))
    if msgs:
        return msgs
    # ---- generate
    mults = list(case['mults'])
    if case['tuple_mults']:
        mults = tuple(mults)
    if case['history'] == 'call_shiftindex2_first' and len(d.shifts) > 2:
        getattr(d, case['gen'])(sizemults=list(case['mults']), shiftindex=2)
    kw = dict(sizemults=mults, return_base_system=True)
    want_shift = d.shift.copy()
    if case['shiftindex'] is not None:
        si = case['shiftindex'] % len(d.shifts)
        kw['shiftindex'] = si
        want_shift = np.array(d.shifts[si])
    if case['shift'] is not None:
        kw['shift'] = abs(width) * case['shift'][2] * n
        want_shift = np.array(kw['shift'])
    # centre: moved within the slip plane by a non-lattice amount and across it by whole repeat distances of the plane stacking (so that it stays between atomic planes)
    center = np.zeros(3)
    if case['center']:
        if case['gen'] == 'monopole':
            center = case['center'] * width * n + case['center'] * 0.37 * V[mi].dot(m) * m
        elif abs(b.dot(m)) < 1e-9:
            center = case['center'] * 0.37 * V[mi].dot(m) * m       # (with an edge component an array core away from the middle of the cell is refused: deletion count mismatch)
    kw['center'] = center
    if case['gen'] == 'monopole':
        if case['boundary']:
            kw['boundaryshape'] = case['boundary']
            kw['boundarywidth'] = case['width']
    else:
        kw['linear'] = case['linear']
        if case['boundary']:
            kw['boundarywidth'] = case['width']
    mults_before = tuple(mults)
    rc_pos_before = rc.atoms.pos.copy()
    rc_vects_before = rc.box.vects.copy()
    try:
        if case['history'] == 'repeat':
            # the same request twice on one object: the second answer must be the first one again
            kw1 = dict(kw)
            kw1['sizemults'] = list(case['mults'])
            first = getattr(d, case['gen'])(**kw1)
        base, disl = getattr(d, case['gen'])(**kw)
        if case['history'] == 'repeat':
            if first[0].natoms != base.natoms or not np.allclose(first[0].atoms.pos, base.atoms.pos, atol=1e-9) or not np.allclose(first[1].atoms.pos, disl.atoms.pos, atol=1e-9):
                msgs.append('a second identical call on the same object returns a different configuration (reference atoms differ by up to %.4g)'
                            % (np.abs(first[0].atoms.pos - base.atoms.pos).max() if first[0].natoms == base.natoms else float('nan')))
    except ValueError as e:
        if 'atom positions found on slip plane' in str(e) or 'expected number of atoms to delete not an integer' in str(e) or 'Deleted atom mismatch' in str(e):
            return ['REFUSED: %s' % e]
        raise
    if tuple(mults) != mults_before:
        msgs.append("the caller's sizemults were modified to %r" % (mults,))
    if not (np.array_equal(d.rcell.atoms.pos, rc_pos_before) and np.array_equal(d.rcell.box.vects, rc_vects_before)):
        msgs.append('the generator modified the rotated cell of the Dislocation object (atoms moved by up to %.4g)' % np.abs(d.rcell.atoms.pos - rc_pos_before).max())
    if not np.allclose(d.shift, want_shift, atol=1e-9):
        msgs.append('shift used %r is not the requested %r' % (d.shift.tolist(), want_shift.tolist()))
    if d.base_system is not base or d.disl_system is not disl:
        msgs.append('base_system/disl_system attributes are not the returned systems')
    # ---- reference system = rotated, shifted perfect crystal
    ranges = [None] * 3
    for i in range(3):
        ranges[i] = (0, case['mults'][i]) if i == li else (-(case['mults'][i] // 2), case['mults'][i] // 2)
    nfull = rc.natoms * int(np.prod(case['mults']))
    BV = np.array([case['mults'][i] * V[i] for i in range(3)])
    borigin = sum(ranges[i][0] * V[i] for i in range(3)) + rc.box.origin
    if not np.allclose(base.box.vects, BV, atol=1e-8) or not np.allclose(base.box.origin, borigin, atol=1e-8):
        msgs.append('reference cell %r @ %r is not the symmetric supercell %r @ %r' % (base.box.vects.round(4).tolist(), base.box.origin.round(4).tolist(), BV.round(4).tolist(),
                                                                                     borigin.round(4).tolist()))
    mis = lattice_mismatch(ucell, T, base.atoms.pos - want_shift, base.atoms.atype)
    if mis.max() > 1e-6:
        msgs.append('reference system is not the rotated crystal moved by the requested shift: %d of %d atoms off lattice sites (fractional mismatch %.4f)'
                    % (int((mis > 1e-6).sum()), base.natoms, mis.max()))
    srel = (base.atoms.pos - base.box.origin).dot(np.linalg.inv(base.box.vects))
    if srel.min() < -1e-9 or srel.max() > 1 + 1e-9:
        msgs.append('reference atoms outside the reference cell')
    if case['gen'] == 'monopole':
        if base.natoms != nfull or disl.natoms != nfull:
            msgs.append('atom counts %d / %d, expected %d' % (base.natoms, disl.natoms, nfull))
            return msgs
        # distinct sites
        if min_distance(base.atoms.pos[:: max(1, base.natoms // 1500)], base.box.vects, (False, False, False)) < 1e-3:
            msgs.append('coincident reference atoms')
        u = sol.displacement(base.atoms.pos - center)
        dd = disl.atoms.pos - base.atoms.pos - u
        k = np.round(dd.dot(V[li]) / V[li].dot(V[li]) / case['mults'][li])
        resid = dd - np.outer(k, BV[li])
        if np.abs(resid).max() > 1e-8:
            msgs.append('atoms are not displaced by the solution at their reference position minus the centre (max deviation %.4g)' % np.abs(resid).max())
        if tuple(bool(x) for x in disl.pbc) != tuple(i == li for i in range(3)):
            msgs.append('periodicity %r is not line-only' % (tuple(disl.pbc),))
        nat = base.natypes
        if case['boundary']:
            p = disl.atoms.pos
            if case['boundary'] == 'box':
                inside = np.ones(len(p), dtype=bool)
                for i in range(3):
                    if i == li:
                        continue
                    j, k2 = (i + 1) % 3, (i + 2) % 3
                    nrm = np.cross(BV[j], BV[k2])
                    nrm /= np.linalg.norm(nrm)
                    dist_lo = (p - base.box.origin).dot(nrm)
                    dist_hi = (base.box.origin + BV[i] - p).dot(nrm)
                    inside &= (dist_lo >= case['width'] - 1e-9) & (dist_hi >= case['width'] - 1e-9)
                    edge = (np.abs(dist_lo - case['width']) < 1e-7) | (np.abs(dist_hi - case['width']) < 1e-7)
                    inside |= edge & False
            else:
                # smallest distance from the line through the coordinate origin to the four faces
                dists = []
                for i in range(3):
                    if i == li:
                        continue
                    j, k2 = (i + 1) % 3, (i + 2) % 3
                    nrm = np.cross(BV[j], BV[k2])
                    nrm /= np.linalg.norm(nrm)
                    dists += [abs((np.zeros(3) - base.box.origin).dot(nrm)), abs((base.box.origin + BV[i]).dot(nrm))]
                radius = min(dists) - case['width']
                axial = p.dot(xi)
                rad = np.linalg.norm(p - np.outer(axial, xi), axis=1)
                inside = rad <= radius + 1e-9
            retyped = disl.atoms.atype > nat
            tol_edge = np.zeros(len(p), dtype=bool)
            if np.any(retyped == inside):
                bad = np.where(retyped == inside)[0]
                msgs.append('%d atoms are re-typed inconsistently with the %s region of width %g (e.g. atom %d at %r, type %d)'
                            % (len(bad), case['boundary'], case['width'], bad[0], p[bad[0]].round(4).tolist(), disl.atoms.atype[bad[0]]))
            if not np.array_equal(np.where(retyped, disl.atoms.atype - nat, disl.atoms.atype), base.atoms.atype):
                msgs.append('boundary types are not the reference types + natypes')
            if tuple(disl.symbols) != tuple(base.symbols) * 2:
                msgs.append('boundary symbols %r' % (disl.symbols,))
        elif not np.array_equal(disl.atoms.atype, base.atoms.atype):
            msgs.append('atom types changed')
    else:
        # periodic array
        L = abs(V[mi].dot(m)) * case['mults'][mi]
        bedge = abs(b.dot(m))
        expect_removed = nfull * bedge / (2 * L)
        removed = nfull - disl.natoms
        if abs(expect_removed - round(expect_removed)) > 1e-6 or removed != int(round(expect_removed)):
            msgs.append('%d atoms removed, the edge component %.4f over length %.4f of %d atoms implies %.4f' % (removed, bedge, L, nfull, expect_removed))
        if base.natoms != disl.natoms:
            msgs.append('reference and dislocation systems have %d and %d atoms' % (base.natoms, disl.natoms))
            return msgs
        pbc_want = tuple(i != ci for i in range(3))
        if tuple(bool(x) for x in disl.pbc) != pbc_want:
            msgs.append('periodicity %r, expected %r' % (tuple(disl.pbc), pbc_want))
        nv = BV.copy()
        nv[mi] = nv[mi] - np.sign(b.dot(m)) * b / 2 if b.dot(m) > 0 else nv[mi] + b / 2
        for i in (li, mi):
            if not np.allclose(disl.box.vects[i], nv[i], atol=1e-8):
                msgs.append('cell vector %d is %r, expected %r (in-plane vector tilted by b/2)' % (i, disl.box.vects[i].round(5).tolist(), nv[i].round(5).tolist()))
        r0 = min_distance(rc.supersize(2, 2, 2).atoms.pos, 2 * V, (True, True, True))
        # overlap "across the two in-plane periodic directions" is about atoms duplicated at the periodic boundary of the motion direction.  Away from the slip plane the
        # Volterra field itself is not compatible with that boundary: the displacements of the two images of a boundary site at height y differ from b/2 by
        # |b| (1/2 - arctan(Lx / (2|y|)) / pi)  (zero at the slip plane, |b|/4 at the corners of a square cell) -- the finite-width tail the property sets aside.  The
        # threshold is lowered by that bound at the top of the cell, so that only atoms brought together beyond it (duplicates that were not removed) count.
        Lx = abs(disl.box.vects[mi].dot(m))
        ytop = 0.5 * abs(BV[ci].dot(n))
        tail = np.linalg.norm(b) * (0.5 - np.arctan(Lx / (2 * ytop)) / np.pi)
        md = min_distance(disl.atoms.pos, disl.box.vects, pbc_want)
        if md < 0.5 * r0 - tail:
            msgs.append('overlapping atoms: smallest distance %.4f (perfect crystal %.4f)' % (md, r0))
        # old_id -> reference atom
        full = rc.supersize(*ranges)
        full.atoms.pos += want_shift
        full.wrap()
        oid = np.asarray(disl.atoms.old_id)
        if len(np.unique(oid)) != len(oid) or oid.min() < 0 or oid.max() >= nfull:
            msgs.append('old_id is not a set of distinct reference indices')
        elif not np.allclose(full.atoms.pos[oid], base.atoms.pos, atol=1e-8) or not np.array_equal(full.atoms.atype[oid], base.atoms.atype):
            msgs.append('returned reference atoms are not the shifted perfect crystal atoms named by old_id (max deviation %.4g)' % np.abs(full.atoms.pos[oid] - base.atoms.pos).max())
        # each atom is its reference atom plus the documented field
        rel = base.atoms.pos - center
        lin = np.outer(np.sign(rel.dot(n)) * (0.25 - rel.dot(m) / (2 * L)), b)
        if case['linear']:
            want = lin
        else:
            u = sol.displacement(rel)
            u[:, ci] -= u[:, ci].mean()
            y = base.atoms.pos.dot(n)
            lo = base.box.origin.dot(n)
            hi = lo + BV[ci].dot(n)
            lo, hi = min(lo, hi), max(lo, hi)
            bw = case['width'] if case['boundary'] else 0.0
            edge = (y <= lo + bw) | (y >= hi - bw)
            want = np.where(edge[:, None], lin, u)
        dd = disl.atoms.pos - base.atoms.pos - want
        sred = dd.dot(np.linalg.inv(disl.box.vects))
        sred[:, [li, mi]] -= np.round(sred[:, [li, mi]])
        resid = sred.dot(disl.box.vects)
        if np.abs(resid).max() > 1e-7:
            msgs.append('atoms are not their reference atoms displaced by the documented field (max deviation %.4g)' % np.abs(resid).max())
        if case['boundary']:
            nat = base.natypes
            p = disl.atoms.pos
            nrm = np.cross(BV[(ci + 1) % 3], BV[(ci + 2) % 3])
            nrm /= np.linalg.norm(nrm)
            dlo = (p - base.box.origin).dot(nrm)
            dhi = (base.box.origin + BV[ci] - p).dot(nrm)
            inside = (dlo >= case['width'] - 1e-9) & (dhi >= case['width'] - 1e-9)
            retyped = disl.atoms.atype > nat
            if np.any(retyped == inside):
                msgs.append('%d atoms re-typed inconsistently with the surface region of width %g' % (int((retyped == inside).sum()), case['width']))
    # ---- disregistry accumulates to b
    msgs += check_disregistry(am, d, base, disl, center, case)
    return msgs


def check_disregistry(am, d, base, disl, center, case):
    msgs = []
    sol = d.dislsol
    m, n, b = sol.m, sol.n, sol.burgers
    bnorm = np.linalg.norm(b)
    y0 = center.dot(n)
    coord, dr = am.defect.disregistry(base, disl, m=m, n=n, planepos=center)
    disp = am.displacement(base, disl)
    ocoord, odr, below, above, (xlo, xhi) = own_disregistry(base.atoms.pos, disp, m, n, y0)
    # the routine's coordinates are the in-plane coordinates of the two adjacent atomic planes (floating-point near-duplicates allowed)
    near = np.abs(coord[:, None] - ocoord[None, :]).min(axis=1)
    cover = np.abs(coord[:, None] - ocoord[None, :]).min(axis=0)
    if near.max() > 1e-4 or cover.max() > 1e-4:
        msgs.append('disregistry() coordinates are not those of the atomic planes n = %.4f / %.4f adjacent to the slip plane' % (below, above))
        return msgs
    mine = np.array([np.interp(coord, ocoord, odr[:, j]) for j in range(3)]).T
    if np.abs(dr - mine).max() > 1e-6 * max(1.0, bnorm) + 1e-4 * np.abs(np.diff(odr, axis=0)).max():
        msgs.append('disregistry() differs from the independent evaluation across the planes n = %.4f / %.4f by up to %.4f' % (below, above, np.abs(dr - mine).max()))
        return msgs
    h = above - below
    x0 = center.dot(m)
    inner = (ocoord >= xlo - 1e-6) & (ocoord <= xhi + 1e-6)
    xs, ds = ocoord[inner], odr[inner]
    if case['gen'] == 'periodicarray' and case['linear']:
        L = abs(base.box.vects[d.motionindex].dot(m))
        want = np.outer(0.5 - (xs - x0) / L, b)
        # atoms whose reference position lies beyond half a period from the centre belong to the neighbouring period
        dev = np.minimum(np.abs(ds - want).max(axis=1), np.minimum(np.abs(ds - want - b).max(axis=1), np.abs(ds - want + b).max(axis=1)))
        if dev.max() > 1e-6:
            msgs.append('linear array: disregistry deviates from (1/2 - x/L) b by up to %.4g' % dev.max())
        total = (ds[0] - ds[-1]) * L / (xs[-1] - xs[0])
        if np.abs(np.abs(total) - np.abs(b)).max() > 1e-6:
            msgs.append('linear array: disregistry accumulates to %r over one period, expected +-%r' % (total.round(5).tolist(), b.round(5).tolist()))
        return msgs
    W = min(xs.max() - x0, x0 - xs.min())
    # tail of the elastic field: |delta(x) - limit| <= K b h / (pi |x - x0|), K <= 3 for the anisotropy ratios used
    tol = 2 * 3.0 * bnorm * h / (np.pi * W) + 1e-6
    if case['gen'] == 'periodicarray':
        tol += 0.05 * bnorm + bnorm * (1 - (xs[-1] - xs[0]) / abs(base.box.vects[d.motionindex].dot(m)))
    total = ds[0] - ds[-1]
    if min(np.abs(total - b).max(), np.abs(total + b).max()) > tol:
        msgs.append('disregistry across the slip plane accumulates to %r (|.| = %.4f); expected +-%r within %.4f' % (total.round(4).tolist(), np.linalg.norm(total), np.round(b, 4).tolist(), tol))
    return msgs
