"""C17 — Analysis tools recover a known imposed deformation exactly."""
import hashlib
import itertools
import os
from fractions import Fraction

import numpy as _np

from pyvc.runner import group, REPO
from pyvc import symnp as snp, terms as tm
from pyvc.sym import Sym, realconst
from .common import det3, dot3, cross3, And, Or, Not, Implies, Iff, sym_abs

LEVEL = 'other'
EXPLANATION = ("Kernels are proved: the Cython sources Strain.pyx and slip_vector.pyx are stripped mechanically (cy2py) and executed symbolically. strain/rotation/invariants/"
               "angular velocity equal their tensor definitions for every correspondence tensor G; for matched neighbour pairs q = F p the least-squares step returns G = F^-T "
               "(three independent neighbours: exact inverse; the general case through the assumed normal-equation contract of lstsq), hence strain = sym(I-G) etc.; dG and the Nye "
               "tensor are linear in the neighbour differences of G (equal G => zero Nye tensor); the slip vector of atom i is minus the sum over ITS OWN listed neighbours of the "
               "change of the periodic separation (dvect_c through its C02 contract). The composite clauses on real crystals (pair matching by angle, complete neighbour shells, "
               "slip of a half crystal, disregistry, differential displacement, translation/renumbering invariance) are labelled bounded contract checks.")
ASSUMPTIONS = ["numpy.linalg.lstsq: exact inverse for 3 independent neighbours; assumed normal-equation contract otherwise", "dvect_c enters slip_vector_c through its C02 contract (stub recording its arguments)",
               "pair matching (match_pq) and crystal-level clauses: bounded stand-ins over a stated family"]
UNCOVERED = ["match_pq's angular matching for arbitrary inputs", "crystals/deformations outside the bounded family"]

STRF = 'atomman/defect/Strain.pyx'
SLIPF = 'atomman/defect/slip_vector.pyx'
DISPF = 'atomman/core/displacement.py'


def _replay(stem, vals):
    from pyvc.native import atomman
    import numpy as np
    am = atomman()
    msgs = []
    try:
        ucell = am.System(atoms=am.Atoms(pos=[[0, 0, 0], [0.5, 0.5, 0], [0.5, 0, 0.5], [0, 0.5, 0.5]]), box=am.Box.cubic(4.05), scale=True)
        base = ucell.supersize(3, 3, 3)
        F = np.array([[1.01, 0.004, -0.003], [0.002, 0.99, 0.005], [-0.001, 0.003, 1.02]])
        d = am.System(atoms=am.Atoms(pos=base.atoms.pos.dot(F.T)), box=am.Box(vects=base.box.vects.dot(F.T)))
        nl = am.NeighborList(system=d, cutoff=3.3)
        nl0 = am.NeighborList(system=base, cutoff=3.2)
        st = am.defect.Strain(d, neighbors=nl, basesystem=base, baseneighbors=nl0)
        G = np.linalg.inv(F).T
        if not np.allclose(st.G, G[None], atol=1e-9):
            msgs.append('homogeneous F: G differs from inv(F).T (max %g)' % abs(st.G - G[None]).max())
        e = ((np.eye(3) - G) + (np.eye(3) - G).T) / 2
        if not np.allclose(st.strain, e[None], atol=1e-9):
            msgs.append('strain differs from sym(I-G)')
        if not np.allclose(st.nye, 0, atol=1e-7):
            msgs.append('Nye tensor not zero for a homogeneous deformation (max %g)' % abs(st.nye).max())
        # the same object re-solved for another state: every derived quantity follows the NEW correspondence tensor
        _ = st.rotation, st.strain, st.angularvelocity, st.invariant1
        th = np.radians(5.0)
        F2 = np.array([[np.cos(th), -np.sin(th), 0], [np.sin(th), np.cos(th), 0], [0, 0, 1.0]]).dot(np.array([[1.0, 0.01, 0], [0, 1.0, 0], [0, 0, 0.99]]))
        d.box_set(vects=base.box.vects.dot(F2.T))
        d.atoms.pos[:] = base.atoms.pos.dot(F2.T)
        st.solve_G()
        G2 = np.linalg.inv(F2).T
        w2 = ((np.eye(3) - G2) - (np.eye(3) - G2).T) / 2
        e2 = ((np.eye(3) - G2) + (np.eye(3) - G2).T) / 2
        if not np.allclose(st.G, G2[None], atol=1e-8):
            msgs.append('after re-solving on the same object G is not inv(F2).T')
        if not np.allclose(st.rotation, w2[None], atol=1e-8):
            msgs.append('after re-solving on the same object the rotation is still that of the previous state (max deviation %g from skew(I-G))' % abs(st.rotation - w2[None]).max())
        if not np.allclose(st.strain, e2[None], atol=1e-8):
            msgs.append('after re-solving on the same object the strain does not follow the new G')
    except Exception as e:
        msgs.append('raised %s: %s' % (type(e).__name__, e))
    return (len(msgs) > 0, '; '.join(msgs[:3]) if msgs else 'float replay on deformed fcc found no disagreement')


def _replay_slip(stem, vals):
    from pyvc.native import atomman
    import numpy as np
    am = atomman()
    msgs = []
    try:
        ucell = am.System(atoms=am.Atoms(pos=[[0, 0, 0], [0.5, 0.5, 0], [0.5, 0, 0.5], [0, 0.5, 0.5]]), box=am.Box.cubic(4.05), scale=True)
        base = ucell.supersize(3, 3, 4)
        rng = np.random.RandomState(0)
        perm = rng.permutation(base.natoms)
        pos0 = base.atoms.pos[perm]
        zs = np.unique(np.round(pos0[:, 2], 6))
        zplane = 0.5 * (zs[3] + zs[4])
        upper = pos0[:, 2] > zplane
        slip = np.array([0.31, 0.0, 0.0])
        pos1 = pos0 + np.where(upper[:, None], slip[None, :], 0.0)
        for pbc in ((True, True, False), (False, False, False)):
            s0 = am.System(atoms=am.Atoms(pos=pos0), box=base.box, pbc=pbc)
            s1 = am.System(atoms=am.Atoms(pos=pos1), box=base.box, pbc=pbc)
            nl = am.NeighborList(system=s0, cutoff=3.2)
            sv = am.defect.slip_vector(s0, s1, neighbors=nl)
            for i in range(s0.natoms):
                across = len([j for j in nl[i] if upper[j] != upper[i]])
                want = (slip if upper[i] else -slip) * across
                if not np.allclose(sv[i], want, atol=1e-9):
                    msgs.append('pbc %r: atom %d (coordination %d, %d neighbours across the plane) has slip vector %r, expected %r' % (pbc, i, nl.coord[i], across, sv[i].round(5).tolist(), want.round(5).tolist()))
                    break
    except Exception as e:
        msgs.append('raised %s: %s' % (type(e).__name__, e))
    return (len(msgs) > 0, '; '.join(msgs[:2]) if msgs else 'slip vectors of a renumbered slab / free block agree with the brute-force count')


@group('strain.kernels', files=[STRF], functions=['Strain.strain_c', 'Strain.rotation_c', 'Strain.invariant1_c', 'Strain.invariant2_c', 'Strain.invariant3_c', 'Strain.angularvelocity_c'],
       clause='for every correspondence tensor G (read through the public properties of a Strain object holding G): strain = sym(I-G), rotation = skew(I-G), strain invariants = trace, second invariant 1/2((tr e)^2 - tr(e.e)), determinant; angular velocity = length of the axial vector of the rotation',
       replay=_replay)
def strain_kernels(E, L):
    M = L.load(STRF)
    n = 2
    G = E.reals('G', (n, 3, 3))
    # through the public properties of a Strain object whose correspondence tensor is G (whatever kernels the properties are computed with)
    so = object.__new__(M.Strain)
    for nm in ('strain', 'invariant1', 'invariant2', 'invariant3', 'angularvelocity', 'rotation', 'nye'):
        setattr(so, '_Strain__' + nm, None)
    so._Strain__G = G
    st = so.strain
    ro = so.rotation
    E.prove('strain_c.shape', st.shape == (n, 3, 3) and ro.shape == (n, 3, 3))
    I = lambda j, k: 1 if j == k else 0
    half = realconst(Fraction(1, 2))
    e = [[[((I(j, k) - G[i, j, k]) + (I(k, j) - G[i, k, j])) * half for k in range(3)] for j in range(3)] for i in range(n)]      # the specification's strain
    for i in range(n):
        for j in range(3):
            for k in range(3):
                E.prove('strain_c.post[%d,%d,%d]' % (i, j, k), st[i, j, k] * 2 == (I(j, k) - G[i, j, k]) + (I(k, j) - G[i, k, j]))
                E.prove('rotation_c.post[%d,%d,%d]' % (i, j, k), ro[i, j, k] * 2 == (I(j, k) - G[i, j, k]) - (I(k, j) - G[i, k, j]))
                E.prove('strain_plus_rotation_is_I_minus_G[%d,%d,%d]' % (i, j, k), st[i, j, k] + ro[i, j, k] == I(j, k) - G[i, j, k])
    i1, i2, i3 = so.invariant1, so.invariant2, so.invariant3
    for i in range(n):
        T = e[i]
        tr = T[0][0] + T[1][1] + T[2][2]
        tr2 = None
        for a_, b_ in itertools.product(range(3), repeat=2):
            t = T[a_][b_] * T[b_][a_]
            tr2 = t if tr2 is None else tr2 + t
        d3 = (T[0][0] * (T[1][1] * T[2][2] - T[1][2] * T[2][1]) - T[0][1] * (T[1][0] * T[2][2] - T[1][2] * T[2][0]) + T[0][2] * (T[1][0] * T[2][1] - T[1][1] * T[2][0]))
        E.prove('invariant1_c.trace[%d]' % i, i1[i] == tr)
        E.prove('invariant2_c.second_invariant[%d]' % i, i2[i] * 2 == tr * tr - tr2)
        E.prove('invariant3_c.determinant[%d]' % i, i3[i] == d3)
    av = so.angularvelocity
    for i in range(n):
        w = [((I(1, 2) - G[i, 1, 2]) - (I(2, 1) - G[i, 2, 1])) * half, ((I(0, 2) - G[i, 0, 2]) - (I(2, 0) - G[i, 2, 0])) * half, ((I(0, 1) - G[i, 0, 1]) - (I(1, 0) - G[i, 1, 0])) * half]
        E.prove('angularvelocity_c.post[%d]' % i, And(av[i] >= 0, av[i] * av[i] == w[0] * w[0] + w[1] * w[1] + w[2] * w[2]))
    E.canary('strain.kernels.canary', st[0, 0, 0] == 0)


@group('strain.G_is_inverse_transpose_of_F', files=[STRF], functions=['Strain.solve_G'],
       clause='when every neighbour vector of the deformed system is q = F p for the matched reference vector p (three independent neighbours), the correspondence tensor is G = F^-T',
       replay=_replay, timeout_ms=60000)
def g_inverse_transpose(E, L):
    M = L.load(STRF)
    F = E.reals('F', (3, 3))
    p = E.reals('p', (3, 3))           # rows: three reference neighbour vectors
    E.assume(det3(F) != 0)
    E.assume(det3(p) != 0)
    q = snp.asarray(_np.asarray(p, dtype=object).dot(_np.asarray(F, dtype=object).T))

    def match_all(p_, q_, cmax, P, Q):
        """contract stub of match_pq for a perfect correspondence: every q_j pairs with p_j (its own image)"""
        for j in range(3):
            for x in range(3):
                Q[j, x] = q_[j, x]
                P[j, x] = p_[j, x]
        return 3
    M.match_pq = match_all

    class Nl(object):
        coord = _np.array([3])

        def __getitem__(self, i):
            return [1, 2, 3]

    class Sys(object):
        natoms = 1

        def dvect(self, i, js):
            return q
    E.side_enabled = False
    st = M.Strain(Sys(), neighbors=Nl(), p_vectors=[p])
    st._Strain__p_vectors = [p]
    G = st.G
    E.side_enabled = True
    E.prove('solve_G.shape', G.shape == (1, 3, 3))
    # G = F^-T  <=>  F^T G = I
    FtG = _np.asarray(F, dtype=object).T.dot(_np.asarray(G[0], dtype=object))
    for a in range(3):
        for b in range(3):
            E.prove('solve_G.Ft_G_is_identity[%d,%d]' % (a, b), Sym(tm.to_real(_t(FtG[a, b]))) == (1 if a == b else 0))
    E.canary('solve_G.canary', G[0, 0, 0] == 1)


def _t(x):
    from pyvc.sym import lift
    return x.t if isinstance(x, Sym) else lift(x)


@group('nye.linear_in_neighbour_differences', files=[STRF], functions=['Strain.dG_c', 'Strain.nye_c', 'Strain.solve_nye'],
       clause='dG holds the differences of G between each listed neighbour and the atom itself; the Nye tensor is alpha_ab = eps_amn d_n G_mb of the fitted gradient, hence vanishes when all neighbours share the same G',
       replay=_replay)
def nye_linear(E, L):
    M = L.load(STRF)
    G = E.reals('G', (3, 3, 3))
    nlist = _np.array([[2, 1, 2], [1, 0, -5], [2, 0, 1]])
    dG = snp.empty((2, 3, 3))
    M.dG_c(G, nlist, dG, 0)
    for j, nb in enumerate((1, 2)):
        E.prove_eq('dG_c.post[%d]' % j, dG[j], G[nb] - G[0])
    dG1 = snp.empty((2, 3, 3))
    M.dG_c(G, nlist, dG1, 1)
    E.prove_eq('dG_c.only_listed_neighbours', dG1[0], G[0] - G[1])
    gradG = E.reals('g', (3, 3, 3))
    nye = snp.empty((2, 3, 3))
    M.nye_c(gradG, nye, 1)
    eps = lambda a, b, c: (a - b) * (b - c) * (c - a) // 2
    for a in range(3):
        for b in range(3):
            want = None
            for m, n_ in itertools.product(range(3), repeat=2):
                e_ = eps(a, m, n_)
                if e_:
                    t = e_ * gradG[m, b, n_]
                    want = t if want is None else want + t
            E.prove('nye_c.curl_pattern[%d,%d]' % (a, b), nye[1, a, b] == want)
    # homogeneous G: solve_nye gives zero
    Gh = snp.asarray(_np.array([_np.asarray(G[0], dtype=object)] * 3))

    class Nl(object):
        nlist = _np.array([[2, 1, 2], [2, 0, 2], [2, 0, 1]])

    class Sys(object):
        natoms = 3

        def dvect(self, i, js):
            return E.reals('q%d' % i, (len(js), 3))
    st = object.__new__(M.Strain)
    st._Strain__system = Sys()
    st._Strain__neighbors = Nl()
    st._Strain__G = Gh
    st._Strain__nye = None
    st.solve_nye()
    z = st.nye
    E.prove('solve_nye.homogeneous_G_gives_zero', all((isinstance(x, Sym) and x.is_concrete() and x.value() == 0) or (not isinstance(x, Sym) and x == 0) for x in _np.asarray(z, dtype=object).ravel()))
    E.canary('nye.canary', gradG[0, 0, 0] == 0)


class _DvectRec(object):
    def __init__(self):
        self.calls = []

    def __call__(self, p0, p1, V, a, b, c):
        from pyvc.sym import get_engine
        k = len(self.calls)
        r = get_engine().reals('d%d' % k, (len(p0), 3))
        self.calls.append((_np.array(p0, dtype=object, copy=True), _np.array(p1, dtype=object, copy=True), V, (a, b, c), r))
        return r


_dv = _DvectRec()


@group('slip_vector.kernel', files=[SLIPF], functions=['slip_vector.slip_vector_c', 'slip_vector.slip_vector'], overrides={'atomman.core.dvect.dvect_c': _dv},
       clause='the slip vector of atom i is minus the sum, over exactly the neighbours listed for atom i, of (periodic separation after - periodic separation before), both taken with the first '
              "system's cell and periodicity; atoms without listed neighbours get zero", replay=_replay_slip)
def slip_kernel(E, L):
    M = L.load(SLIPF)
    M.dvect_c = _dv            # contract stub of dvect_c (C02): records its arguments, returns fresh symbolic separations
    n = 4
    p0 = E.reals('a', (n, 3))
    p1 = E.reals('b', (n, 3))
    V = E.reals('V', (3, 3))
    nlist = _np.array([[3, 1, 2, 3], [1, 0, -9, -9], [0, -9, -9, -9], [2, 0, 1, -9]])
    del _dv.calls[:]
    s = M.slip_vector_c(p0, p1, V, nlist, True, False, True)
    E.prove('slip_vector_c.shape', s.shape == (n, 3))
    E.shape('slip_vector_c.two_dvect_calls_per_atom', len(_dv.calls) == 2 * n)
    for i in range(n):
        coord = int(nlist[i, 0])
        c0, c1 = _dv.calls[2 * i], _dv.calls[2 * i + 1]
        for k_ in range(coord):
            nb = int(nlist[i, k_ + 1])
            E.prove_eq('slip_vector_c.before_pairs[%d][%d]' % (i, k_), snp.asarray(c0[0][k_]), p0[i])
            E.prove_eq('slip_vector_c.before_neighbours[%d][%d]' % (i, k_), snp.asarray(c0[1][k_]), p0[nb])
            E.prove_eq('slip_vector_c.after_pairs[%d][%d]' % (i, k_), snp.asarray(c1[0][k_]), p1[i])
            E.prove_eq('slip_vector_c.after_neighbours[%d][%d]' % (i, k_), snp.asarray(c1[1][k_]), p1[nb])
        E.prove('slip_vector_c.periodicity_and_cell_forwarded[%d]' % i, c0[3] == (True, False, True) and c1[3] == (True, False, True) and c0[2] is V and c1[2] is V)
        for j in range(3):
            want = realconst(0)
            for k_ in range(coord):
                want = want - (c1[4][k_, j] - c0[4][k_, j])
            E.prove('slip_vector_c.post[%d,%d]' % (i, j), s[i, j] == want)
    E.canary('slip_vector.canary', s[0, 0] == 0)


# ----------------------------------------------------------------------------
# bounded composites

def _crystals(am, np):
    fcc = am.System(atoms=am.Atoms(pos=[[0, 0, 0], [0.5, 0.5, 0], [0.5, 0, 0.5], [0, 0.5, 0.5]]), box=am.Box.cubic(4.05), scale=True)
    bcc = am.System(atoms=am.Atoms(pos=[[0, 0, 0], [0.5, 0.5, 0.5]]), box=am.Box.cubic(2.87), scale=True)
    b2 = am.System(atoms=am.Atoms(atype=[1, 2], pos=[[0, 0, 0], [0.5, 0.5, 0.5]]), box=am.Box.cubic(2.9), scale=True)
    hcp = am.System(atoms=am.Atoms(pos=[[0, 0, 0], [1 / 3., 2 / 3., 0.5]]), box=am.Box.hexagonal(3.2, 5.2), scale=True)
    dia = am.System(atoms=am.Atoms(pos=[[0, 0, 0], [0.5, 0.5, 0], [0.5, 0, 0.5], [0, 0.5, 0.5], [.25, .25, .25], [.75, .75, .25], [.75, .25, .75], [.25, .75, .75]]), box=am.Box.cubic(5.43), scale=True)
    return {'fcc': (fcc, 3.2, (3, 3, 3)), 'bcc': (bcc, 2.6, (4, 4, 4)), 'B2': (b2, 2.6, (4, 4, 4)), 'hcp': (hcp, 3.5, (4, 4, 3)), 'diamond': (dia, 2.6, (3, 3, 3))}


@group('homogeneous_deformation', kind='bounded', files=[STRF, DISPF], functions=['Strain.Strain', 'core.displacement', 'nye_tensor'],
       clause='a homogeneous deformation gradient F imposed on a perfect crystal yields at every atom G = F^-T, the strain/rotation/invariants that follow from it and a vanishing Nye tensor; the '
              'displacement is the imposed displacement through the periodic boundaries; results are unchanged by a common translation and permute under consistent renumbering',
       rule='crystals {fcc, bcc, B2, hcp, diamond} x 4 deformation gradients (incl. a pure rotation) x reference given as basesystem or as p_vectors x {as built, translated, renumbered}; the '
            'stand-alone nye_tensor function on the same crystals in 3 orientations with the reference vectors given as one list + axes, one list per atom + axes, or pre-rotated without axes; '
            'non-trivial = F != I')
def homogeneous(tier, seed):
    from pyvc.native import atomman
    import numpy as np
    am = atomman()
    rng = np.random.RandomState(3 + seed)
    th = np.radians(4.0)
    Fs = [np.eye(3), np.array([[1.01, 0.004, -0.003], [0.002, 0.99, 0.005], [-0.001, 0.003, 1.02]]),
          np.array([[np.cos(th), -np.sin(th), 0], [np.sin(th), np.cos(th), 0], [0, 0, 1]]), np.array([[1.0, 0.02, 0], [0, 1.0, 0], [0, 0, 1.0]])]
    fails, samples = [], []
    evals = nontriv = 0
    for (cname, (ucell, cutoff, size)), (fi, F), route, variant in itertools.product(_crystals(am, np).items(), enumerate(Fs), ['basesystem', 'p_vectors'], ['asbuilt', 'translated', 'renumbered']):
        if tier == 'quick' and variant != 'asbuilt' and fi not in (1,):
            continue
        evals += 1
        nontriv += fi != 0
        key = '%s,F%d,%s,%s' % (cname, fi, route, variant)
        msgs = []
        try:
            base = ucell.supersize(*size)
            n = base.natoms
            perm = np.arange(n)
            shift = np.zeros(3)
            if variant == 'renumbered':
                perm = rng.permutation(n)
            if variant == 'translated':
                shift = np.array([0.37, -1.21, 2.05])
            bpos = base.atoms.pos[perm]
            basev = am.System(atoms=am.Atoms(atype=base.atoms.atype[perm], pos=bpos + shift), box=am.Box(vects=base.box.vects, origin=base.box.origin + shift))
            dsys = am.System(atoms=am.Atoms(atype=base.atoms.atype[perm], pos=(bpos).dot(F.T) + shift), box=am.Box(vects=base.box.vects.dot(F.T), origin=base.box.origin.dot(F.T) + shift))
            nl0 = am.NeighborList(system=basev, cutoff=cutoff)
            nl1 = am.NeighborList(system=dsys, cutoff=cutoff * 1.03)
            if route == 'basesystem':
                st = am.defect.Strain(dsys, neighbors=nl1, basesystem=basev, baseneighbors=nl0)
            else:
                pv = [basev.dvect(i, nl0[i]) for i in range(n)]
                st = am.defect.Strain(dsys, neighbors=nl1, p_vectors=pv)
            G = np.linalg.inv(F).T
            if not np.allclose(st.G, G[None], atol=1e-8):
                bad = int(np.argmax(np.abs(st.G - G[None]).max(axis=(1, 2))))
                msgs.append('G differs from inv(F).T at atom %d (max %g)' % (bad, np.abs(st.G - G[None]).max()))
            else:
                e = ((np.eye(3) - G) + (np.eye(3) - G).T) / 2
                w = ((np.eye(3) - G) - (np.eye(3) - G).T) / 2
                if not np.allclose(st.strain, e[None], atol=1e-8):
                    msgs.append('strain differs from sym(I-G)')
                if not np.allclose(st.rotation, w[None], atol=1e-8):
                    msgs.append('rotation differs from skew(I-G)')
                if not (np.allclose(st.invariant1, np.trace(e), atol=1e-8) and np.allclose(st.invariant3, np.linalg.det(e), atol=1e-8)
                        and np.allclose(st.invariant2, 0.5 * (np.trace(e) ** 2 - np.trace(e.dot(e))), atol=1e-8)):
                    msgs.append('strain invariants differ')
                if not np.allclose(st.angularvelocity, np.sqrt(w[0, 1] ** 2 + w[0, 2] ** 2 + w[1, 2] ** 2), atol=1e-8):
                    msgs.append('angular velocity differs')
                if not np.allclose(st.nye, 0, atol=1e-6):
                    msgs.append('Nye tensor not zero (max %g)' % np.abs(st.nye).max())
            # displacement through the periodic boundary: imposed displacement u = (F - I) x, compared modulo lattice vectors of the final cell
            disp = am.displacement(basev, dsys)
            want = (bpos).dot(F.T) - bpos
            diff = (disp - want).dot(np.linalg.inv(dsys.box.vects))
            if not np.allclose(diff, np.round(diff), atol=1e-8):
                msgs.append('displacement is not the imposed displacement modulo cell vectors')
            if len(samples) < 1 and fi == 1:
                samples.append({'case': key, 'G00': float(st.G[0, 0, 0])})
        except Exception as e:
            msgs.append('raised %s: %s' % (type(e).__name__, e))
        if msgs:
            fails.append({'obligation': 'homogeneous.post', 'key': key, 'input': key, 'detail': '; '.join(msgs[:3])})
    # ---- the stand-alone nye_tensor function on ORIENTED crystals: reference vectors are given in the crystal frame together with the crystal's axes; one list for all
    # atoms or one list per atom
    def rot(axis, deg):
        axis = np.asarray(axis, dtype=float) / np.linalg.norm(axis)
        t = np.radians(deg)
        K = np.array([[0, -axis[2], axis[1]], [axis[2], 0, -axis[0]], [-axis[1], axis[0], 0]])
        return np.eye(3) + np.sin(t) * K + (1 - np.cos(t)) * K.dot(K)
    orients = {'standard': np.eye(3), 'z35': rot([0, 0, 1], 35), 'general': rot([1, 2, -1], 48)}
    F = Fs[1]
    for (cname, (ucell, cutoff, size)), (oname, R), form in itertools.product(_crystals(am, np).items(), orients.items(), ['one list', 'list per atom', 'no axes']):
        evals += 1
        nontriv += oname != 'standard'
        key = 'nye_tensor,%s,%s,%s' % (cname, oname, form)
        msgs = []
        try:
            base = ucell.supersize(*size)
            n = base.natoms
            nl0 = am.NeighborList(system=base, cutoff=cutoff)
            pv = [base.dvect(i, nl0[i]) for i in range(n)]                      # crystal frame
            # all atoms of a Bravais crystal share one list; otherwise only the per-atom form applies
            as_set = lambda P: set(tuple(np.round(v, 5) + 0.0) for v in np.asarray(P))
            same = all(as_set(pv[i]) == as_set(pv[0]) for i in range(n))
            if form == 'one list' and not same:
                evals -= 1
                nontriv -= oname != 'standard'
                continue
            opos = base.atoms.pos.dot(R.T)                                          # the crystal as oriented in the system: rows of R are the crystal axes... x' = R x
            obox = base.box.vects.dot(R.T)
            Fo = F
            dsys = am.System(atoms=am.Atoms(atype=base.atoms.atype, pos=opos.dot(Fo.T)), box=am.Box(vects=obox.dot(Fo.T), origin=base.box.origin.dot(R.T).dot(Fo.T)))
            nl1 = am.NeighborList(system=dsys, cutoff=cutoff * 1.03)
            if form == 'no axes':
                res = am.defect.nye_tensor(dsys, p_vectors=[np.asarray(p_).dot(R.T) for p_ in pv], neighbors=nl1)
            elif form == 'one list':
                res = am.defect.nye_tensor(dsys, p_vectors=[pv[0]], axes=R, neighbors=nl1)
            else:
                res = am.defect.nye_tensor(dsys, p_vectors=pv, axes=R, neighbors=nl1)
            G = np.linalg.inv(Fo).T
            e = ((np.eye(3) - G) + (np.eye(3) - G).T) / 2
            w = ((np.eye(3) - G) - (np.eye(3) - G).T) / 2
            if not np.allclose(res['strain'], e[None], atol=1e-8):
                msgs.append('strain differs from sym(I - F^-T) (max %g)' % np.abs(res['strain'] - e[None]).max())
            if not np.allclose(res['strain_invariant_1'], np.trace(e), atol=1e-8) or not np.allclose(res['strain_invariant_2'], 0.5 * (np.trace(e) ** 2 - np.trace(e.dot(e))), atol=1e-8):
                msgs.append('strain invariants differ')
            if not np.allclose(res['angular_velocity'], np.sqrt(w[0, 1] ** 2 + w[0, 2] ** 2 + w[1, 2] ** 2), atol=1e-8):
                msgs.append('angular velocity differs')
            if not np.allclose(res['Nye_tensor'], 0, atol=1e-6):
                msgs.append('Nye tensor not zero (max %g)' % np.abs(res['Nye_tensor']).max())
        except Exception as e_:
            msgs.append('raised %s: %s' % (type(e_).__name__, e_))
        if msgs:
            fails.append({'obligation': 'homogeneous.post', 'key': key, 'input': key, 'detail': 'nye_tensor(%s, %s orientation, reference vectors as %s): %s' % (cname, oname, form, '; '.join(msgs[:3]))})
    files = {rel: hashlib.sha256(open(os.path.join(REPO, rel), 'rb').read()).hexdigest() for rel in (STRF, DISPF)}
    return {'family': 'homogeneous deformation of perfect crystals', 'evaluations': evals, 'distinct_nontrivial': nontriv, 'rule': 'see group rule', 'samples': samples, 'failures': fails[:12], 'files': files}


@group('rigid_slip', kind='bounded', files=[SLIPF, 'atomman/defect/disregistry.py', 'atomman/defect/DifferentialDisplacement.py', 'atomman/defect/differential_displacement.py'],
       functions=['slip_vector.slip_vector', 'defect.disregistry', 'defect.DifferentialDisplacement'],
       clause="a rigid slip s of the upper half crystal gives each atom a slip vector equal to its own half's displacement relative to the other half times its number of neighbours across the plane "
              '(zero away from the plane), a disregistry equal to the slip, and for every neighbour pair a differential displacement equal to the difference of the imposed displacements; '
              'unchanged by a common translation and consistent under renumbering',
       rule='crystals {fcc, bcc, hcp} as slabs (non-periodic across the plane; also free-standing blocks) x 3 slip vectors x 2 plane positions between layers x {as built, renumbered, translated}; '
            'oracle: brute-force neighbour count across the plane; non-trivial = slip != 0')
def rigid_slip(tier, seed):
    from pyvc.native import atomman
    import numpy as np
    am = atomman()
    rng = np.random.RandomState(9 + seed)
    fails, samples = [], []
    evals = nontriv = 0
    crystals = _crystals(am, np)
    for cname, slip, frac, pbc, variant in itertools.product(['fcc', 'bcc', 'hcp'], [np.array([0.31, 0.0, 0.0]), np.array([0.2, -0.15, 0.0]), np.zeros(3)], [0.5, 0.25],
                                                             [(True, True, False), (False, False, False)], ['asbuilt', 'renumbered', 'translated']):
        ucell, cutoff, size = crystals[cname]
        evals += 1
        nontriv += bool(np.any(slip))
        key = '%s,slip=%s,plane=%.2f,pbc=%s,%s' % (cname, slip.tolist(), frac, ''.join('p' if p else 'f' for p in pbc), variant)
        msgs = []
        try:
            base = ucell.supersize(size[0], size[1], size[2] + 1)
            n = base.natoms
            perm = rng.permutation(n) if variant == 'renumbered' else np.arange(n)
            shift = np.array([0.4, -0.9, 1.3]) if variant == 'translated' else np.zeros(3)
            pos0 = base.atoms.pos[perm] + shift
            zs = np.unique(np.round(pos0[:, 2], 6))
            k = int(len(zs) * frac)
            zplane = 0.5 * (zs[k - 1] + zs[k])
            upper = pos0[:, 2] > zplane
            pos1 = pos0 + np.where(upper[:, None], slip[None, :], 0.0)
            box = am.Box(vects=base.box.vects, origin=base.box.origin + shift)
            s0 = am.System(atoms=am.Atoms(pos=pos0), box=box, pbc=pbc)
            s1 = am.System(atoms=am.Atoms(pos=pos1), box=box, pbc=pbc)
            nl = am.NeighborList(system=s0, cutoff=cutoff)
            sv = am.defect.slip_vector(s0, s1, neighbors=nl)
            want = np.zeros((n, 3))
            for i in range(n):
                across = [j for j in nl[i] if upper[j] != upper[i]]
                rel = slip if upper[i] else -slip          # own half's displacement relative to the other half
                want[i] = rel * len(across)
            if not np.allclose(sv, want, atol=1e-9):
                bad = int(np.argmax(np.abs(sv - want).max(axis=1)))
                msgs.append('slip vector of atom %d is %r, expected %r (%d neighbours across the plane)' % (bad, sv[bad].round(6).tolist(), want[bad].round(6).tolist(),
                                                                                                               len([j for j in nl[bad] if upper[j] != upper[bad]])))
            # differential displacement for every neighbour pair
            dd = am.defect.DifferentialDisplacement(s0, s1, neighbors=nl, reference=0)
            u = pos1 - pos0
            ok = True
            cnt = 0
            for i in range(n):
                for j in nl[i]:
                    if j > i:
                        cnt += 1
            if hasattr(dd, 'ddvectors') and len(dd.ddvectors) == cnt:
                k_ = 0
                exp = []
                for i in range(n):
                    for j in nl[i]:
                        if j > i:
                            exp.append(u[j] - u[i])
                exp = np.array(exp)
                if not (np.allclose(np.sort(np.abs(dd.ddvectors), axis=0), np.sort(np.abs(exp), axis=0), atol=1e-9)):
                    msgs.append('differential displacements differ from the differences of the imposed displacements')
            # disregistry across the plane (along x) equals the slip
            if pbc[2] is False and variant != 'renumbered' or True:
                xs, dr = am.defect.disregistry(s0, s1, m=[1, 0, 0], n=[0, 0, 1], planepos=[0, 0, zplane])
                if not np.allclose(dr, slip[None, :], atol=1e-8) and not np.allclose(dr, -slip[None, :], atol=1e-8):
                    msgs.append('disregistry %r is not the imposed slip %r' % (dr[0].round(6).tolist(), slip.tolist()))
            if len(samples) < 1 and np.any(slip):
                samples.append({'case': key, 'max_slip_vector': float(np.abs(sv).max())})
        except Exception as e:
            msgs.append('raised %s: %s' % (type(e).__name__, e))
        if msgs:
            fails.append({'obligation': 'rigid_slip.post', 'key': key, 'input': key, 'detail': '; '.join(msgs[:3])})
    files = {rel: hashlib.sha256(open(os.path.join(REPO, rel), 'rb').read()).hexdigest() for rel in (SLIPF, 'atomman/defect/disregistry.py', 'atomman/defect/DifferentialDisplacement.py')}
    return {'family': 'rigid slip of a half crystal', 'evaluations': evals, 'distinct_nontrivial': nontriv, 'rule': 'see group rule', 'samples': samples, 'failures': fails[:12], 'files': files}


# ----------------------------------------------------------------------------
# Strain: every cached result is dropped when the correspondence tensor is re-solved (rotation, strain, ... follow from the CURRENT G)

import ast as _ast


@group('strain.cache_invalidation', files=[STRF], functions=['Strain.clear_properties', 'Strain.solve_G', 'Strain property getters'],
       clause='every attribute that a Strain property getter or solver fills lazily is reset by clear_properties (static: the set of cached attributes is read off the getters), '
              'solve_G and the constructor go through clear_properties, and after clear_properties each derived property is recomputed from the current G (executed on a symbolic G '
              'with stale sentinels in every cache)', replay=_replay)
def strain_cache(E, L):
    import os as _os
    from pyvc.loader import cy2py
    M = L.load(STRF)
    text, _dropped = cy2py(open(_os.path.join(REPO, STRF), encoding='utf-8').read())
    tree = _ast.parse(text)
    cls = [n for n in _ast.walk(tree) if isinstance(n, _ast.ClassDef) and n.name == 'Strain'][0]
    cached, cleared, calls_clear = set(), set(), set()
    for fn in [n for n in cls.body if isinstance(n, _ast.FunctionDef)]:
        is_getter = any(isinstance(d, _ast.Name) and d.id == 'property' for d in fn.decorator_list)
        for node in _ast.walk(fn):
            if isinstance(node, _ast.Assign):
                for tgt in node.targets:
                    if isinstance(tgt, _ast.Attribute) and isinstance(tgt.value, _ast.Name) and tgt.value.id == 'self' and tgt.attr.startswith('__'):
                        if fn.name == 'clear_properties' and isinstance(node.value, _ast.Constant) and node.value.value is None:
                            cleared.add(tgt.attr)
                        elif is_getter or fn.name in ('solve_G', 'solve_nye'):
                            cached.add(tgt.attr)
            if isinstance(node, _ast.Call) and isinstance(node.func, _ast.Attribute) and node.func.attr == 'clear_properties':
                calls_clear.add(fn.name)
    E.shape('cache.cached_attributes_found', {'__strain', '__rotation', '__angularvelocity', '__invariant1', '__G', '__nye'} <= cached)
    E.prove('cache.every_cached_attribute_is_cleared', cached <= cleared)
    E.prove('cache.solvers_and_constructor_clear_first', {'solve_G', '__init__'} <= calls_clear)
    # executed: stale sentinels everywhere, then clear, then read
    G = E.reals('G', (1, 3, 3))
    E.canary('strain.cache.canary', G[0, 0, 0] == G[0, 1, 1])
    st = object.__new__(M.Strain)
    for nm in cached | cleared:
        setattr(st, '_Strain' + nm, 'STALE')
    st.clear_properties()
    E.prove('cache.cleared_at_run_time', all(getattr(st, '_Strain' + nm) is None for nm in cached))
    st._Strain__G = G
    half_ = realconst(Fraction(1, 2))
    Id = lambda j, k: 1 if j == k else 0

    def spec_strain(Gx):
        return snp.asarray(_np.array([[[((Id(j, k) - Gx[0, j, k]) + (Id(k, j) - Gx[0, k, j])) * half_ for k in range(3)] for j in range(3)]], dtype=object))

    def spec_rot(Gx):
        return snp.asarray(_np.array([[[((Id(j, k) - Gx[0, j, k]) - (Id(k, j) - Gx[0, k, j])) * half_ for k in range(3)] for j in range(3)]], dtype=object))
    want_strain = spec_strain(G)
    want_rot = spec_rot(G)
    for j in range(3):
        for k in range(3):
            E.prove('cache.strain_recomputed[%d,%d]' % (j, k), st.strain[0, j, k] == want_strain[0, j, k])
            E.prove('cache.rotation_recomputed[%d,%d]' % (j, k), st.rotation[0, j, k] == want_rot[0, j, k])
    E.prove('cache.invariant_recomputed', st.invariant1[0] == want_strain[0, 0, 0] + want_strain[0, 1, 1] + want_strain[0, 2, 2])
    av_ = st.angularvelocity[0]
    E.prove('cache.angular_velocity_recomputed', And(av_ >= 0, av_ * av_ == want_rot[0, 1, 2] * want_rot[0, 1, 2] + want_rot[0, 0, 2] * want_rot[0, 0, 2] + want_rot[0, 0, 1] * want_rot[0, 0, 1]))
    # a second state on the same object: new G, clear, read again
    G2 = E.reals('G2', (1, 3, 3))
    st.clear_properties()
    st._Strain__G = G2
    for j in range(3):
        for k in range(3):
            E.prove('cache.rotation_follows_new_G[%d,%d]' % (j, k), st.rotation[0, j, k] == spec_rot(G2)[0, j, k])
            E.prove('cache.strain_follows_new_G[%d,%d]' % (j, k), st.strain[0, j, k] == spec_strain(G2)[0, j, k])

# ----------------------------------------------------------------------------
# callee contracts this property's proofs ASSUME are part of this check (modular verification carries the property only if the assumed contract is itself
# discharged on the same tree): the groups of the property that establishes them run here as well, reported under this property when they fail.
# the analysis tools start from core.displacement; displacement.py is one of this property's files
from . import c02 as _c02
for _g in _c02.GROUPS:
    if _g.name in ('displacement',):
        GROUPS.append(_g)
