"""C04 — Supercells and re-oriented cells contain the same infinite crystal."""
import hashlib
import itertools
import os
from fractions import Fraction

import numpy as _np

from pyvc.runner import group, REPO
from pyvc import symnp as snp, terms as tm, poly
from pyvc.sym import Sym, realconst
from .common import det3, dot3, cross3, And, Or, Not, Implies, Iff

LEVEL = 'other'
EXPLANATION = ("System.supersize is proved on a cell with symbolic vectors, origin, relative coordinates (2 atoms) and a symbolic extra property, for a list of multiplier triples "
               "(positive, negative, two-sided): atom count and volume scale by the replication count, the new cell is the old one stretched by the multipliers with the origin "
               "shifted by the lower bounds, every replica (x,y,z,atom) appears exactly once at atom + x a + y b + z c with the atom's type and property values, and documented "
               "refusals hold. The block of rotate that chooses the supercell range is extracted mechanically and proved for symbolic integer vectors: the corners are the subset sums and every point of the new cell lies inside the searched range with a margin of one cell. The centring matrices are mutually inverse with the lattice-point multiplicity as determinant (proved in C16). System.rotate filters atoms with "
               "a tolerance ladder and np.where (shape-changing) and then goes through normalize (lstsq, arccos): its crystal-level clauses and the conventional<->primitive "
               "conversions are a labelled bounded contract check against a lattice oracle.")
ASSUMPTIONS = ["supersize proof: natoms = 2, relative coordinates symbolic; Cartesian->relative through its C01 contract", "rotate / conversions: bounded stand-in (np.where filtering, normalize)"]
UNCOVERED = ["rotate for vector sets outside the bounded family"]

SYSF = 'atomman/core/System.py'
BOXF = 'atomman/core/Box.py'
NORMF = 'atomman/lammps/normalize.py'


def _replay(stem, vals):
    from pyvc.native import atomman
    import numpy as np
    am = atomman()
    msgs = []
    try:
        _s0 = am.System(atoms=am.Atoms(atype=[1, 2], pos=[[0.1, 0.2, 0.3], [1.0, 1.1, 1.2]]), box=am.Box(vects=[[3.0, 0, 0], [0.5, 3.2, 0], [0.1, -0.2, 3.4]]))
        _s1 = _s0.supersize(1, 1, 1)
        if _s1 is _s0 or _s1.atoms is _s0.atoms or np.shares_memory(_s1.atoms.pos, _s0.atoms.pos):
            return (True, 'supersize(1, 1, 1) returns the system itself (or shares its storage) instead of a new system')
    except Exception:
        pass
    try:
        V = np.array([[4.0, 0, 0], [1.2, 5.0, 0], [-0.7, 0.9, 6.0]])
        o = np.array([0.5, -2.0, 3.0])
        s = np.array([[0.1, 0.2, 0.3], [0.6, 0.4, 0.7]])
        u = am.System(atoms=am.Atoms(atype=[1, 2], pos=s.dot(V) + o, tag=[7, 8]), box=am.Box(vects=V, origin=o), symbols=['Al', 'Cu'])
        for sizes in ((2, 1, 1), (1, 2, 3), ((-1, 1), 2, (-2, 0)), (-2, 1, 1), ((-1, 2), 1, (-2, 0)), (1, (-2, 1), -2)):
            lo = [x[0] if isinstance(x, tuple) else min(x, 0) for x in sizes]
            hi = [x[1] if isinstance(x, tuple) else max(x, 0) for x in sizes]
            m = [h - l for l, h in zip(lo, hi)]
            sup = u.supersize(*sizes)
            want = []
            for z, y, x in itertools.product(range(lo[2], hi[2]), range(lo[1], hi[1]), range(lo[0], hi[0])):
                for i in range(2):
                    want.append((tuple(np.round(u.atoms.pos[i] + np.array([x, y, z]).dot(V), 8)), int(u.atoms.atype[i]), int(u.atoms.tag[i])))
            got = [(tuple(np.round(sup.atoms.pos[k], 8)), int(sup.atoms.atype[k]), int(sup.atoms.tag[k])) for k in range(sup.natoms)]
            if sorted(got) != sorted(want):
                msgs.append('supersize%r: replicas differ from atom + x a + y b + z c' % (sizes,))
            if not (np.allclose(sup.box.vects, V * np.array(m)[:, None]) and np.allclose(sup.box.origin, o + np.array(lo).dot(V))):
                msgs.append('supersize%r: new cell/origin wrong' % (sizes,))
    except Exception as e:
        msgs.append('raised %s: %s' % (type(e).__name__, e))
    return (len(msgs) > 0, '; '.join(msgs[:3]) if msgs else 'float replay of supersize found no disagreement')


SIZES = [(2, 1, 1), (1, 2, 3), ((-1, 1), 2, (-2, 0)), (-2, 1, 1), (1, -3, (0, 2)), (1, 1, 1)]


def _supersize_group(sizes):
    tag = str(sizes).replace(' ', '')

    @group('supersize%s' % tag, files=[SYSF, BOXF], functions=['System.supersize', 'System.__init__', 'System.atoms_prop'],
           clause='replicating by %s: atom count and volume scale by the replication count; the new cell is the old one stretched by the multipliers with the origin shifted by the lower bounds; '
                  'every replica (x,y,z,atom) appears exactly once at atom + x a + y b + z c with the type and property values of that atom' % (sizes,), replay=_replay, timeout_ms=20000)
    def h_(E, L):
        core = L.resolve('atomman.core')
        System, Atoms, Box = core.System, core.Atoms, core.Box
        V = E.reals('V', (3, 3))
        o = E.reals('o', (3,))
        s = E.reals('s', (2, 3))
        tagv = E.reals('t', (2,))
        E.assume(det3(V) != 0)
        registry = {}

        class PlainBox(Box):
            """real Box whose vects setter stores the given vectors as they are: the near-zero clean-up is the setter's own contract (C01, group Box.vects.setter)"""
            @property
            def vects(self):
                return Box.vects.fget(self)

            @vects.setter
            def vects(self, value):
                self._Box__vects = snp.array(value)
                self._Box__reciprocal_vects = None

        class CBox(PlainBox):
            def position_cartesian_to_relative(self, value):
                value = snp.asarray(value)
                key = tuple(x.t.uid if isinstance(x, Sym) else ('c', x) for x in value.ravel())
                if key in registry:
                    return registry[key].copy()
                return Box.position_cartesian_to_relative(self, value)
        box = CBox()
        box._Box__vects = V.copy()
        box._Box__origin = o.copy()
        box._Box__reciprocal_vects = None
        pos = snp.asarray(_np.asarray(s, dtype=object).dot(_np.asarray(V, dtype=object)) + _np.asarray(o, dtype=object))
        registry[tuple(x.t.uid for x in pos.ravel())] = s
        E.canary('supersize.canary%s' % tag, s[0, 0] == 0)
        E.side_enabled = False

        sysmod = L.load(SYSF)
        sysmod.Box = PlainBox
        u = System(atoms=Atoms(atype=[1, 2], pos=pos.copy(), tag=tagv.copy()), box=box, symbols=['Al', 'Cu'])
        sup = u.supersize(*sizes)
        lo = [x[0] if isinstance(x, tuple) else min(x, 0) for x in sizes]
        hi = [x[1] if isinstance(x, tuple) else max(x, 0) for x in sizes]
        m = [h - l for l, h in zip(lo, hi)]
        nrep = m[0] * m[1] * m[2]
        E.prove('supersize.natoms%s' % tag, sup.natoms == 2 * nrep)
        # cell (what the Box constructor was given; the near-zero clean-up of the setter is C01's contract)
        nV, no = sup.box._Box__vects, sup.box._Box__origin
        for i in range(3):
            for j in range(3):
                E.prove('supersize.cell%s[%d,%d]' % (tag, i, j), nV[i, j] == V[i, j] * m[i])
            E.prove('supersize.origin%s[%d]' % (tag, i), no[i] == o[i] + lo[0] * V[0, i] + lo[1] * V[1, i] + lo[2] * V[2, i])
        E.prove('supersize.volume_scales%s' % tag, det3(snp.array([[V[i, j] * m[i] for j in range(3)] for i in range(3)])) == nrep * det3(V))
        # replicas: a bijection between rows and (x, y, z, atom)
        P = sup.atoms.view['pos']
        T = sup.atoms.view['tag']
        A = sup.atoms.view['atype']
        used = set()
        ok_all = True
        for z, y, x in itertools.product(range(lo[2], hi[2]), range(lo[1], hi[1]), range(lo[0], hi[0])):
            for i in range(2):
                want = [pos[i, j] + x * V[0, j] + y * V[1, j] + z * V[2, j] for j in range(3)]
                found = None
                for k in range(sup.natoms):
                    if k in used:
                        continue
                    if all(poly.equal(tm.to_real(_t(P[k, j])), tm.to_real(_t(want[j]))) for j in range(3)):
                        found = k
                        break
                E.prove('supersize.replica_present%s[%d,%d,%d,atom%d]' % (tag, x, y, z, i), found is not None)
                if found is None:
                    ok_all = False
                    continue
                used.add(found)
                E.prove('supersize.replica_properties%s[%d,%d,%d,atom%d]' % (tag, x, y, z, i), T[found].t is tagv[i].t and int(A[found]) == [1, 2][i])
        E.prove('supersize.no_other_atoms%s' % tag, len(used) == sup.natoms)
        E.prove('supersize.operand_unchanged%s' % tag, all(a.t is b.t for a, b in zip(u.atoms.view['pos'].ravel(), pos.ravel())) and u.box._Box__vects[1, 0].t is V[1, 0].t)
        E.prove('supersize.symbols_kept%s' % tag, tuple(sup.symbols) == ('Al', 'Cu'))
        # a NEW system, also for unit multipliers: nothing of the result is the operand's own storage
        E.prove('supersize.returns_a_new_system%s' % tag, sup is not u and sup.atoms is not u.atoms and sup.box is not u.box and sup.atoms.view['pos'] is not u.atoms.view['pos'])
    return h_


def _t(x):
    from pyvc.sym import lift
    return x.t if isinstance(x, Sym) else lift(x)


for _s in SIZES:
    _supersize_group(_s)


@group('supersize.refusals', files=[SYSF], functions=['System.supersize'], clause='zero multipliers, non-integer multipliers and malformed tuples are refused', replay=_replay)
def supersize_refusals(E, L):
    core = L.resolve('atomman.core')
    System, Atoms, Box = core.System, core.Atoms, core.Box
    u = System(atoms=Atoms(pos=[[0.1, 0.2, 0.3]]), box=Box(vects=[[3.0, 0, 0], [0, 3.0, 0], [0, 0, 3.0]]))
    for bad, exc in (((0, 1, 1), (ValueError, TypeError)), ((1.5, 1, 1), TypeError), (((1, 2), 1, 1), TypeError), (((-1, 1, 2), 1, 1), TypeError), (((0, 0), 1, 1), ValueError), (('a', 1, 1), TypeError)):
        try:
            u.supersize(*bad)
            E.prove('supersize.refuses%r' % (bad,), False)
        except exc:
            E.prove('supersize.refuses%r' % (bad,), True)
    x = E.real('x')
    E.canary('supersize.refusals.canary', x == 0)


# ----------------------------------------------------------------------------
# bounded: rotate and conventional <-> primitive against a lattice oracle

def _ucells(am, np):
    out = {}
    out['fcc'] = (am.System(atoms=am.Atoms(pos=[[0, 0, 0], [0.5, 0.5, 0], [0.5, 0, 0.5], [0, 0.5, 0.5]]), box=am.Box.cubic(4.05), scale=True, symbols='Al'), 'f')
    out['bcc2'] = (am.System(atoms=am.Atoms(atype=[1, 1], pos=[[0, 0, 0], [0.5, 0.5, 0.5]]), box=am.Box.cubic(2.87), scale=True, symbols='Fe'), 'i')
    out['B2'] = (am.System(atoms=am.Atoms(atype=[1, 2], pos=[[0, 0, 0], [0.5, 0.5, 0.5]], tag=[5, 6]), box=am.Box.cubic(2.9), scale=True, symbols=['Ni', 'Al']), 'p')
    out['hcp'] = (am.System(atoms=am.Atoms(pos=[[0, 0, 0], [1 / 3., 2 / 3., 0.5]]), box=am.Box.hexagonal(3.2, 5.2), scale=True, symbols='Mg'), 'p')
    out['tetrag'] = (am.System(atoms=am.Atoms(atype=[1, 2], pos=[[0, 0, 0], [0.5, 0.5, 0.4]], tag=[1, 2]), box=am.Box.tetragonal(3.0, 4.1), scale=True, symbols=['A', 'B']), 'p')
    out['ortho_face'] = (am.System(atoms=am.Atoms(atype=[1, 2, 1], pos=[[0, 0, 0], [0.5, 0.0, 0.3], [0.25, 0.5, 0.0]]), box=am.Box.orthorhombic(3.0, 4.0, 5.0), scale=True, symbols=['A', 'B']), 'p')
    out['mono'] = (am.System(atoms=am.Atoms(atype=[1, 2], pos=[[0.1, 0.2, 0.3], [0.6, 0.7, 0.1]]), box=am.Box.monoclinic(3.0, 4.0, 5.0, 103.0), scale=True, symbols=['A', 'B']), 'p')
    out['tricl'] = (am.System(atoms=am.Atoms(atype=[1, 2, 2], pos=[[0.1, 0.2, 0.3], [0.6, 0.7, 0.1], [0.3, 0.9, 0.8]], tag=[1, 2, 3]), box=am.Box.triclinic(3.0, 4.0, 5.0, 81, 97, 112), scale=True, symbols=['A', 'B']), 'p')
    return out


def _crystal_check(am, np, ucell, result, T, nrep, msgs, tol=1e-6):
    """every atom of `result` maps through T^-1 (rotation returned by rotate), modulo the lattice of ucell, onto an atom of ucell with the same type / tag; equal multiplicity; no coincident atoms"""
    V = ucell.box.vects
    o = ucell.box.origin
    if result.natoms != nrep * ucell.natoms:
        msgs.append('atom count %d, expected %d' % (result.natoms, nrep * ucell.natoms))
        return
    if not np.isclose(result.box.volume, nrep * ucell.box.volume, rtol=1e-8):
        msgs.append('volume %r, expected %r' % (result.box.volume, nrep * ucell.box.volume))
    if not (np.allclose(T.dot(T.T), np.eye(3), atol=1e-8) and np.isclose(np.linalg.det(T), 1.0, atol=1e-8)):
        msgs.append('returned transformation is not a proper rotation')
    if not result.box.is_lammps_norm():
        msgs.append('result cell is not LAMMPS-compatible')
    rel = result.atoms_prop('pos', scale=True)
    if np.any(rel < -1e-6) or np.any(rel > 1 + 1e-6):
        msgs.append('atoms outside the result cell')
    counts = np.zeros(ucell.natoms, dtype=int)
    back = (result.atoms.pos - result.box.origin).dot(T)       # rows: T^-1 x (T orthonormal, new = T old)
    su = ucell.atoms_prop('pos', scale=True)
    for k in range(result.natoms):
        sk = (back[k] - o).dot(np.linalg.inv(V))
        hit = None
        for i in range(ucell.natoms):
            d = sk - su[i]
            if np.allclose(d, np.round(d), atol=tol):
                hit = i
                break
        if hit is None:
            msgs.append('result atom %d is not on any original atom modulo the lattice' % k)
            return
        counts[hit] += 1
        if result.atoms.atype[k] != ucell.atoms.atype[hit] or ('tag' in ucell.atoms_prop() and result.atoms.tag[k] != ucell.atoms.tag[hit]):
            msgs.append('result atom %d has type/properties of another atom' % k)
            return
    if not np.all(counts == nrep):
        msgs.append('original atoms are not represented equally often: %r' % counts.tolist())
    P = result.atoms.pos
    for a_ in range(result.natoms):
        d = result.dmag(a_, P[a_ + 1:]) if a_ + 1 < result.natoms else np.array([1.0])
        if np.any(np.atleast_1d(d) < 1e-6):
            msgs.append('two result atoms coincide')
            return


@group('rotate.family', kind='bounded', files=[SYSF, NORMF, 'atomman/tools/miller.py'], functions=['System.rotate', 'lammps.normalize', 'System.supersize'],
       clause='re-expressing a cell along three integer lattice vectors returns the same infinite crystal: count and volume scale by |det|, every result atom maps through the returned rotation modulo the '
              'original lattice onto an original atom with the same type and properties, equally often, no coincident atoms; the cell is LAMMPS-compatible with all atoms inside; parallel or non-integer '
              'vectors are refused',
       rule='8 unit cells (all families, several types, extra property) each with origin 0 and a non-lattice origin x integer 3x3 vector sets with entries in [-1,1] (seeded selection of non-singular sets, '
            'right- and left-handed) plus fixed sets with |det| up to 4 and a hexagonal 3x4 set; distinct by (cell, origin, vectors); non-trivial = vectors not the identity')
def rotate_family(tier, seed):
    from pyvc.native import atomman
    import numpy as np
    am = atomman()
    rng = np.random.RandomState(5 + seed)
    allsets = [np.array(m).reshape(3, 3) for m in itertools.product((-1, 0, 1), repeat=9)]
    allsets = [m for m in allsets if abs(round(np.linalg.det(m))) >= 1]
    nsel = 6 if tier == 'quick' else 60
    fixed = [np.eye(3, dtype=int), np.array([[1, 1, 0], [-1, 1, 0], [0, 0, 1]]), np.array([[1, -1, 0], [1, 1, -2], [1, 1, 1]]), np.array([[2, 0, 0], [0, 1, 0], [0, 0, 2]]),
             np.array([[0, 1, 0], [1, 0, 0], [0, 0, 1]]), np.array([[1, 0, 0], [0, 1, 0], [1, 1, -1]])]
    fails, samples = [], []
    evals = nontriv = 0
    for cname, (ucell0, setting) in _ucells(am, np).items():
        for oname, origin in (('zero', np.zeros(3)), ('shifted', np.array([0.37, -1.21, 0.55]))):
            ucell = am.System(atoms=am.Atoms(prop={k: ucell0.atoms.view[k].copy() for k in ucell0.atoms_prop() if k != 'pos'}, pos=ucell0.atoms.pos + origin) if False else None) if False else None
            props = {k: ucell0.atoms.view[k].copy() for k in ucell0.atoms_prop()}
            props['pos'] = props['pos'] + origin
            ucell = am.System(atoms=am.Atoms(prop=props), box=am.Box(vects=ucell0.box.vects, origin=origin), symbols=ucell0.symbols)
            sel = [allsets[i] for i in rng.choice(len(allsets), nsel, replace=False)]
            for uvws in fixed + sel:
                evals += 1
                nontriv += not np.array_equal(uvws, np.eye(3))
                key = '%s,origin=%s,uvws=%s' % (cname, oname, uvws.tolist())
                msgs = []
                try:
                    res, T = ucell.rotate(uvws, return_transform=True)
                    _crystal_check(am, np, ucell, res, T, int(abs(round(np.linalg.det(uvws)))), msgs)
                    if len(samples) < 1 and abs(round(np.linalg.det(uvws))) > 1:
                        samples.append({'case': key, 'natoms': res.natoms})
                except Exception as e:
                    msgs.append('raised %s: %s' % (type(e).__name__, e))
                if msgs:
                    fails.append({'obligation': 'rotate.post', 'key': key, 'input': key, 'detail': '; '.join(msgs[:2])})
            for bad in (np.array([[1, 0, 0], [2, 0, 0], [0, 0, 1]]), np.array([[1, 0.5, 0], [0, 1, 0], [0, 0, 1]])):
                evals += 1
                try:
                    ucell.rotate(bad)
                    fails.append({'obligation': 'rotate.refusal', 'key': '%s,%s' % (cname, bad.tolist()), 'input': bad.tolist(), 'detail': 'parallel / non-integer vectors were accepted'})
                except ValueError:
                    pass
    # hexagonal 3x4 set
    hcp = _ucells(am, np)['hcp'][0]
    evals += 1
    try:
        res, T = hcp.rotate(np.array([[1, 1, -2, 0], [-1, 1, 0, 0], [0, 0, 0, 1]]), return_transform=True)
        m3 = am.tools.miller.vector4to3(np.array([[1, 1, -2, 0], [-1, 1, 0, 0], [0, 0, 0, 1]]))
        msgs = []
        _crystal_check(am, np, hcp, res, T, int(abs(round(np.linalg.det(m3)))), msgs)
        if msgs:
            fails.append({'obligation': 'rotate.post', 'key': 'hcp,3x4', 'input': 'hcp 3x4', 'detail': '; '.join(msgs[:2])})
    except Exception as e:
        fails.append({'obligation': 'rotate.post', 'key': 'hcp,3x4', 'input': 'hcp 3x4', 'detail': 'raised %s: %s' % (type(e).__name__, e)})
    files = {rel: hashlib.sha256(open(os.path.join(REPO, rel), 'rb').read()).hexdigest() for rel in (SYSF, NORMF)}
    return {'family': 'rotate vs lattice oracle', 'evaluations': evals, 'distinct_nontrivial': nontriv, 'rule': 'see group rule', 'samples': samples, 'failures': fails[:12], 'files': files}


@group('conversions.family', kind='bounded', files=['atomman/dump/conventional_to_primitive/dump.py', 'atomman/dump/primitive_to_conventional/dump.py', SYSF],
       functions=['dump.conventional_to_primitive', 'dump.primitive_to_conventional'],
       clause='conventional-to-primitive and primitive-to-conventional conversions are re-expressions of the same crystal (atom count scales by the lattice-point multiplicity, every atom maps back modulo the '
              'lattice onto an original atom of the same type) and undo one another',
       rule='centred cells {fcc f, bcc i, bct i, fco f, base-centred c / a / b, rhombohedral in the hexagonal setting t1 / t2 with a 2-type basis, 2-type fcc; with check_basis=False: zincblende in origin choice 2 and a body-centred pair off the lattice points} each with origin 0 and a non-lattice origin; distinct by (cell, origin); non-trivial = every case')
def conversions_family(tier, seed):
    from pyvc.native import atomman
    import numpy as np
    am = atomman()
    cells = {}
    fccpos = [[0, 0, 0], [0.5, 0.5, 0], [0.5, 0, 0.5], [0, 0.5, 0.5]]
    cells['fcc'] = (am.Box.cubic(4.05), fccpos, [1] * 4, 'f', 4)
    cells['fcc2'] = (am.Box.cubic(5.6), fccpos + [[0.5, 0.5, 0.5], [0, 0, 0.5], [0, 0.5, 0], [0.5, 0, 0]], [1] * 4 + [2] * 4, 'f', 4)
    cells['bcc'] = (am.Box.cubic(2.87), [[0, 0, 0], [0.5, 0.5, 0.5]], [1, 1], 'i', 2)
    cells['bct'] = (am.Box.tetragonal(3.0, 4.2), [[0, 0, 0], [0.5, 0.5, 0.5]], [1, 1], 'i', 2)
    cells['fco'] = (am.Box.orthorhombic(3.0, 4.0, 5.0), fccpos, [1] * 4, 'f', 4)
    cells['sco_c'] = (am.Box.orthorhombic(3.0, 4.0, 5.0), [[0, 0, 0], [0.5, 0.5, 0]], [1, 1], 'c', 2)
    cells['sco_a'] = (am.Box.orthorhombic(3.0, 4.0, 5.0), [[0, 0, 0], [0, 0.5, 0.5]], [1, 1], 'a', 2)
    cells['sco_b'] = (am.Box.orthorhombic(3.0, 4.0, 5.0), [[0, 0, 0], [0.5, 0, 0.5]], [1, 1], 'b', 2)
    # rhombohedral lattices in the hexagonal setting: obverse (t1) and reverse (t2) centring points, a 2-type basis
    cells['rhomb_t1'] = (am.Box.hexagonal(3.2, 7.8), [[0, 0, 0], [2 / 3, 1 / 3, 1 / 3], [1 / 3, 2 / 3, 2 / 3], [0, 0, 0.25], [2 / 3, 1 / 3, 1 / 3 + 0.25], [1 / 3, 2 / 3, 2 / 3 + 0.25]],
                         [1, 1, 1, 2, 2, 2], 't1', 3)
    cells['rhomb_t2'] = (am.Box.hexagonal(3.2, 7.8), [[0, 0, 0], [1 / 3, 2 / 3, 1 / 3], [2 / 3, 1 / 3, 2 / 3], [0, 0, 0.25], [1 / 3, 2 / 3, 1 / 3 + 0.25], [2 / 3, 1 / 3, 2 / 3 + 0.25]],
                         [1, 1, 1, 2, 2, 2], 't2', 3)
    # motifs with no atom on a lattice point (zincblende in origin choice 2; a body-centred pair off the lattice points): converted with check_basis=False, as documented for such cells
    e8 = np.array([0.125, 0.125, 0.125])
    cells['zb_origin2'] = (am.Box.cubic(5.65), [list((np.array(q) + e8) % 1) for q in fccpos] + [list((np.array(q) - e8) % 1) for q in fccpos], [1] * 4 + [2] * 4, 'f', 4, False)
    cells['bcc_offlattice'] = (am.Box.cubic(3.1), [[0.2, 0.1, 0.3], [0.7, 0.6, 0.8]], [1, 1], 'i', 2, False)
    fails, samples = [], []
    evals = 0
    for cname, spec_ in cells.items():
        (box, spos, atype, setting, mult), check_basis = spec_[:5], (spec_[5] if len(spec_) > 5 else True)
        for oname, origin in (('zero', np.zeros(3)), ('shifted', np.array([0.37, -1.21, 0.55]))):
            evals += 1
            key = '%s,origin=%s' % (cname, oname)
            msgs = []
            try:
                bx = am.Box(vects=box.vects, origin=origin)
                conv = am.System(atoms=am.Atoms(atype=atype, pos=np.array(spos).dot(box.vects) + origin), box=bx, symbols=['A', 'B'][:max(atype)])
                prim, T = conv.dump('conventional_to_primitive', setting=setting, return_transform=True, **({} if check_basis else {'check_basis': False}))
                if prim.natoms * mult != conv.natoms:
                    msgs.append('primitive cell has %d atoms, expected %d' % (prim.natoms, conv.natoms // mult))
                if not np.isclose(prim.box.volume * mult, conv.box.volume, rtol=1e-8):
                    msgs.append('primitive volume %r, expected %r' % (prim.box.volume, conv.box.volume / mult))
                # every primitive atom maps back (through T, modulo the conventional lattice and its centring translations i.e. onto SOME conventional atom modulo the conventional lattice)
                back = (prim.atoms.pos - prim.box.origin).dot(T)
                sc = conv.atoms_prop('pos', scale=True)
                Vc = conv.box.vects
                # absolute positions: every primitive atom, taken back through T and measured from the cell origins, is an original atom of the same type modulo the conventional lattice
                back_abs = prim.atoms.pos.dot(T) - conv.box.origin            # absolute positions are rotated by T (the primitive cell itself is placed at the coordinate origin)
                for k in range(prim.natoms):
                    sk = (back_abs[k]).dot(np.linalg.inv(Vc))
                    ok = False
                    for i in range(conv.natoms):
                        if conv.atoms.atype[i] != prim.atoms.atype[k]:
                            continue
                        d = sk - sc[i]
                        if np.allclose(d, np.round(d), atol=1e-6):
                            ok = True
                            break
                    if not ok:
                        msgs.append('primitive atom %d (type %d), taken back through the returned transformation, lies at relative %r of the conventional cell: not an atom of that type' % (
                            k, prim.atoms.atype[k], np.round(sk, 4).tolist()))
                        break
                for a_, b_ in itertools.combinations(range(prim.natoms), 2):
                    dv = (back[b_] - back[a_]).dot(np.linalg.inv(Vc))
                    found = False
                    for i, j in itertools.product(range(conv.natoms), repeat=2):
                        if conv.atoms.atype[i] == prim.atoms.atype[a_] and conv.atoms.atype[j] == prim.atoms.atype[b_]:
                            d = dv - (sc[j] - sc[i])
                            if np.allclose(d, np.round(d), atol=1e-6):
                                found = True
                                break
                    if not found:
                        msgs.append('primitive atoms %d,%d are not separated by a crystal vector of the conventional cell' % (a_, b_))
                        break
                conv2 = prim.dump('primitive_to_conventional', setting=setting)
                if conv2.natoms != conv.natoms or not np.isclose(conv2.box.volume, conv.box.volume, rtol=1e-8):
                    msgs.append('primitive_to_conventional does not undo the conversion: %d atoms, volume %r' % (conv2.natoms, conv2.box.volume))
                else:
                    for nm in ('a', 'b', 'c', 'alpha', 'beta', 'gamma'):
                        if not np.isclose(getattr(conv2.box, nm), getattr(conv.box, nm), rtol=1e-7):
                            msgs.append('round trip changes %s' % nm)
                    if sorted(conv2.atoms.atype.tolist()) != sorted(conv.atoms.atype.tolist()):
                        msgs.append('round trip changes the atom types')
                if len(samples) < 1:
                    samples.append({'case': key, 'primitive_natoms': prim.natoms})
            except Exception as e:
                msgs.append('raised %s: %s' % (type(e).__name__, e))
            if msgs:
                fails.append({'obligation': 'conversions.post', 'key': key, 'input': key, 'detail': '; '.join(msgs[:2])})
    files = {rel: hashlib.sha256(open(os.path.join(REPO, rel), 'rb').read()).hexdigest() for rel in ('atomman/dump/conventional_to_primitive/dump.py', 'atomman/dump/primitive_to_conventional/dump.py')}
    return {'family': 'conventional <-> primitive', 'evaluations': evals, 'distinct_nontrivial': evals, 'rule': 'see group rule', 'samples': samples, 'failures': fails[:12], 'files': files}


# ----------------------------------------------------------------------------
# rotate: the block that chooses the supercell range (extracted mechanically) covers the new cell

import ast as _ast
from pyvc.extract import extract_range as _extract_range
from pyvc.sym import realconst as _rc


def _assign_to(name):
    def sel(n):
        return isinstance(n, _ast.Assign) and len(n.targets) == 1 and isinstance(n.targets[0], _ast.Name) and n.targets[0].id == name
    return sel


class _ObjAlloc(object):
    """the facade, except that np.empty of an integer dtype allocates symbolic-capable storage (indices are mathematical integers; int64 wrap-around is not modelled)"""
    def __getattr__(self, k):
        return getattr(snp, k)

    def empty(self, shape, dtype=None, **kw):
        return snp.empty(shape, dtype=object)


@group('rotate.supercell_range', files=[SYSF], functions=['System.rotate (block: corner multipliers)'],
       clause='the block of rotate that chooses the supercell to cut the new cell from, for SYMBOLIC integer vectors: the eight corners are the subset sums of the three vectors, and every '
              'point s1 u1 + s2 u2 + s3 u3 of the new cell (0 <= s <= 1) has each crystal coordinate between the smallest and the largest corner coordinate, which the chosen ranges '
              'extend by one full cell on both sides: no atom of the new cell is outside the searched supercell', replay=_replay, timeout_ms=30000)
def rotate_range(E, L):
    block, info = _extract_range(L, SYSF, 'rotate', _assign_to('corners'), _assign_to('c_mults'))
    E.shape('rotate.range.block_found', info['last_line'] > info['first_line'])
    mod = L.load(SYSF)
    U = E.ints('u', (3, 3))
    s = E.reals('s', (3,))
    for k in range(3):
        E.assume(And(s[k] >= 0, s[k] <= 1))
    E.canary('rotate.range.canary', U[0, 0] == 0)
    real_np = mod.np
    mod.np = _ObjAlloc()
    try:
        out = block(dict(uvws=U))
    finally:
        mod.np = real_np
    corners = out['corners']
    subsets = [(), (0,), (1,), (2,), (0, 1), (0, 2), (1, 2), (0, 1, 2)]
    for k, sub in enumerate(subsets):
        for j in range(3):
            want = 0
            for i in sub:
                want = want + U[i, j]
            E.prove('rotate.range.corner[%d,%d]' % (k, j), corners[k, j] == want)
    for j, nm in enumerate(('a_mults', 'b_mults', 'c_mults')):
        lo, hi = out[nm]
        pj = s[0] * U[0, j] + s[1] * U[1, j] + s[2] * U[2, j]
        # convexity, coordinate by coordinate: s_i u_ij >= min(0, u_ij) and <= max(0, u_ij)
        lows = [snp.minimum(0, U[i, j]) for i in range(3)]
        highs = [snp.maximum(0, U[i, j]) for i in range(3)]
        for i in range(3):
            E.lemma('rotate.range.term_bounds[%s][%d]' % (nm, i), And(s[i] * U[i, j] >= lows[i], s[i] * U[i, j] <= highs[i]))
        E.prove('rotate.range.margin_below[%s]' % nm, lo + 1 <= pj)
        E.prove('rotate.range.margin_above[%s]' % nm, pj <= hi - 1)
        E.prove('rotate.range.is_corner_extreme_minus_plus_one[%s]' % nm, And(*[And(lo + 1 <= corners[k, j], corners[k, j] <= hi - 1) for k in range(8)]))
