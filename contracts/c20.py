"""C20 — Path integrators have their nominal order and relaxation finds the saddle.

Contracts on atomman/mep/integrator/euler.py, rungekutta.py, gradient/central_difference.py,
BasePath.py, ISMPath.py, mep/__init__.py (create_path).  Every proof harness runs the REAL source text.
"""
from fractions import Fraction
import itertools
import math

import numpy as _np

from pyvc.runner import group, REPO
from pyvc import symnp as snp, terms as tm
from pyvc.sym import Sym, realconst
from .common import And, Or, Not, Implies, Iff, to_float_array, sym_abs

LEVEL = 'other'
EXPLANATION = ("Integrator and gradient clauses are proved: the real euler/rungekutta/central_difference sources are executed on fully "
               "symbolic matrices A (n x n, n = 1..6), vectors y, step h, and on generic polynomials with symbolic coefficients; the "
               "postconditions (Taylor polynomial of exp(hA) of degree 1 / 4 applied to y; gradient exact on quadratics and error "
               "h^2 f'''/6 on cubics) are polynomial identities decided by the normaliser. The ISM rate functions and the option handling of "
               "BasePath/create_path are proved on symbolic / exhaustively enumerated inputs. The relaxation clause (ends reach minima, "
               "climbing image reaches the saddle) depends on scipy's CubicSpline and on convergence of an iteration: it is a BOUNDED "
               "run-time contract check over a stated family of two-minimum surfaces and is not counted as proved.")
ASSUMPTIONS = [
    "the rate function passed to the integrators is the linear map y -> A y (property text); other rate laws are outside the clause",
    "relaxation clause: bounded stand-in only (scipy.interpolate.CubicSpline is outside the verifier's reach)",
]
UNCOVERED = ["convergence of ISM relaxation for surfaces outside the enumerated family (bounded stand-in only)",
             "size of IEEE rounding errors"]

EULER = 'atomman/mep/integrator/euler.py'
RK = 'atomman/mep/integrator/rungekutta.py'
CDIFF = 'atomman/mep/gradient/central_difference.py'
BASE = 'atomman/mep/BasePath.py'
ISM = 'atomman/mep/ISMPath.py'
MEPINIT = 'atomman/mep/__init__.py'


# ----------------------------------------------------------------------------
# replay on the real installed package

def _taylor(A, y, h, order):
    import numpy as np
    term = y.copy()
    out = y.copy()
    for k in range(1, order + 1):
        term = h * A.dot(term) / k
        out = out + term
    return out


def _replay_integrators(stem, vals):
    from pyvc.native import atomman
    import numpy as np
    am = atomman()
    ns = sorted(set(int(k.split('_')[0][1:]) for k in vals if k.startswith('A') and '_' in k and k[1:].split('_')[0].isdigit()))
    msgs = []
    g = lambda k, d=0.0: float(vals.get(k, d))
    if not ns:
        ns = [1]
    for n in ns:
        A = np.array([[g('A%d_%d_%d' % (n, i, j)) for j in range(n)] for i in range(n)])
        y = np.array([g('y%d_%d' % (n, i)) for i in range(n)])
        h = g('h', 0.5)
        if not np.any(A) or not np.any(y):
            A = A + np.eye(n)
            y = y + 1.0
        f = lambda c, **kw: A.dot(c)
        e = am.mep.integrator.euler(f, y, h)
        r = am.mep.integrator.rungekutta(f, y, h)
        sc = 1 + abs(_taylor(A, y, h, 4)).max()
        if not np.allclose(e, _taylor(A, y, h, 1), rtol=1e-9, atol=1e-9 * sc):
            msgs.append('euler(y->Ay, y=%r, h=%r) = %r, Taylor degree 1 gives %r (A=%r)' % (y.tolist(), h, e.tolist(), _taylor(A, y, h, 1).tolist(), A.tolist()))
        if not np.allclose(r, _taylor(A, y, h, 4), rtol=1e-9, atol=1e-9 * sc):
            msgs.append('rungekutta(y->Ay, y=%r, h=%r) = %r, Taylor degree 4 gives %r (A=%r)' % (y.tolist(), h, r.tolist(), _taylor(A, y, h, 4).tolist(), A.tolist()))
    return (len(msgs) > 0, '; '.join(msgs) if msgs else 'counter-model does not violate the clause in floats: %r' % (vals,))


def _replay_cdiff(stem, vals):
    from pyvc.native import atomman
    import numpy as np
    am = atomman()
    msgs = []
    # quadratic in 3 variables with simple coefficients; exact up to rounding
    rng = np.random.RandomState(0)
    for n in (1, 2, 3):
        Q = rng.uniform(-1, 1, (n, n))
        b = rng.uniform(-1, 1, n)
        f = lambda x: np.einsum('...i,ij,...j->...', x, Q, x) + x.dot(b)
        for x in (rng.uniform(-1, 1, n), rng.uniform(-1, 1, (4, n))):
            got = am.mep.gradient.central_difference(f, x, shift=1e-3)
            want = x.dot(Q + Q.T) + b
            if not np.allclose(got, want, atol=1e-8):
                msgs.append('central_difference on a quadratic in %d variable(s) at %r: %r, analytic gradient %r' % (n, x.tolist(), got.tolist(), want.tolist()))
    return (len(msgs) > 0, '; '.join(msgs) if msgs else 'central_difference agrees with the analytic gradient of a quadratic in floats')


# ----------------------------------------------------------------------------
# integrators

def _lin_system(E, n):
    A = E.reals('A%d' % n, (n, n))
    y = E.reals('y%d' % n, (n,))
    return A, y


def _matvec(A, v):
    n = len(v)
    return [sum((A[i, j] * v[j] for j in range(1, n)), A[i, 0] * v[0]) for i in range(n)]


def _taylor_sym(A, y, h, order):
    """Horner form of sum_{k<=order} (hA)^k/k! y, written independently of the code"""
    n = len(y)
    acc = [y[i] for i in range(n)]
    for k in range(order, 0, -1):
        Av = _matvec(A, acc)
        acc = [y[i] + h * Av[i] / k for i in range(n)]
    return acc


def _integrator_group(n):
    @group('integrators.linear[n=%d]' % n, files=[EULER, RK], functions=['mep.integrator.euler', 'mep.integrator.rungekutta'],
           clause="one step on y' = A y equals the Taylor polynomial of exp(hA) applied to y: degree 1 (Euler), degree 4 (Runge-Kutta); n = %d" % n,
           replay=_replay_integrators)
    def h_(E, L):
        euler = L.load(EULER).euler
        rk = L.load(RK).rungekutta
        A, y = _lin_system(E, n)
        h = E.real('h')
        calls = []

        def rate(c, **kw):
            calls.append(kw)
            return A.dot(c)
        e = euler(rate, y, h)
        E.prove('euler.shape[n=%d]' % n, e.shape == (n,))
        E.prove_eq('euler.taylor1[n=%d]' % n, e, snp.array(_taylor_sym(A, y, h, 1)))
        r = rk(rate, y, h)
        E.prove('rungekutta.shape[n=%d]' % n, r.shape == (n,))
        E.prove_eq('rungekutta.taylor4[n=%d]' % n, r, snp.array(_taylor_sym(A, y, h, 4)))
        if n == 1:
            # scalar coordinate (not an array) and pass-through of extra keyword arguments to the rate function
            del calls[:]
            es = euler(lambda c, **kw: (calls.append(kw), A[0, 0] * c)[1], y[0], h, tau=7)
            E.prove('euler.scalar', es == y[0] + h * A[0, 0] * y[0])
            E.prove('euler.kwargs_forwarded', calls == [{'tau': 7}])
            del calls[:]
            rs = rk(lambda c, **kw: (calls.append(kw), A[0, 0] * c)[1], y[0], h, tau=7)
            E.prove('rungekutta.scalar', rs == _taylor_sym(A, y, h, 4)[0])
            E.prove('rungekutta.kwargs_forwarded', calls == [{'tau': 7}] * 4)
            # one-step error against the next Taylor term: the local error of RK4 on y'=ay is  -(ha)^5/120 y + O(h^6) ; here exact:
            E.prove('rungekutta.local_error_is_order5', rs - _taylor_sym(A, y, h, 5)[0] == -(h * A[0, 0]) ** 5 * y[0] / 120)
            E.prove('euler.local_error_is_order2', es - _taylor_sym(A, y, h, 2)[0] == -(h * A[0, 0]) ** 2 * y[0] / 2)
        E.canary('integrators.canary[n=%d]' % n, r[0] == e[0])
    return h_


for _n in range(1, 7):
    _integrator_group(_n)


@group('integrators.frame', files=[EULER, RK], functions=['mep.integrator.euler', 'mep.integrator.rungekutta'],
       clause='an integrator step returns a new array and leaves the given coordinates unchanged', replay=_replay_integrators)
def integrators_frame(E, L):
    euler = L.load(EULER).euler
    rk = L.load(RK).rungekutta
    A, y = _lin_system(E, 2)
    h = E.real('h')
    y0 = y.copy()
    for nm, f in (('euler', euler), ('rungekutta', rk)):
        r = f(lambda c: A.dot(c), y, h)
        E.prove('%s.returns_new_array' % nm, r is not y and not _np.shares_memory(_np.asarray(r), _np.asarray(y)))
        E.prove_eq('%s.input_unchanged' % nm, y, y0)
    E.canary('integrators.frame.canary', y[0] == y[1])


# ----------------------------------------------------------------------------
# central difference

def _monomials(nvar, maxdeg):
    out = []
    for deg in range(maxdeg + 1):
        for combo in itertools.combinations_with_replacement(range(nvar), deg):
            out.append(combo)
    return out


def _poly(E, name, nvar, maxdeg):
    """generic polynomial of total degree <= maxdeg with symbolic coefficients:
    returns (f, grad, d3) where f acts on (...,nvar) arrays, grad is the analytic gradient at a point (list),
    d3[i] is the third partial derivative along x_i (a function of the point)"""
    monos = _monomials(nvar, maxdeg)
    coef = {m: E.real('%s_c%s' % (name, ''.join(str(i) for i in m) or '0')) for m in monos}

    def f(x):
        x = snp.asarray(x)
        tot = None
        for m, c in coef.items():
            term = c
            for i in m:
                term = term * x[..., i]
            tot = term if tot is None else tot + term
        return tot

    def grad(pt):
        g = []
        for i in range(nvar):
            tot = realconst(0)
            for m, c in coef.items():
                k = m.count(i)
                if k == 0:
                    continue
                term = c * k
                rest = list(m)
                rest.remove(i)
                for j in rest:
                    term = term * pt[j]
                tot = tot + term
            g.append(tot)
        return g

    def d3(pt, i):
        tot = realconst(0)
        for m, c in coef.items():
            k = m.count(i)
            if k < 3:
                continue
            term = c * (k * (k - 1) * (k - 2))
            rest = list(m)
            for _ in range(3):
                rest.remove(i)
            for j in rest:
                term = term * pt[j]
            tot = tot + term
        return tot
    return f, grad, d3


def _cdiff_group(nvar):
    @group('central_difference[n=%d]' % nvar, files=[CDIFF], functions=['mep.gradient.central_difference'],
           clause='the numerical gradient is exact for every polynomial of degree <= 2 and differs from the analytic gradient of a generic cubic by exactly '
                  'h^2/6 * d^3f/dx_i^3 (second order in the step); n = %d variables; single point and arrays of points' % nvar,
           replay=_replay_cdiff)
    def h_(E, L):
        cd = L.load(CDIFF).central_difference
        x = E.reals('x', (nvar,))
        h = E.real('h')
        E.assume(h != 0)
        f2, g2, _ = _poly(E, 'q', nvar, 2)
        got = cd(f2, x, shift=h)
        E.prove('cdiff.shape[n=%d]' % nvar, got.shape == (nvar,))
        E.prove_eq('cdiff.exact_on_quadratics[n=%d]' % nvar, got, snp.array(g2(x)))
        f3, g3, d3 = _poly(E, 'k', nvar, 3)
        got3 = cd(f3, x, shift=h)
        want3 = [g3(x)[i] + h * h * d3(x, i) / 6 for i in range(nvar)]
        E.prove_eq('cdiff.cubic_error_is_h2_f3_over_6[n=%d]' % nvar, got3, snp.array(want3))
        # arrays of points: row-wise, same shape as coord
        xs = E.reals('xs', (2, nvar))
        gots = cd(f2, xs, shift=h)
        E.prove('cdiff.rows.shape[n=%d]' % nvar, gots.shape == (2, nvar))
        for k in range(2):
            E.prove_eq('cdiff.rows[n=%d][%d]' % (nvar, k), gots[k], snp.array(g2(xs[k])))
        # list input and frame
        xl = [x[i] for i in range(nvar)]
        gl = cd(f2, xl, shift=h)
        E.prove_eq('cdiff.list_input[n=%d]' % nvar, gl, got)
        E.canary('cdiff.canary[n=%d]' % nvar, got3[0] == g3(x)[0])
    return h_


for _n in (1, 2, 3):
    _cdiff_group(_n)


# ----------------------------------------------------------------------------
# ISM rate functions (the nested functions of ISMPath.step are reached through a recording integrator)

class _Captured(Exception):
    pass


@group('ISMPath.step.rates', files=[ISM, BASE], functions=['ISMPath.step (rate, climbrate)', 'BasePath.grad_energy'],
       clause='relaxation moves along -grad E; climbing images move along -grad E + 2 (grad E . tau) tau; the integrator receives the path coordinates and the time step',
       replay=None)
def ism_rates(E, L):
    ISMPath = L.load(ISM).ISMPath
    npts, dim = 4, 2
    coord = _np.array([[0.0, 0.0], [1.0, 0.5], [2.0, 0.25], [3.0, 0.0]])
    G = {}

    def gradfxn(fxn, c, **kw):
        c = snp.asarray(c)
        key = c.shape
        if key not in G:
            G[key] = E.reals('g%s' % 'x'.join(str(s) for s in key), key)
        return G[key]
    seen = []

    def integ(ratefxn, c, timestep, **kw):
        seen.append((ratefxn, c, timestep, kw))
        return _np.array(c, dtype=float)
    path = ISMPath(coord, lambda c: _np.zeros(len(c)), gradientfxn=gradfxn, gradientkwargs={}, integratorfxn=integ)
    dt = E.real('dt')
    try:
        path.step(timestep=0.01, climbindex=[2])
    except Exception:
        pass                       # whatever follows the two integrator calls (scipy CubicSpline) is not part of this obligation
    E.prove('step.integrator_called_for_relax_and_climb', len(seen) >= 2)
    rate, c0, ts0, kw0 = seen[0]
    E.prove('step.relax.coords_are_path_coords', _np.array_equal(_np.asarray(c0, dtype=float), coord))
    E.prove('step.relax.timestep', ts0 == 0.01 and kw0 == {})
    X = E.reals('X', (npts, dim))
    r = rate(X)
    E.prove_eq('step.rate_is_minus_gradient', r, -G[(npts, dim)])
    climbrate, c1, ts1, kw1 = seen[1]
    E.prove('step.climb.coords_are_the_climbing_images', _np.array_equal(_np.asarray(c1, dtype=float), coord[[2]]))
    E.prove('step.climb.timestep', ts1 == 0.01 and list(kw1) == ['τ'])
    tau = E.reals('tau', (1, dim))
    Xc = E.reals('Xc', (1, dim))
    rc = climbrate(Xc, τ=tau)
    g = G[(1, dim)]
    gd = g[0, 0] * tau[0, 0] + g[0, 1] * tau[0, 1]
    E.prove_eq('step.climbrate_reverses_the_tangent_component', rc, snp.array([[-g[0, 0] + 2 * gd * tau[0, 0], -g[0, 1] + 2 * gd * tau[0, 1]]]))
    # tangent handed to the climbing images is the unit tangent of the path at those images
    t_real = path.unittangent
    E.prove('step.climb.tangent_is_unittangent', _np.allclose(to_float_array(kw1['τ']), to_float_array(t_real)[[2]]))
    E.prove('step.unittangent_is_unit', _np.allclose(_np.linalg.norm(to_float_array(t_real), axis=1), 1.0))
    E.canary('ism_rates.canary', rc[0, 0] == -g[0, 0])


# ----------------------------------------------------------------------------
# control structure of ISMPath.relax over the contract of step (stubbed): both phases run, each stops only on its own convergence

def _replay_relax(stem, vals):
    from pyvc.native import atomman
    import numpy as np
    am = atomman()
    s0 = 0.3
    en = lambda p: (np.asarray(p)[..., 0] ** 4 - 4 * s0 / 3 * np.asarray(p)[..., 0] ** 3 - 2 * np.asarray(p)[..., 0] ** 2 + 4 * s0 * np.asarray(p)[..., 0]) + 2.0 * np.asarray(p)[..., 1] ** 2
    t = np.linspace(0, 1, 12)
    coord = np.array([-0.9, 0.1]) + np.outer(t, np.array([1.8, -0.2]))
    path = am.mep.create_path(coord, en, gradientkwargs={'shift': 1e-5})
    calls = []
    orig = type(path).step

    def spy(self, timestep=None, climbindex=None):
        calls.append(climbindex is not None)
        return orig(self, timestep=timestep, climbindex=climbindex)
    type(path).step = spy
    try:
        path.relax(relaxsteps=3000, climbsteps=5, verbose=False)
    finally:
        type(path).step = orig
    nclimb = sum(calls)
    nrelax = len(calls) - nclimb
    if nclimb == 0:
        return True, 'relax(relaxsteps=3000, climbsteps=5) on an asymmetric double well: %d relaxation steps (converged) but NO climbing step was taken' % nrelax
    return False, 'relax took %d relaxation and %d climbing steps' % (nrelax, nclimb)


@group('ISMPath.relax.control', files=[ISM], functions=['ISMPath.relax'],
       clause='relax performs relaxation steps until the displacement rate drops below the tolerance or the budget is used, then ALWAYS enters the climbing phase '
              '(at least one climbing step when climbsteps >= 1, on the interior energy maxima), which stops only on its own convergence; returns the last path',
       replay=_replay_relax)
def relax_control(E, L):
    ISMPath = L.load(ISM).ISMPath
    calls = []
    made = []
    en = lambda c: _np.array([0.0, 1.0, 0.5])

    class P(ISMPath):
        def step(self, timestep=None, climbindex=None):
            k = len(calls) + 1
            calls.append(('climb' if climbindex is not None else 'relax', timestep, None if climbindex is None else [int(i) for i in climbindex], self))
            new = P(E.reals('c%d' % k, (3, 1)), en, gradientfxn=lambda f, c, **kw: 0, integratorfxn=lambda r, c, t, **kw: c)
            made.append(new)
            return new
    p0 = P(E.reals('c0', (3, 1)), en, gradientfxn=lambda f, c, **kw: 0, integratorfxn=lambda r, c, t, **kw: c)
    tol = E.real('tol')
    E.assume(tol > 0)
    dt = 0.5
    E.side_enabled = False
    out = p0.relax(relaxsteps=2, climbsteps=2, timestep=dt, tolerance=tol, verbose=False)
    kinds = [c[0] for c in calls]
    nr = kinds.count('relax')
    nc = kinds.count('climb')
    E.prove('relax.phases_in_order', kinds == ['relax'] * nr + ['climb'] * nc)
    E.prove('relax.at_least_one_relax_step', nr >= 1)
    E.prove('relax.climbing_phase_always_entered', nc >= 1)
    E.prove('relax.timestep_forwarded', all(c[1] == dt for c in calls))
    E.prove('relax.climbs_on_interior_maximum', all(c[2] == [1] for c in calls if c[0] == 'climb'))
    E.prove('relax.returns_last_path', out is made[-1])
    chain = [p0] + made
    E.prove('relax.each_step_continues_from_the_previous_result', all(calls[i][3] is chain[i] for i in range(len(calls))))

    def rate(i):
        a, b = chain[i].coord, chain[i + 1].coord
        ds = [sym_abs(b[j, 0] - a[j, 0]) for j in range(3)]
        m = ds[0]
        for d in ds[1:]:
            m = Sym(tm.max_(m.t, d.t))
        return m / dt
    # a phase that used fewer steps than its budget stopped because ITS OWN last step converged; one that used the budget did not converge before
    if nr == 1:
        E.prove('relax.relaxation_stops_only_when_converged', rate(0) < tol)
    else:
        E.prove('relax.relaxation_continues_until_converged', Not(rate(0) < tol))
    if nc == 1:
        E.prove('relax.climbing_stops_only_when_converged', rate(nr) < tol)
    elif nc == 2:
        E.prove('relax.climbing_continues_until_converged', Not(rate(nr) < tol))
    E.canary('relax.control.canary', tol == 1)


# ----------------------------------------------------------------------------
# option handling (finite, exhaustive)

def _replay_options(stem, vals):
    from pyvc.native import atomman
    import numpy as np
    am = atomman()
    try:
        p = am.mep.create_path(np.zeros((3, 2)), lambda c: np.zeros(len(c)))
        ok = isinstance(p.gradientkwargs, dict)
        return (not ok, 'create_path with default options: gradientkwargs=%r' % (p.gradientkwargs,))
    except Exception as e:
        return True, 'create_path(coord, energyfxn) with the documented defaults raised %s: %s' % (type(e).__name__, e)


@group('BasePath.options', files=[BASE, MEPINIT, ISM], functions=['BasePath.__init__', 'BasePath.gradientfxn.setter', 'BasePath.integratorfxn.setter', 'mep.create_path'],
       clause='every documented option combination constructs a path with the named gradient/integrator functions and a dict of gradient settings; anything else is refused with TypeError/ValueError',
       replay=_replay_options)
def basepath_options(E, L):
    mep = L.resolve('atomman.mep')
    create_path = L.load(MEPINIT).create_path
    euler = L.load(EULER).euler
    rk = L.load(RK).rungekutta
    cd = L.load(CDIFF).central_difference
    myf = lambda *a, **k: 0
    coord = _np.zeros((3, 2))
    en = lambda c: _np.zeros(len(c))
    grads = [('cdiff', cd), ('central_difference', cd), (myf, myf)]
    integs = [('rk', rk), ('rungekutta', rk), ('euler', euler), (myf, myf)]
    kws = [(None, {}), ({}, {}), ({'shift': 0.5}, {'shift': 0.5})]
    styles = ['ISM', 'improved_string_method']
    n = 0
    for (gv, gw), (iv, iw), (kv, kw), st in itertools.product(grads, integs, kws, styles):
        tag = '%s,%s,%s,%s' % (gv if isinstance(gv, str) else 'callable', iv if isinstance(iv, str) else 'callable',
                               'None' if kv is None else ('empty' if kv == {} else 'shift'), st)
        try:
            p = create_path(coord, en, style=st, gradientfxn=gv, gradientkwargs=kv, integratorfxn=iv)
        except Exception as e:
            E.prove('create_path.accepts[%s]' % tag, False)
            E.note('create_path(%s) raised %s: %s' % (tag, type(e).__name__, e))
            continue
        n += 1
        E.prove('create_path.accepts[%s]' % tag,
                p.gradientfxn is gw and p.integratorfxn is iw and isinstance(p.gradientkwargs, dict) and p.gradientkwargs == kw
                and type(p).__name__ == 'ISMPath' and _np.array_equal(_np.asarray(p.coord, dtype=float), coord) and p.energyfxn is en)
    # defaults
    try:
        p = create_path(coord, en)
        E.prove('create_path.defaults', p.gradientfxn is cd and p.integratorfxn is rk and p.gradientkwargs == {})
    except Exception as e:
        E.prove('create_path.defaults', False)
        E.note('create_path with defaults raised %s: %s' % (type(e).__name__, e))
    # refusals
    bad = [('gradientfxn', 'nope', ValueError), ('gradientfxn', 3, TypeError), ('integratorfxn', 'nope', ValueError), ('integratorfxn', 3, TypeError),
           ('gradientkwargs', 3, TypeError), ('gradientkwargs', [], TypeError), ('style', 'nope', ValueError)]
    for k, v, exc in bad:
        try:
            create_path(coord, en, **{k: v})
            E.prove('create_path.refuses[%s=%r]' % (k, v), False)
        except exc:
            E.prove('create_path.refuses[%s=%r]' % (k, v), True)
        except Exception as e:
            E.prove('create_path.refuses[%s=%r]' % (k, v), False)
    try:
        create_path(coord, 3)
        E.prove('create_path.refuses[energyfxn not callable]', False)
    except TypeError:
        E.prove('create_path.refuses[energyfxn not callable]', True)
    # a path built from a path copies its coordinates; grad_energy hands the stored settings to the gradient function
    rec = []
    gf = lambda fxn, c, **kw: (rec.append((fxn, kw)), _np.zeros_like(_np.asarray(c, dtype=float)))[1]
    p = create_path(coord, en, gradientfxn=gf, gradientkwargs={'shift': 0.25})
    p.grad_energy()
    E.prove('grad_energy.passes_energyfxn_and_kwargs', rec == [(en, {'shift': 0.25})])
    x = E.real('x')
    E.canary('basepath_options.canary', x == 0)


# ----------------------------------------------------------------------------
# bounded stand-in: relaxation on a parametrised two-minimum family (scipy CubicSpline inside)

@group('ISMPath.relax.two_minimum_family', kind='bounded', files=[ISM, BASE], functions=['ISMPath.relax', 'ISMPath.step', 'ISMPath.interpolate_path'],
       clause='relaxing a string between two basins moves its ends into the minima and, with climbing, brings the highest image to the saddle (gradient zero, energy = barrier)',
       rule='family: E(x,y) = (x^2-1)^2 + k (y - c x^2 + c)^2 ... see group source; distinct = (k, c, images, bend, integrator); nontrivial = initial string does not already satisfy the postcondition')
def relax_family(tier, seed):
    from pyvc.native import atomman
    import numpy as np
    import hashlib
    import os
    am = atomman()
    ks = [2.0, 4.0]
    cs = [0.0, 0.3, -0.5]
    ss = [0.0, 0.3, -0.25]
    images = [11, 12] if tier == 'quick' else [9, 11, 12, 16, 21]
    bends = [0.0, 0.4] if tier == 'quick' else [0.0, 0.4, -0.6]
    integs = ['rk'] if tier == 'quick' else ['rk', 'euler']
    fails, samples = [], []
    evals = nontriv = 0
    for k, c, s0, n, bend, integ in itertools.product(ks, cs, ss, images, bends, integs):
        # surface: E = h(x) + k (y - c x^2 + c)^2 with h'(x) = 4 (x^2-1)(x-s0): minima at (-1,0) and (1,0), saddle at (s0, c s0^2 - c)
        hx = lambda x, s0=s0: x ** 4 - 4 * s0 / 3 * x ** 3 - 2 * x ** 2 + 4 * s0 * x

        def en(p, k=k, c=c, hx=hx):
            p = np.asarray(p)
            x, y = p[..., 0], p[..., 1]
            return hx(x) + k * (y - c * x ** 2 + c) ** 2

        def grad(p, k=k, c=c, s0=s0):
            p = np.asarray(p)
            x, y = p[..., 0], p[..., 1]
            w = y - c * x ** 2 + c
            return np.stack([4 * (x ** 2 - 1) * (x - s0) - 4 * k * c * x * w, 2 * k * w], axis=-1)
        saddle = np.array([s0, c * s0 ** 2 - c])
        barrier_e = hx(s0)
        t = np.linspace(0, 1, n)
        start = np.array([-0.8, 0.15])
        end = np.array([0.9, -0.1])
        coord = start + np.outer(t, end - start)
        coord[:, 1] += bend * np.sin(np.pi * t)
        evals += 1
        key = 'k=%g,c=%g,s=%g,images=%d,bend=%g,integrator=%s' % (k, c, s0, n, bend, integ)
        try:
            path = am.mep.create_path(coord, en, gradientkwargs={'shift': 1e-5}, integratorfxn=integ)
            e0 = path.energy()
            if abs(e0.max() - barrier_e) > 1e-3 or np.linalg.norm(path.coord[0] - [-1, 0]) > 1e-3:
                nontriv += 1
            path = path.relax(relaxsteps=4000, climbsteps=4000, verbose=False)
            cfin = path.coord
            efin = path.energy()
            imax = int(np.argmax(efin))
            msgs = []
            if np.linalg.norm(cfin[0] - [-1, 0]) > 2e-2:
                msgs.append('first end %r not at the minimum (-1,0)' % (cfin[0].tolist(),))
            if np.linalg.norm(cfin[-1] - [1, 0]) > 2e-2:
                msgs.append('last end %r not at the minimum (1,0)' % (cfin[-1].tolist(),))
            if np.linalg.norm(cfin[imax] - saddle) > 1e-2:
                msgs.append('highest image %r not at the saddle %r' % (cfin[imax].tolist(), saddle.tolist()))
            if abs(efin[imax] - barrier_e) > 5e-4:
                msgs.append('energy of the highest image %r differs from the saddle energy %r' % (efin[imax], barrier_e))
            if np.linalg.norm(grad(cfin[imax])) > 5e-2:
                msgs.append('gradient at the highest image %r does not vanish' % (grad(cfin[imax]).tolist(),))
            if len(samples) < 3:
                samples.append({'case': key, 'ends': [cfin[0].round(4).tolist(), cfin[-1].round(4).tolist()], 'highest_image': cfin[imax].round(4).tolist(),
                                'barrier': float(efin[imax])})
            if msgs:
                fails.append({'obligation': 'ISMPath.relax.post', 'key': key, 'input': key, 'detail': '; '.join(msgs)})
        except Exception as e:
            fails.append({'obligation': 'ISMPath.relax.post', 'key': key, 'input': key, 'detail': 'raised %s: %s' % (type(e).__name__, e)})
    files = {}
    for rel in (ISM, BASE):
        files[rel] = hashlib.sha256(open(os.path.join(REPO, rel), 'rb').read()).hexdigest()
    return {'family': "E=h(x)+k(y-c x^2+c)^2 with h'=4(x^2-1)(x-s): k in %r, c in %r, s in %r, images in %r, initial bend in %r, integrators %r; 4000+4000 steps" % (ks, cs, ss, images, bends, integs),
            'evaluations': evals, 'distinct_nontrivial': nontriv,
            'rule': 'exhaustive product of the stated parameter lists; distinct by parameter tuple; non-trivial when the initial string does not already satisfy the postcondition',
            'samples': samples, 'failures': fails, 'files': files}


# ----------------------------------------------------------------------------
# bounded: input forms of the integrators; settings carried from step to step

@group('integrators.input_forms', kind='bounded', files=[EULER, RK], functions=['mep.integrator.euler', 'mep.integrator.rungekutta'],
       clause='one Euler / Runge-Kutta step on y -> A y equals its Taylor polynomial (degree 1 / 4) whatever form the state is given in: float or integer-valued NumPy array, Python list of '
              'floats or ints, an (m, n) batch of states; the caller\'s state is left unchanged',
       rule='n = 1..4, 3 seeded matrices each, step sizes 0.5, -0.25, 1.7, 1e-3; forms: float array, int64 array, list of ints, list of floats, (3, n) int batch; oracle: explicit matrix powers; '
            'distinct by (n, matrix, step, form); non-trivial = integer-typed forms')
def integrator_input_forms(tier, seed):
    from pyvc.native import atomman
    import numpy as np
    import hashlib
    import os
    am = atomman()
    rng = np.random.RandomState(31 + seed)
    fails, samples = [], []
    evals = nontriv = 0
    for n in (1, 2, 3, 4):
        for rep in range(3):
            A = rng.uniform(-1, 1, (n, n)).round(3)
            yi = rng.randint(-4, 5, n)
            if not yi.any():
                yi[0] = 3
            for h in (0.5, -0.25, 1.7, 1e-3):
                rate_vec = lambda c, **kw: np.asarray(c, dtype=float).dot(A.T)
                forms = {'float array': yi.astype(float), 'int64 array': yi.astype('int64'), 'list of ints': [int(v) for v in yi], 'list of floats': [float(v) for v in yi],
                         'int batch': np.array([yi, 2 * yi, -yi], dtype='int64')}
                for fname, y in forms.items():
                    keep = np.array(y, copy=True)
                    yf = np.asarray(y, dtype=float)
                    for iname, fn, deg in (('euler', am.mep.integrator.euler, 1), ('rungekutta', am.mep.integrator.rungekutta, 4)):
                        evals += 1
                        nontriv += 'int' in fname
                        want = np.zeros_like(yf)
                        term = yf.copy()
                        fact = 1.0
                        for d in range(deg + 1):
                            want = want + term / fact
                            term = h * term.dot(A.T)
                            fact *= (d + 1)
                        try:
                            got = np.asarray(fn(rate_vec, y, h), dtype=float)
                            ok = got.shape == want.shape and np.allclose(got, want, rtol=1e-10, atol=1e-12 * (1 + np.abs(want).max()))
                            detail = '%s step on %s %r with h=%r gives %r, Taylor degree %d gives %r (A=%r)' % (iname, fname, np.asarray(y).tolist(), h, got.tolist(), deg, want.tolist(), A.tolist())
                        except Exception as e:
                            ok, detail = False, '%s step on %s %r raised %s: %s' % (iname, fname, np.asarray(y).tolist(), type(e).__name__, e)
                        if ok and not np.array_equal(np.asarray(y), keep):
                            ok, detail = False, '%s step changed the state it was given (%s)' % (iname, fname)
                        if not ok:
                            fails.append({'obligation': 'integrators.input_forms.post', 'key': '%s,%s,n=%d,h=%r,rep=%d' % (iname, fname, n, h, rep), 'input': {'A': A.tolist(), 'y': np.asarray(y).tolist(), 'h': h},
                                          'detail': detail})
            if len(samples) < 2:
                samples.append({'A': A.tolist(), 'y': yi.tolist()})
    files = {rel: hashlib.sha256(open(os.path.join(REPO, rel), 'rb').read()).hexdigest() for rel in (EULER, RK)}
    return {'family': 'linear rate laws, n = 1..4, five input forms, four step sizes', 'evaluations': evals, 'distinct_nontrivial': nontriv, 'rule': 'see group rule', 'samples': samples,
            'failures': fails[:15], 'files': files}


@group('ISMPath.settings_carried', kind='bounded', files=[ISM, BASE], functions=['ISMPath.step', 'ISMPath.interpolate_path', 'ISMPath.relax'],
       clause='the path returned by a step is relaxed with the SAME energy function, gradient function and gradient options as the path it came from: over several steps every gradient '
              'evaluation receives the configured options',
       rule='2 surfaces x gradient options {default, shift=1e-3, shift=1e-7} x {step x3, relax 3+3 with climbing}; the gradient function is a recording wrapper around central_difference; '
            'distinct by (surface, options, driver); non-trivial = non-default options')
def settings_carried(tier, seed):
    from pyvc.native import atomman
    import numpy as np
    import hashlib
    import os
    am = atomman()
    fails, samples = [], []
    evals = nontriv = 0
    surfaces = {'double well': lambda p: (np.asarray(p)[..., 0] ** 2 - 1) ** 2 + 2.0 * np.asarray(p)[..., 1] ** 2,
                'bent': lambda p: (np.asarray(p)[..., 0] ** 2 - 1) ** 2 + 3.0 * (np.asarray(p)[..., 1] - 0.3 * np.asarray(p)[..., 0] ** 2 + 0.3) ** 2}
    for sname, en in surfaces.items():
        for opts in ({}, {'shift': 1e-3}, {'shift': 1e-7}):
            for driver in ('steps', 'relax'):
                evals += 1
                nontriv += bool(opts)
                seen = []

                def grad(fxn, coord, **kw):
                    seen.append(dict(kw))
                    return am.mep.gradient.central_difference(fxn, coord, **kw)
                x = np.linspace(-0.9, 0.9, 9)
                coord = np.stack([x, 0.2 * (1 - x ** 2)], axis=1)
                msgs = []
                try:
                    path = am.mep.ISMPath(coord, en, gradientfxn=grad, gradientkwargs=dict(opts))
                    if driver == 'steps':
                        p = path
                        for k in range(3):
                            p = p.step(timestep=0.01)
                            if p.gradientkwargs != opts:
                                msgs.append('after %d step(s) the path holds gradient options %r, configured %r' % (k + 1, p.gradientkwargs, opts))
                            if p.gradientfxn is not grad:
                                msgs.append('after %d step(s) the path holds another gradient function' % (k + 1))
                    else:
                        p = path.relax(relaxsteps=3, climbsteps=3, timestep=0.01)
                        if p.gradientkwargs != opts:
                            msgs.append('the relaxed path holds gradient options %r, configured %r' % (p.gradientkwargs, opts))
                    bad = [kw for kw in seen if kw != opts]
                    if bad:
                        msgs.append('%d of %d gradient evaluations received options %r instead of the configured %r' % (len(bad), len(seen), bad[0], opts))
                    if not seen:
                        msgs.append('the configured gradient function was never called')
                except Exception as e:
                    msgs.append('raised %s: %s' % (type(e).__name__, e))
                if msgs:
                    fails.append({'obligation': 'settings_carried.post', 'key': '%s,%r,%s' % (sname, opts, driver), 'input': {'surface': sname, 'gradientkwargs': opts, 'driver': driver}, 'detail': '; '.join(msgs[:2])})
        samples.append({'surface': sname})
    files = {rel: hashlib.sha256(open(os.path.join(REPO, rel), 'rb').read()).hexdigest() for rel in (ISM, BASE)}
    return {'family': '2 surfaces x 3 gradient option sets x 2 drivers', 'evaluations': evals, 'distinct_nontrivial': nontriv, 'rule': 'see group rule', 'samples': samples, 'failures': fails[:10], 'files': files}
