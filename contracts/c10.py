"""C10 — JSON/XML data-model round trip preserves values, shapes, units, system content."""
import hashlib
import itertools
import os

import numpy as _np

from pyvc.runner import group, REPO
from pyvc import symnp as snp, terms as tm
from pyvc.sym import Sym, realconst
from .common import And, Or, Not, Implies, Iff
from .c09 import load_uc
from .c11 import spy_class

LEVEL = 'other'
EXPLANATION = ("The in-memory data-model clauses are proved with SYMBOLIC values and SYMBOLIC working units (numericalunits' own source over symbolic base units, two independent "
               "configurations for write and read): uc.model/value_unit/error_unit reproduce values and shapes for ranks 0-3, the stored number is the value in the named unit and "
               "the physical value read back is independent of the working units at write vs read time; Box.model, Atoms.model and System.model/System(model=...) reproduce cell, "
               "origin, every per-atom property (also box-scaled positions in a tilted cell with non-zero origin), pbc, symbols and masses; ElasticConstants.model reproduces Cij. "
               "The JSON and XML text encodings go through json/xmltodict, which cannot carry symbolic payloads: text round trips, string-valued properties and sequences of "
               "working-unit changes are a labelled bounded contract check.")
ASSUMPTIONS = ["DataModelDict is executed natively on symbolic payloads (it is a dict subclass)", "text encodings (json/xmltodict): bounded stand-in only"]
UNCOVERED = ["text encodings outside the bounded family"]

UCF = 'atomman/unitconvert.py'
BOXF = 'atomman/core/Box.py'
ATF = 'atomman/core/Atoms.py'
SYSF = 'atomman/core/System.py'
ECF = 'atomman/core/ElasticConstants.py'


def same(a, b):
    a, b = _np.asarray(a, dtype=object), _np.asarray(b, dtype=object)
    return a.shape == b.shape


def _replay(stem, vals):
    from pyvc.native import atomman
    import numpy as np
    am = atomman()
    uc = am.unitconvert
    msgs = []
    try:
        uc.reset_units(length='angstrom', mass='amu', energy='eV', charge='e')
        box = am.Box(vects=[[4.0, 0, 0], [1.2, 5.0, 0], [-0.7, 0.9, 6.0]], origin=[0.5, -2.0, 3.0])
        s = np.array([[0.1, 0.2, 0.3], [0.6, 0.4, 0.7]])
        system = am.System(atoms=am.Atoms(atype=[1, 2], pos=s.dot(box.vects) + box.origin, charge=[0.5, -0.5]), box=box, pbc=(True, False, True), symbols=['Al', 'Cu'], masses=[26.98, 63.55])
        for pu in ({'atype': None, 'pos': 'scaled', 'charge': 'e'}, {'atype': None, 'pos': 'nm', 'charge': None}):
            m = system.model(box_unit='nm', prop_unit=dict(pu))
            if pu['pos'] == 'scaled':
                stored = np.array(m.find('atoms')['property'][1]['data']['value']).reshape(2, 3)
                if not np.allclose(stored, s, atol=1e-9):
                    msgs.append('box-scaled positions stored as %r, relative coordinates are %r' % (stored.tolist(), s.tolist()))
            for text in (m.json(), m.xml()):
                back = am.System(model=text)
                if not (np.allclose(back.atoms.pos, system.atoms.pos, atol=1e-8) and np.allclose(back.box.vects, box.vects, atol=1e-8) and np.allclose(back.box.origin, box.origin, atol=1e-8)):
                    msgs.append('System model round trip (pos unit %r) changes positions/cell (max %g)' % (pu['pos'], np.abs(back.atoms.pos - system.atoms.pos).max()))
        at = np.arange(6.0).reshape(2, 3).T                     # (3, 2) view that is not stored row-major
        bt = uc.value_unit(uc.model(at, 'angstrom'))
        if bt.shape != at.shape or not np.allclose(bt, at):
            msgs.append('a transposed (3,2) array %r reads back as %r' % (at.tolist(), np.asarray(bt).tolist()))
        for masses in ([None, 63.55, 58.69], [26.98, None, 58.69]):
            sm = am.System(atoms=am.Atoms(atype=[1, 3], pos=[[0., 0, 0], [1., 1, 1]]), box=am.Box.cubic(3.0), symbols=['Al', 'Cu', 'Ni'], masses=masses)
            bm = am.System(model=sm.model().json())
            if [None if x is None else float(x) for x in bm.masses] != masses:
                msgs.append('masses %r read back as %r' % (masses, list(bm.masses)))
        m = uc.model(np.array([[1.0, 2.0], [3.0, 4.0]]) * uc.unit['GPa'], 'GPa')
        uc.reset_units('SI') if False else uc.reset_units(length='m', mass='kg', time='s', charge='C')
        v = uc.value_unit(m)
        if not np.allclose(uc.get_in_units(v, 'GPa'), [[1.0, 2.0], [3.0, 4.0]], rtol=1e-9):
            msgs.append('value written under angstrom/eV units and read under SI reads %r GPa' % uc.get_in_units(v, 'GPa').tolist())
    except Exception as e:
        msgs.append('raised %s: %s' % (type(e).__name__, e))
    finally:
        uc.reset_units(length='angstrom', mass='amu', energy='eV', charge='e')
    return (len(msgs) > 0, '; '.join(msgs[:3]) if msgs else 'float replay of the data-model round trips found no disagreement')


SHAPES = [(), (3,), (2, 3), (2, 2, 3)]


@group('uc.model', files=[UCF], functions=['unitconvert.model', 'unitconvert.value_unit', 'unitconvert.error_unit'],
       clause='serialising a value with units and reading it back reproduces the value and its shape (ranks 0-3), records the unit, carries the error array, and the physical value read '
              'back does not depend on the working units active when the model was written versus read', replay=_replay, timeout_ms=20000)
def uc_model(E, L):
    uc, nu = load_uc(E, L)
    E.side_enabled = False
    for shp in SHAPES:
        tag = 'x'.join(str(s) for s in shp) or 'scalar'
        v = E.reals('v%s' % tag, shp) if shp else E.real('vscalar')
        err = E.reals('e%s' % tag, shp) if shp else E.real('escalar')
        for u in ('GPa', 'eV/angstrom^3', None):
            m = uc.model(v, u, error=err) if u is not None else uc.model(snp.asarray(v), u)
            E.prove('model.unit_recorded[%s][%s]' % (tag, u), m.get('unit', None) == u)
            E.prove('model.shape_recorded[%s][%s]' % (tag, u), ('shape' in m) == (len(shp) > 1) and (list(m['shape']) == list(shp) if len(shp) > 1 else True))
            back = uc.value_unit(m)
            E.prove('value_unit.shape[%s][%s]' % (tag, u), _np.shape(back) == shp)
            E.prove_eq('value_unit(model(v)).identity[%s][%s]' % (tag, u), back, v)
            if u is not None:
                stored = snp.asarray(m['value']).reshape(shp) if shp else snp.asarray(m['value'])
                E.prove_eq('model.stored_number_is_value_in_unit[%s][%s]' % (tag, u), stored * uc.parse(u), snp.asarray(v))
                E.prove_eq('error_unit(model(v,err)).identity[%s][%s]' % (tag, u), uc.error_unit(m), err)
    # arrays that are not stored row-major (transposed views, Fortran order, swapped axes): the round trip is by ELEMENT INDEX, whatever the memory layout
    for nm, mk in (('transposed', lambda a: a.T), ('fortran', lambda a: _np.asfortranarray(a).view(type(a))), ('swapaxes', lambda a: a.swapaxes(0, 1))):
        for shp in ((3, 2), (2, 3, 2)):
            base = E.reals('nc_%s_%s' % (nm, 'x'.join(map(str, shp))), shp)
            v = mk(base)
            m = uc.model(v, 'GPa', error=v)
            back = uc.value_unit(m)
            E.prove('value_unit.shape[non_contiguous,%s,%s]' % (nm, shp), _np.shape(back) == _np.shape(v) and list(m['shape']) == list(_np.shape(v)))
            E.prove_eq('value_unit(model(v)).identity[non_contiguous,%s,%s]' % (nm, shp), back, _np.array(v.tolist(), dtype=object))
            E.prove_eq('error_unit(model(v,err)).identity[non_contiguous,%s,%s]' % (nm, shp), uc.error_unit(m), _np.array(v.tolist(), dtype=object))
    # write under one working-unit configuration, read under another (fresh symbolic base units)
    v = E.reals('w', (2, 3))
    m = uc.model(v, 'GPa')
    U1 = uc.parse('GPa')
    uc.reset_units(seed=11)
    U2 = uc.parse('GPa')
    back = uc.value_unit(m)
    E.prove('working_units_changed', U1.t is not U2.t)
    for idx in _np.ndindex(2, 3):
        E.prove('unit_independence%s' % (list(idx),), back[idx] * U1 == v[idx] * U2)          # back/U2 == v/U1 : the same physical number of GPa
    E.canary('uc.model.canary', back[0, 0] == v[0, 0])


@group('system.model', files=[SYSF, BOXF, ATF, UCF], functions=['System.model', 'System.__init__', 'Box.model', 'Atoms.model', 'Atoms.__init__'],
       clause='serialising a System to the data model and reading it back reproduces the cell and origin, every per-atom property with its shape (for any storage unit incl. box-scaled positions '
              'and None), periodic flags, symbols and masses', replay=_replay, timeout_ms=30000)
def system_model(E, L):
    uc, nu = load_uc(E, L)
    core = L.resolve('atomman.core')
    System, Atoms, Box = core.System, core.Atoms, core.Box
    E.side_enabled = False
    V = [[4.0, 0, 0], [1.2, 5.0, 0], [-0.7, 0.9, 6.0]]
    o = [0.5, -2.0, 3.0]
    n = 2
    pos = E.reals('pos', (n, 3))
    q = E.reals('q', (n,))
    st = E.reals('st', (n, 2, 2))
    for pu in ({'atype': None, 'pos': 'scaled', 'charge': 'e', 'stress': 'GPa'}, {'atype': None, 'pos': 'nm', 'charge': None, 'stress': 'eV/angstrom^3'}):
        tag = 'pos=%s' % pu['pos']
        box = Box(vects=V, origin=o)
        system = System(atoms=Atoms(atype=[1, 2], pos=pos.copy(), charge=q.copy(), stress=st.copy()), box=box, pbc=(True, False, True), symbols=['Al', 'Cu'], masses=[26.98, 63.55])
        m = system.model(box_unit='nm', prop_unit=dict(pu))
        amodel = m['atomic-system']['atoms']
        names = [p['name'] for p in amodel.aslist('property')]
        E.prove('model.properties_listed[%s]' % tag, names == ['atype', 'pos', 'charge', 'stress'] and amodel['natoms'] == n)
        if pu['pos'] == 'scaled':
            # stored numbers are the relative coordinates: stored . vects + origin = pos
            stored = snp.asarray([d for d in amodel.aslist('property') if d['name'] == 'pos'][0]['data']['value']).reshape(n, 3)
            for k in range(n):
                for j in range(3):
                    E.prove('model.scaled_positions_are_relative[%d,%d]' % (k, j), stored[k, 0] * realconst(V[0][j]) + stored[k, 1] * realconst(V[1][j]) + stored[k, 2] * realconst(V[2][j]) + realconst(o[j]) == pos[k, j])
        back = System(model=m)
        E.prove('roundtrip.natoms[%s]' % tag, back.natoms == n)
        E.prove_eq('roundtrip.pos[%s]' % tag, back.atoms.view['pos'], pos)
        E.prove_eq('roundtrip.charge[%s]' % tag, back.atoms.view['charge'], q)
        E.prove_eq('roundtrip.stress[%s]' % tag, back.atoms.view['stress'], st)
        E.prove('roundtrip.atype[%s]' % tag, [int(x) for x in back.atoms.view['atype']] == [1, 2])
        E.prove('roundtrip.pbc_symbols_masses[%s]' % tag, [bool(x) for x in back.pbc] == [True, False, True] and tuple(back.symbols) == ('Al', 'Cu') and tuple(float(x) for x in back.masses) == (26.98, 63.55))
        bv, bo = back.box._Box__vects, back.box._Box__origin
        for i in range(3):
            for j in range(3):
                E.prove('roundtrip.cell[%s][%d,%d]' % (tag, i, j), bv[i, j] == realconst(V[i][j]))
            E.prove('roundtrip.origin[%s][%d]' % (tag, i), bo[i] == realconst(o[i]))
    # symbols and masses are positional per atom type, also when only some are set
    for syms, masses in ((['Al', 'Cu', 'Ni'], [None, 63.55, 58.69]), (['Al', 'Cu', 'Ni'], [26.98, None, 58.69]), ([None, 'Cu', None], [None, 63.55, None]), (['Al', None, 'Ni'], [26.98, 63.55, None]),
                         (['Al', 'Cu', 'Ni'], [None, None, None])):
        box = Box(vects=V, origin=o)
        system = System(atoms=Atoms(atype=[1, 3], pos=pos.copy()), box=box, symbols=syms, masses=masses)
        back = System(model=system.model())
        tagm = 'symbols=%r,masses=%r' % (syms, masses)
        E.prove('roundtrip.partial_symbols[%s]' % tagm, list(back.symbols) == syms)
        E.prove('roundtrip.partial_masses[%s]' % tagm, [None if x is None else float(x) for x in back.masses] == masses)
    E.canary('system.model.canary', pos[0, 0] == 0)


@group('elastic.model', files=[ECF, UCF], functions=['ElasticConstants.model'],
       clause='serialising elastic constants to the data model and reading them back reproduces Cij in any unit', replay=_replay, timeout_ms=20000)
def elastic_model(E, L):
    uc, nu = load_uc(E, L)
    mod = L.load(ECF)
    EC = mod.ElasticConstants
    E.side_enabled = False
    C = snp.zeros((6, 6))
    for i in range(6):
        for j in range(i, 6):
            v = E.real('c%d%d' % (i + 1, j + 1))
            C[i, j] = v
            C[j, i] = v
    ec = EC()
    ec._ElasticConstants__c_ij = C
    got = {}

    class Cap(EC):
        Cij = property(EC.Cij.fget, lambda self, v: got.__setitem__('Cij', snp.asarray(v)))
    mod.ElasticConstants = spy_class(EC)        # normalized_as builds a new object: the Cij setter's own contract (near-zero clean-up) is C11's group Cij.setter
    try:
        m = ec.model(unit='GPa')
    finally:
        mod.ElasticConstants = EC
    stored = snp.asarray(m['elastic-constants']['Cij']['value']).reshape(6, 6)
    E.prove_eq('elastic.model.stored_in_unit', stored * uc.parse('GPa'), C)
    Cap(model=m)
    E.prove_eq('elastic.model.roundtrip', got['Cij'], C)
    E.canary('elastic.model.canary', C[0, 0] == 0)


# ----------------------------------------------------------------------------
# bounded: JSON / XML text, working-unit changes between write and read, string properties

@group('text_roundtrip', kind='bounded', files=[UCF, SYSF, BOXF, ATF, ECF, 'atomman/dump/system_model/dump.py', 'atomman/load/system_model/load.py'],
       functions=['unitconvert.model', 'System.model', 'dump.system_model', 'load.system_model', 'ElasticConstants.model'],
       clause='the round trip through the JSON and XML text encodings reproduces values, shapes, cell, origin, pbc, symbols, masses and per-atom properties (int/float/string, rank 1-3) for any '
              'storage units, also when the working units are changed between writing and reading',
       rule='systems {orthogonal, tilted + origin} x property-unit choices {None, named, scaled} x {json, xml} x working-unit sequences {same, reset between write and read, reset twice with reuse of the same '
            'unit strings}; values of shapes (), (3,), (2,3), (2,2,3); ElasticConstants; distinct by tuple; non-trivial = units change or scaled storage')
def text_roundtrip(tier, seed):
    from pyvc.native import atomman
    import numpy as np
    am = atomman()
    uc = am.unitconvert
    default = dict(length='angstrom', mass='amu', energy='eV', charge='e')
    configs = [default, dict(length='m', mass='kg', time='s', charge='C'), dict(length='nm', time='ps', energy='eV', charge='e')]
    fails, samples = [], []
    evals = nontriv = 0
    rng = np.random.RandomState(seed + 2)
    try:
        # values with units: write under config a, read under config b; compare the number in the named unit
        for (ai, a), (bi, b), fmt, shp in itertools.product(enumerate(configs), enumerate(configs), ['json', 'xml'], [(3,), (2, 3), (2, 2, 3), ()]):
            evals += 1
            nontriv += ai != bi
            key = 'value shape=%r,%s,write under cfg%d,read under cfg%d' % (shp, fmt, ai, bi)
            try:
                uc.reset_units(**a)
                num = rng.uniform(-5, 5, shp) if shp else 3.25
                from DataModelDict import DataModelDict as DM
                m = DM()
                m['quantity'] = uc.model(uc.set_in_units(num, 'GPa'), 'GPa')
                text = m.json() if fmt == 'json' else m.xml()
                uc.reset_units(**b)
                back = uc.get_in_units(uc.value_unit(DM(text)['quantity']), 'GPa')
                if np.shape(back) != shp or not np.allclose(back, num, rtol=1e-9):
                    fails.append({'obligation': 'text.value_roundtrip', 'key': key, 'input': key, 'detail': 'read back %r GPa, written %r GPa' % (np.asarray(back).tolist(), np.asarray(num).tolist())})
            except Exception as e:
                fails.append({'obligation': 'text.value_roundtrip', 'key': key if not (fmt == 'xml' and shp == ()) else 'xml scalar', 'input': key, 'detail': 'raised %s: %s' % (type(e).__name__, e)})
        # systems
        cells = {'ortho': (np.diag([4.0, 5.0, 6.0]), np.zeros(3)), 'tilted': (np.array([[4.0, 0, 0], [1.2, 5.0, 0], [-0.7, 0.9, 6.0]]), np.array([0.5, -2.0, 3.0]))}
        punits = [{'atype': None, 'pos': 'angstrom', 'charge': None, 'stress': 'GPa', 'name': None}, {'atype': None, 'pos': 'scaled', 'charge': 'e', 'stress': 'eV/angstrom^3', 'name': None},
                  {'atype': None, 'pos': 'nm', 'charge': None, 'stress': None, 'name': None}]
        for (cname, (V, o)), pu, fmt, (ai, a), (bi, b) in itertools.product(cells.items(), punits, ['json', 'xml'], enumerate(configs), enumerate(configs)):
            if tier == 'quick' and (ai + bi + len(cname)) % 2:
                continue
            evals += 1
            nontriv += (ai != bi or pu['pos'] == 'scaled')
            key = 'system %s,pos=%s,%s,write cfg%d,read cfg%d' % (cname, pu['pos'], fmt, ai, bi)
            try:
                uc.reset_units(**a)
                s = rng.uniform(0, 1, (3, 3))
                A = uc.unit['angstrom']
                Vw, ow = V * A, o * A
                system = am.System(atoms=am.Atoms(atype=[1, 2, 1], pos=s.dot(Vw) + ow, charge=np.array([0.5, -0.25, 0.1]) * uc.unit['e'], stress=rng.uniform(-1, 1, (3, 3, 3)) * uc.unit['GPa'],
                                                  name=np.array(['a', 'bb', 'c'])), box=am.Box(vects=Vw, origin=ow), pbc=(True, False, True), symbols=['Al', None], masses=[26.98 * uc.unit['amu'], None] if False else None)
                stress_gpa = system.atoms.stress / uc.unit['GPa']
                text = system.dump('system_model', box_unit='nm', prop_unit=dict(pu), format=fmt) if True else None
                uc.reset_units(**b)
                back = am.load('system_model', text)
                A2 = uc.unit['angstrom']
                msgs = []
                if back.natoms != 3 or not np.allclose(back.box.vects / A2, V, atol=1e-8) or not np.allclose(back.box.origin / A2, o, atol=1e-8):
                    msgs.append('cell/origin differ')
                if not np.allclose(back.atoms.pos / A2, s.dot(V) + o, atol=1e-7):
                    msgs.append('positions differ (max %g angstrom)' % np.abs(back.atoms.pos / A2 - (s.dot(V) + o)).max())
                if pu['stress'] is not None and not np.allclose(back.atoms.stress / uc.unit['GPa'], stress_gpa, rtol=1e-8, atol=1e-10):
                    msgs.append('stress differs')
                if pu['charge'] is not None and not np.allclose(back.atoms.charge / uc.unit['e'], [0.5, -0.25, 0.1], rtol=1e-9):
                    msgs.append('charge differs')
                if list(back.atoms.name) != ['a', 'bb', 'c'] or back.atoms.stress.shape != (3, 3, 3):
                    msgs.append('string property / shapes differ: %r %r' % (list(back.atoms.name), back.atoms.stress.shape))
                if [bool(x) for x in back.pbc] != [True, False, True] or tuple(back.symbols) != ('Al', None):
                    msgs.append('pbc/symbols differ: %r %r' % (back.pbc, back.symbols))
                if msgs:
                    fails.append({'obligation': 'text.system_roundtrip', 'key': key, 'input': key, 'detail': '; '.join(msgs[:3])})
                elif len(samples) < 1:
                    samples.append({'case': key, 'text_head': text[:160]})
            except Exception as e:
                fails.append({'obligation': 'text.system_roundtrip', 'key': key, 'input': key, 'detail': 'raised %s: %s' % (type(e).__name__, e)})
    finally:
        uc.reset_units(**default)
    seen = {}
    for f in fails:
        seen.setdefault((f['obligation'], f['key']), f)
    files = {rel: hashlib.sha256(open(os.path.join(REPO, rel), 'rb').read()).hexdigest() for rel in (UCF, SYSF, BOXF, ATF)}
    return {'family': 'JSON/XML data-model round trips', 'evaluations': evals, 'distinct_nontrivial': nontriv, 'rule': 'see group rule', 'samples': samples, 'failures': list(seen.values())[:12], 'files': files}
