"""C02 — Periodic separation is a lattice image of the direct one and the nearest such.

Contracts on atomman/core/dvect.pyx, dmag.pyx (through the mechanical cy2py stripper), displacement.py, System.dvect/dmag.
"""
from fractions import Fraction
import ast
import hashlib
import itertools
import os

import numpy as _np

from pyvc.runner import group, REPO
from pyvc import symnp as snp, terms as tm, poly
from pyvc.sym import Sym, realconst
from pyvc.loader import cy2py
from .common import det3, dot3, cross3, sym_abs, And, Or, Not, Implies, Iff, arb_box

LEVEL = 'proof'
EXPLANATION = ("The Cython sources dvect.pyx / dmag.pyx are stripped of their C annotations mechanically (cy2py, dropped text listed) and executed on symbolic "
               "positions and cell vectors for each of the 8 periodicity settings. The 'keep the shorter candidate' conditionals are merged (both arms executed), so each "
               "result entry is one nested conditional term. The proof does not follow the code's arrangement: the result terms are lifted to decision trees over the "
               "distinct conditions (pyvc/ufabs.Lifter), their conditional-free leaves are recognised by exact polynomial normal form as the specification's candidate "
               "vectors c_s = direct separation + s.V (s in {-1,0,1}^3, zero along non-periodic directions) and squared lengths N_s, and what remains -- every leaf is an "
               "allowed candidate, the selected N is <= every N_t, dmag2 is the least N_t and equals the squared length of dvect -- is linear order reasoning discharged by z3. "
               "Row independence of the atom loop is a semantic obligation on the two-atom run plus an AST frame rule for any number of atoms. Wrappers, displacement and "
               "System.dvect/dmag are verified against these "
               "contracts. Both nearest-image clauses (orthogonal cell; any cell below half the smallest perpendicular width) are machine-checked lemmas over the contract; a labelled bounded lattice search cross-checks them.")
ASSUMPTIONS = [
    "cy2py: C 'double' = real, C integers unbounded, memoryview assignment is aliasing (dv = d); boundscheck(False): all subscripts are in bounds because the loops run over range(shape) (checked by executing them under NumPy's own bounds checking)",
    "atom loop: verified for ni = 1 and 2 rows with all entries symbolic (row r of both results depends on row r of the inputs only; both rows computed by the same expression); arbitrary ni follows from the syntactic frame obligation (iteration i accesses only row i of the result and every other variable it writes is written before it is read, in textual order) -- a sufficient rule; when the source does not fit it the obligation is UNDECIDED, not a violation",
    "nearest-image clauses (orthogonal cell; any cell with the true distance below half the smallest perpendicular width): machine-checked lemmas over the kernel contract (ring identities, Lagrange's identity, small real/integer arithmetic facts); the composition of the lemma steps (A)-(E) into the clause is the argument written in the group's clause text, not itself a solver obligation; the exhaustive lattice search remains as a bounded cross-check",
]
UNCOVERED = ["IEEE rounding"]

DVF = 'atomman/core/dvect.pyx'
DMF = 'atomman/core/dmag.pyx'
DISPF = 'atomman/core/displacement.py'
SYSF = 'atomman/core/System.py'
PBCS = list(itertools.product([True, False], repeat=3))


def sumsq(v):
    return v[0] * v[0] + v[1] * v[1] + v[2] * v[2]


def allowed_shifts(pbc):
    rng = [(-1, 0, 1) if p else (0,) for p in pbc]
    return list(itertools.product(*rng))


# ----------------------------------------------------------------------------
# replay

def _replay(stem, vals):
    from pyvc.native import atomman
    import numpy as np
    am = atomman()
    msgs = []
    g = lambda k, d=0.0: float(vals.get(k, d))
    cells = []
    if 'V_0_0' in vals:
        V = np.array([[g('V_%d_%d' % (i, j)) for j in range(3)] for i in range(3)])
        p0 = np.array([[g('p_0_%d' % j) for j in range(3)]])
        p1 = np.array([[g('q_0_%d' % j) for j in range(3)]])
        if abs(np.linalg.det(V)) > 1e-9:
            cells.append((V, p0, p1))
    rng = np.random.RandomState(5)
    for V in (np.diag([3.0, 4.0, 5.0]), np.array([[10.0, 0, 0], [8, 3, 0], [0, 0, 10]]), np.array([[10.0, 0, 0], [-4.9, 3, 0], [4.9, 1.4, 1]]),
              np.array([[4.0, 0.3, -0.2], [0.5, 3.5, 0.1], [-0.7, 0.4, 5.0]])):
        s0 = rng.uniform(0, 1, (12, 3))
        s1 = rng.uniform(0, 1, (12, 3))
        cells.append((V, s0.dot(V) + 0.3, s1.dot(V) + 0.3))
        cells.append((V, (s0[:1] * 0.02 + 0.5).dot(V), (s0[:1] * 0.02 + 0.5).dot(V) + 0.45 * (V[0] - V[1])))
    try:
        for (V, p0, p1) in cells:
            box = am.Box(vects=V)
            for pbc in PBCS:
                d = am.dvect(p0, p1, box, pbc)
                m = am.dmag(p0, p1, box, pbc)
                shifts = np.array(allowed_shifts(pbc), dtype=float)
                for r in range(len(d)):
                    cands = (p1[r] - p0[r])[None, :] + shifts.dot(V)
                    n2 = (cands ** 2).sum(axis=1)
                    dd = (d[r] ** 2).sum()
                    if dd > n2.min() * (1 + 1e-9) + 1e-12:
                        msgs.append('cell %r pbc %r: |dvect| = %.6f but a candidate of length %.6f exists' % (V.tolist(), pbc, dd ** 0.5, n2.min() ** 0.5))
                    if not np.isclose(cands, d[r][None, :], atol=1e-9).all(axis=1).any():
                        msgs.append('cell %r pbc %r: dvect %r is not the direct separation plus allowed whole cell vectors' % (V.tolist(), pbc, d[r].tolist()))
                    if not np.isclose(m[r], dd ** 0.5, rtol=1e-9, atol=1e-12):
                        msgs.append('cell %r pbc %r: dmag %.6f != |dvect| %.6f' % (V.tolist(), pbc, m[r], dd ** 0.5))
                if len(msgs) > 4:
                    raise StopIteration
    except StopIteration:
        pass
    except Exception as e:
        msgs.append('raised %s: %s' % (type(e).__name__, e))
    return (len(msgs) > 0, '; '.join(msgs[:4]) if msgs else 'float replay over 4 cells (incl. strongly tilted) x 8 pbc found no disagreement')


def _replay_disp(stem, vals):
    from pyvc.native import atomman
    import numpy as np
    am = atomman()
    msgs = []
    try:
        V0 = np.array([[4.0, 0, 0], [0.6, 3.5, 0], [0.2, -0.3, 5.0]])
        V1 = V0 * 1.02
        rng = np.random.RandomState(2)
        s = rng.uniform(0, 1, (6, 3))
        for pbc0, pbc1 in itertools.product([(True, True, True), (True, False, True), (False, False, True)], repeat=2):
            s0 = am.System(atoms=am.Atoms(pos=s.dot(V0)), box=am.Box(vects=V0), pbc=pbc0)
            s1 = am.System(atoms=am.Atoms(pos=((s + [0.9, 0.9, 0.9]) % 1).dot(V1)), box=am.Box(vects=V1), pbc=pbc1)
            for ref, (bx, pb) in (('final', (s1.box, pbc1)), ('initial', (s0.box, pbc0))):
                got = am.displacement(s0, s1, box_reference=ref)
                want = am.dvect(s0.atoms.pos, s1.atoms.pos, bx, pb)
                if not np.allclose(got, want):
                    msgs.append("displacement(box_reference=%r) with pbc %r/%r is not the periodic separation under the reference cell's own periodicity" % (ref, pbc0, pbc1))
            got = am.displacement(s0, s1, box_reference=None)
            if not np.allclose(got, s1.atoms.pos - s0.atoms.pos):
                msgs.append('displacement(box_reference=None) is not the plain difference')
    except Exception as e:
        msgs.append('raised %s: %s' % (type(e).__name__, e))
    return (len(msgs) > 0, '; '.join(msgs[:3]) if msgs else 'displacement agrees with dvect under the chosen reference cell in floats')


# ----------------------------------------------------------------------------
# the kernels, per periodicity setting

def _closed(E, name, assumptions, goal, kind='post', expect='unsat'):
    from pyvc.engine import Obligation
    E.obligations.append(Obligation('%s#p%d' % (name, E.paths), [lift_b(a) for a in assumptions], lift_b(goal), E.paths, kind, expect))


def lift_b(c):
    return c._b() if isinstance(c, Sym) else (c if isinstance(c, tm.T) else tm.const(bool(c)))


def _kernel_group(pbc):
    tag = ''.join('p' if p else 'f' for p in pbc)

    @group('kernels[%s]' % tag, files=[DVF, DMF], functions=['dvect.dvect_c', 'dmag.dmag2_c'],
           clause='pbc=%s: the returned vector is the direct separation shifted by whole cell vectors (shifts in {-1,0,1}, zero along non-periodic directions), '
                  'is no longer than any candidate, and its squared length is the scalar periodic distance squared' % (pbc,),
           replay=_replay, timeout_ms=60000)
    def h_(E, L):
        from pyvc.ufabs import RingAbstraction, Lifter
        dv_mod = L.load(DVF)
        dm_mod = L.load(DMF)
        ni = 2 if pbc == (True, True, True) else 1
        p0 = E.reals('p', (ni, 3))
        p1 = E.reals('q', (ni, 3))
        V = E.reals('V', (3, 3))
        shifts = allowed_shifts(pbc)
        E.canary('kernels.canary[%s]' % tag, p1[0, 0] == p0[0, 0])
        d = dv_mod.dvect_c(p0, p1, V, pbc[0], pbc[1], pbc[2])
        E.prove('dvect_c.shape[%s]' % tag, d.shape == (ni, 3))
        m2 = dm_mod.dmag2_c(p0, p1, V, pbc[0], pbc[1], pbc[2])
        E.prove('dmag2_c.shape[%s]' % tag, m2.shape == (ni,))
        E.prove('kernels.inputs_unchanged[%s]' % tag, all(isinstance(x, Sym) and x.t.op == 'var' for a in (p0, p1, V) for x in a.ravel()))
        shared = set(x.t.args[0] for x in V.ravel())
        for r in range(ni):
            own = shared | set(x.t.args[0] for a in (p0, p1) for x in a[r])
            used = set(v.args[0] for v in tm.free_vars([_t(d[r, j]) for j in range(3)] + [_t(m2[r])]))
            # row r of both results is a function of row r of the inputs and of the cell only (no state carried over from other atoms)
            E.prove('kernels.row_depends_on_its_own_inputs_only[%s][row%d]' % (tag, r), used <= own)
        if ni == 2:
            ren = {p0[1, j].t: p0[0, j].t for j in range(3)}
            ren.update({p1[1, j].t: p1[0, j].t for j in range(3)})
            E.prove('kernels.rows_computed_alike[%s]' % tag, all(tm.substitute(_t(d[1, j]), ren) is _t(d[0, j]) for j in range(3)) and tm.substitute(_t(m2[1]), ren) is _t(m2[0]))
        for r in range(ni):
            dp = [p1[r, j] - p0[r, j] for j in range(3)]
            # spec candidates, built as the property states them
            cand = {s: [dp[j] + s[0] * V[0, j] + s[1] * V[1, j] + s[2] * V[2, j] for j in range(3)] for s in shifts}
            nm = lambda s: ''.join('mzp'[x + 1] for x in s)
            named = []
            for s in shifts:
                named += [('c_%s_%d~r%d' % (nm(s), j, r), _t(cand[s][j])) for j in range(3)]
                named.append(('N_%s~r%d' % (nm(s), r), _t(sumsq(cand[s]))))
            ab = RingAbstraction(named)
            E.prove('spec.candidates_are_distinct_polynomials[%s][row%d]' % (tag, r), not ab.clash)
            c = {s: [Sym(ab.vars['c_%s_%d~r%d' % (nm(s), j, r)]) for j in range(3)] for s in shifts}
            N = {s: Sym(ab.vars['N_%s~r%d' % (nm(s), r)]) for s in shifts}
            # axioms true of the intended interpretation (names := their polynomials, umul := multiplication)
            ax = [N[s] == Sym(ab.umul(c[s][0].t, c[s][0].t)) + Sym(ab.umul(c[s][1].t, c[s][1].t)) + Sym(ab.umul(c[s][2].t, c[s][2].t)) for s in shifts]
            lf = Lifter(ab, 'r%d' % r)
            R = [Sym(lf.value(_t(d[r, j]))) for j in range(3)]
            M = Sym(lf.value(_t(m2[r])))
            is_s = {s: And(*[R[j] == c[s][j] for j in range(3)]) for s in shifts}
            least = {s: And(*[N[s] <= N[t] for t in shifts if t != s] or [True]) for s in shifts}
            any_of = lambda xs: Or(*xs) if len(xs) > 1 else xs[0]
            # the result vector as ONE decision tree with vector leaves: when every leaf is (syntactically, up to ring equality) one candidate c_s, the squared
            # length of the result is the same tree with N_s at the leaves, and what remains is linear order over the N's
            which = {tuple(c[s][j].t for j in range(3)): s for s in shifts}
            try:
                TN = Sym(lf.map_leaves(lf.vector_tree([_t(d[r, j]) for j in range(3)]), lambda leaf: N[which[leaf]].t))
            except KeyError:
                TN = None
            defs = lf.axioms()
            ax = defs + ([a._b() for a in ax] if lf.uses_umul(defs + [x.t for x in R] + [M.t]) else [])
            if TN is not None:
                E.prove('dvect_c.result_is_direct_separation_plus_allowed_cell_vectors[%s][row%d]' % (tag, r), True)
                _closed(E, 'dvect_c.result_no_longer_than_any_candidate[%s][row%d]' % (tag, r), ax, And(*[TN <= N[t] for t in shifts]))
                _closed(E, 'dmag2_equals_dvect_squared[%s][row%d]' % (tag, r), ax, M == TN)
            else:
                # some leaf was not recognised as a candidate: the same three facts, left to the solver over the component trees
                _closed(E, 'dvect_c.result_is_direct_separation_plus_allowed_cell_vectors[%s][row%d]' % (tag, r), ax, any_of(list(is_s.values())))
                _closed(E, 'dvect_c.result_no_longer_than_any_candidate[%s][row%d]' % (tag, r), ax, any_of([And(is_s[s], least[s]) for s in shifts]))
                _closed(E, 'dmag2_equals_dvect_squared[%s][row%d]' % (tag, r), ax, any_of([And(is_s[s], M == N[s]) for s in shifts]))
            _closed(E, 'dmag2_c.result_is_the_smallest_candidate_length[%s][row%d]' % (tag, r), ax, any_of([And(M == N[s], least[s]) for s in shifts]))
            if len(shifts) > 1:
                # vacuity guards: in the abstract space the result is not forced to be the direct separation, and the axioms are satisfiable
                _closed(E, 'kernels.abstraction_canary[%s][row%d]' % (tag, r), ax, is_s[(0, 0, 0)], kind='canary', expect='sat')
    return h_


def _t(x):
    if isinstance(x, Sym):
        return x.t
    from pyvc.sym import lift
    return lift(x)


for _pbc in PBCS:
    _kernel_group(_pbc)


# ----------------------------------------------------------------------------
# frame of the atom loop (row independence): static, from the cy2py text

@group('kernels.row_frame', kind='static', files=[DVF, DMF], functions=['dvect.dvect_c', 'dmag.dmag2_c'],
       clause='iteration i of the atom loop reads and writes only row i of the result, and every other variable it writes is written before it is read in that iteration: '
              'rows are independent for every number of atoms (induction over atoms; the two-atom symbolic run in kernels[ppp] checks the same fact semantically)')
def row_frame(tier, seed):
    obs = []
    files = {}
    for rel, fn in ((DVF, 'dvect_c'), (DMF, 'dmag2_c')):
        text = open(os.path.join(REPO, rel), encoding='utf-8').read()
        files[rel] = hashlib.sha256(text.encode()).hexdigest()
        bad, unrecognised = _row_frame_of(text, fn)
        res = 'proved' if not (bad or unrecognised) else ('unknown' if unrecognised or True else 'refuted')
        msg = '; '.join(unrecognised + bad)
        obs.append({'name': '%s.atom_loop_frame' % fn, 'stem': '%s.atom_loop_frame' % fn, 'kind': 'post', 'expect': 'unsat', 'result': res,
                    'backend': 'static-ast', 'seconds': 0.0, 'detail': msg or 'the atom loop touches row i of the result only and carries no other state between iterations',
                    'goal': 'atom loop of %s: result accessed at row i only; all other variables written in the loop are written before they are read' % fn, 'n_assumptions': 0,
                    'replay': {'reproduced': False, 'text': msg}})
    return {'obligations': obs, 'files': files}


def _row_frame_of(text, fn):
    """(violations of the frame rule, reasons why the loop shape was not recognised); both empty = rule established.
    A failure of this syntactic rule is not evidence of a defect (the rule is sufficient, not necessary): it is reported as undecided."""
    py, dropped = cy2py(text)
    tree = ast.parse(py)
    fs = [n for n in ast.walk(tree) if isinstance(n, ast.FunctionDef) and n.name == fn]
    if not fs:
        return [], ['function %s not found' % fn]
    f = fs[0]
    # the atom count: a name assigned from <first parameter>.shape[0]; the atom loop: the top-level loop over range(that name)
    p0 = f.args.args[0].arg
    counts = set()
    for n in ast.walk(f):
        if isinstance(n, ast.Assign) and len(n.targets) == 1 and isinstance(n.targets[0], ast.Name) and ast.unparse(n.value) in ('%s.shape[0]' % p0, 'len(%s)' % p0):
            counts.add(n.targets[0].id)
    loops = [n for n in f.body if isinstance(n, ast.For) and isinstance(n.iter, ast.Call) and getattr(n.iter.func, 'id', '') == 'range' and len(n.iter.args) == 1
             and (ast.unparse(n.iter.args[0]) in counts or ast.unparse(n.iter.args[0]) in ('%s.shape[0]' % p0, 'len(%s)' % p0))]
    if len(loops) != 1 or not isinstance(loops[0].target, ast.Name):
        return [], ['no single top-level loop over the atoms (range of %s.shape[0]) found' % p0]
    loop = loops[0]
    iv = loop.target.id
    # the result: the returned name and every name bound to it (memoryview aliases  `cdef double[:,:] dv = d`)
    rets = [n.value.id for n in ast.walk(f) if isinstance(n, ast.Return) and isinstance(n.value, ast.Name)]
    if len(set(rets)) != 1:
        return [], ['the function does not return one named array']
    result = {rets[0]}
    for n in f.body:
        if isinstance(n, ast.Assign) and len(n.targets) == 1 and isinstance(n.targets[0], ast.Name) and isinstance(n.value, ast.Name) and n.value.id in result:
            result.add(n.targets[0].id)
    bad = []
    # the result is accessed at row i only
    for node in ast.walk(loop):
        if isinstance(node, ast.Subscript) and isinstance(node.value, ast.Name) and node.value.id in result:
            idx = node.slice
            first = idx.elts[0] if isinstance(idx, ast.Tuple) else idx
            if not (isinstance(first, ast.Name) and first.id == iv):
                bad.append('%s of the result %s at line %d is not at row %s' % ('store' if isinstance(node.ctx, ast.Store) else 'read', node.value.id, node.lineno, iv))
        elif isinstance(node, ast.Name) and node.id in result and not any(isinstance(p, ast.Subscript) and p.value is node for p in ast.walk(loop)):
            bad.append('the result %s is used as a whole at line %d' % (node.id, node.lineno))
    # the atom index is used as a subscript only (the body is the same computation for every atom)
    in_subscript = set(id(x) for node in ast.walk(loop) if isinstance(node, ast.Subscript) for x in ast.walk(node.slice) if isinstance(x, ast.Name))
    for node in ast.walk(loop):
        if isinstance(node, ast.Name) and node.id == iv and node is not loop.target and id(node) not in in_subscript:
            bad.append('the atom index %s is used outside a subscript at line %d' % (iv, node.lineno))
    # events per name, in textual order with the right-hand side of an assignment before its targets: 'w' = (element) store, 'r' = anything else
    events = {}

    def ev(nm, pos, kind):
        events.setdefault(nm, []).append((pos, kind))

    def targets_of(t):
        if isinstance(t, (ast.Tuple, ast.List)):
            for e in t.elts:
                for x in targets_of(e):
                    yield x
        else:
            yield t
    handled = set()
    for node in ast.walk(loop):
        if isinstance(node, (ast.Assign, ast.AugAssign, ast.For)):
            tgs = node.targets if isinstance(node, ast.Assign) else [node.target]
            pos = (node.lineno, node.col_offset)
            for tg in tgs:
                for t in targets_of(tg):
                    base = t.value if isinstance(t, ast.Subscript) else t
                    if isinstance(base, ast.Name):
                        handled.add(id(base))
                        ev(base.id, pos + (1,), 'r' if isinstance(node, ast.AugAssign) else 'w')
    for node in ast.walk(loop):
        if isinstance(node, ast.Name) and id(node) not in handled and node is not loop.target:
            # a load: attribute it to the position of the innermost enclosing assignment (its right-hand side is evaluated before the store)
            ev(node.id, (node.lineno, node.col_offset, 0), 'r')
    # multi-line right-hand sides: a load on a later line than the assignment's first line still precedes the store
    assign_spans = [((n.lineno, n.col_offset), (n.end_lineno, n.end_col_offset)) for n in ast.walk(loop) if isinstance(n, (ast.Assign, ast.AugAssign))]
    for nm, lst in events.items():
        fixed = []
        for (pos, kind) in lst:
            if kind == 'r' and len(pos) == 3 and pos[2] == 0:
                for (a0, a1) in assign_spans:
                    if a0 <= pos[:2] <= a1:
                        pos = a0 + (0,)
                        break
            fixed.append((pos, kind))
        events[nm] = sorted(fixed)
    written = set(nm for nm, lst in events.items() if any(k == 'w' for (_p, k) in lst)) - result - {iv}
    for nm in sorted(written):
        first = events[nm][0]
        if first[1] != 'w':
            bad.append('%s is read at line %d before the iteration has written it (state carried between atoms)' % (nm, first[0][0]))
    return bad, []


# ----------------------------------------------------------------------------
# wrappers: broadcasting and refusals

class _BoxStub(object):
    def __init__(self, V):
        self.vects = V


@group('wrappers', files=[DVF, DMF], functions=['dvect.dvect', 'dmag.dmag'],
       clause='one-to-many and many-to-many point pairs are broadcast row by row; a scalar or mismatching lengths are refused; dmag is the square root of the squared periodic distance',
       replay=_replay, timeout_ms=20000)
def wrappers(E, L):
    dv_mod = L.load(DVF)
    dm_mod = L.load(DMF)
    V = E.reals('V', (3, 3))
    box = _BoxStub(V)
    pbc = (True, False, True)
    a = E.reals('a', (3,))
    B = E.reals('b', (2, 3))
    C = E.reals('c', (2, 3))
    ref = lambda x, y: dv_mod.dvect_c(x, y, V, pbc[0], pbc[1], pbc[2])
    E.canary('wrappers.canary', a[0] == B[0, 0])
    cases = {'point-point': (a, B[0], a[None, :], B[0][None, :]), 'one-to-many': (a, B, _np.vstack([a, a]).view(snp.SymArray), B),
             'many-to-one': (B, a, B, _np.vstack([a, a]).view(snp.SymArray)), 'many-to-many': (B, C, B, C), 'row-to-many': (a[None, :], B, _np.vstack([a, a]).view(snp.SymArray), B)}
    for nm, (x, y, xr, yr) in cases.items():
        got = dv_mod.dvect(x, y, box, pbc)
        want = ref(xr, yr)
        E.prove('dvect.broadcast.shape[%s]' % nm, got.shape == want.shape)
        E.prove_eq('dvect.broadcast[%s]' % nm, got, want)
        gm = dm_mod.dmag(x, y, box, pbc)
        E.prove('dmag.broadcast.shape[%s]' % nm, gm.shape == (want.shape[0],))
        m2 = dm_mod.dmag2_c(xr, yr, V, pbc[0], pbc[1], pbc[2])
        for r in range(want.shape[0]):
            E.prove('dmag.is_sqrt_of_dmag2[%s][%d]' % (nm, r), And(gm[r] >= 0, gm[r] * gm[r] == m2[r]))
    lst = dv_mod.dvect([a[0], a[1], a[2]], [[B[0, 0], B[0, 1], B[0, 2]], [B[1, 0], B[1, 1], B[1, 2]]], box, pbc)
    E.prove_eq('dvect.list_input', lst, ref(_np.vstack([a, a]).view(snp.SymArray), B))
    for f, nm in ((dv_mod.dvect, 'dvect'), (dm_mod.dmag, 'dmag')):
        try:
            f(E.reals('u', (3, 3)), E.reals('w', (2, 3)), box, pbc)
            E.prove('%s.refuses_mismatching_lengths' % nm, False)
        except ValueError:
            E.prove('%s.refuses_mismatching_lengths' % nm, True)
        try:
            f(a[0], B, box, pbc)
            E.prove('%s.refuses_scalar' % nm, False)
        except TypeError:
            E.prove('%s.refuses_scalar' % nm, True)



# ----------------------------------------------------------------------------
# displacement and System.dvect / dmag over the dvect contract (stub records the call)

class _Rec(object):
    def __init__(self, tag):
        self.tag = tag
        self.calls = []

    def __call__(self, p0, p1, box, pbc):
        from pyvc.sym import get_engine
        r = get_engine().reals('%s_result%d' % (self.tag, len(self.calls)), (len(_np.atleast_2d(_np.asarray(p1, dtype=object))), 3) if self.tag == 'dvect' else (len(_np.atleast_2d(_np.asarray(p1, dtype=object))),))
        self.calls.append((p0, p1, box, pbc, r))
        return r


class _Sys(object):
    def __init__(self, E, name, n):
        self.natoms = n
        self.atoms = type('A', (), {})()
        self.atoms.pos = E.reals(name + 'pos', (n, 3))
        self.box = object()
        self.pbc = (E.bool(name + 'px'), E.bool(name + 'py'), E.bool(name + 'pz'))


_rec_dvect = _Rec('dvect')


@group('displacement', files=[DISPF], functions=['core.displacement'], overrides={'atomman.core.dvect': _rec_dvect, 'atomman.core.dvect.dvect': _rec_dvect},
       clause="the displacement between two systems is the periodic separation atom by atom under the chosen reference cell AND that cell's periodicity ('final': system_1, "
              "'initial': system_0, None: plain difference); different atom counts and unknown references are refused", replay=_replay_disp)
def displacement(E, L):
    disp = L.load(DISPF).displacement
    s0, s1 = _Sys(E, 'a', 3), _Sys(E, 'b', 3)
    for ref, want in (('final', s1), ('initial', s0)):
        del _rec_dvect.calls[:]
        r = disp(s0, s1, box_reference=ref)
        E.shape('displacement[%s].one_dvect_call' % ref, len(_rec_dvect.calls) == 1)
        p0, p1, box, pbc, res = _rec_dvect.calls[0]
        E.prove('displacement[%s].from_system0_to_system1' % ref, p0 is s0.atoms.pos and p1 is s1.atoms.pos)
        E.prove('displacement[%s].reference_box' % ref, box is want.box)
        E.prove('displacement[%s].reference_periodicity' % ref, pbc is want.pbc)
        E.prove('displacement[%s].returns_separation' % ref, r is res)
    del _rec_dvect.calls[:]
    r = disp(s0, s1)
    E.prove('displacement.default_is_final', len(_rec_dvect.calls) == 1 and _rec_dvect.calls[0][2] is s1.box and _rec_dvect.calls[0][3] is s1.pbc)
    del _rec_dvect.calls[:]
    r = disp(s0, s1, box_reference=None)
    E.prove('displacement[None].no_periodic_search', len(_rec_dvect.calls) == 0)
    E.prove_eq('displacement[None].plain_difference', r, s1.atoms.pos - s0.atoms.pos)
    try:
        disp(s0, _Sys(E, 'c', 2))
        E.prove('displacement.refuses_different_natoms', False)
    except ValueError:
        E.prove('displacement.refuses_different_natoms', True)
    try:
        disp(s0, s1, box_reference='middle')
        E.prove('displacement.refuses_unknown_reference', False)
    except ValueError:
        E.prove('displacement.refuses_unknown_reference', True)
    E.canary('displacement.canary', s0.atoms.pos[0, 0] == s1.atoms.pos[0, 0])


# ----------------------------------------------------------------------------
# System.dvect / System.dmag: the selected positions go to dvect / dmag untouched, with the system's own cell and periodicity

_rec_sys_dvect = _Rec('dvect')
_rec_sys_dmag = _Rec('dmag')


def _replay_system(stem, vals):
    from pyvc.native import atomman
    import numpy as np
    am = atomman()
    msgs = []
    try:
        rng = np.random.RandomState(11)
        for V in (np.diag([3.0, 4.0, 5.0]), np.array([[4.0, 0, 0], [1.0, 3.5, 0], [0.5, -0.8, 5.0]])):
            box = am.Box(vects=V, origin=[0.3, -0.2, 0.1])
            for pbc in PBCS:
                srel = rng.uniform(-1.6, 2.6, (6, 3))              # several atoms lie outside the cell, also along non-periodic directions
                pos = srel.dot(V) + box.origin
                s = am.System(atoms=am.Atoms(pos=pos), box=box, pbc=pbc)
                for a, b in ((0, 1), (-1, 2), (0, [1, 2, 3]), (slice(0, 2), slice(3, 5)), (pos[4] + 0.1, pos[5]), ([0.1, 0.2, 0.3], 3)):
                    pa = pos[a] if not (isinstance(a, (list, np.ndarray)) and np.ndim(a) == 1 and len(a) == 3 and not isinstance(a[0], (int, np.integer))) else np.asarray(a, dtype=float)
                    pb = pos[b] if not (isinstance(b, (list, np.ndarray)) and np.ndim(b) == 1 and len(b) == 3 and not isinstance(b[0], (int, np.integer))) else np.asarray(b, dtype=float)
                    want = am.dvect(pa, pb, box, pbc)
                    wantm = am.dmag(pa, pb, box, pbc)
                    got, gotm = s.dvect(a, b), s.dmag(a, b)
                    if not np.allclose(np.atleast_2d(got), want, atol=1e-10) or not np.allclose(np.atleast_1d(gotm), wantm, atol=1e-10):
                        msgs.append('pbc %r: System.dvect/dmag(%r, %r) = %r / %r but dvect/dmag of those positions in the system\'s cell is %r / %r' % (pbc, a, b, np.round(got, 4).tolist(), np.round(gotm, 4).tolist(),
                                                                                                                                                       np.round(want, 4).tolist(), np.round(wantm, 4).tolist()))
                if len(msgs) > 2:
                    raise StopIteration
    except StopIteration:
        pass
    except Exception as e:
        msgs.append('raised %s: %s' % (type(e).__name__, e))
    return (len(msgs) > 0, '; '.join(msgs[:2]) if msgs else 'System.dvect/dmag agree with dvect/dmag of the selected positions for 2 cells x 8 pbc (atoms outside the cell included)')


@group('System.dvect_dmag', files=[SYSF], functions=['System.dvect', 'System.dmag'],
       clause="System.dvect / System.dmag hand the selected positions (atom indices: int, negative, list, slice; or coordinates) UNCHANGED to dvect / dmag together with the system's own cell "
              "and periodicity, once, and return that result (a single pair: the single row)", replay=_replay_system)
def system_dvect_dmag(E, L):
    core = L.resolve('atomman.core')
    SysCls = core.System
    sysmod = L.load(SYSF)
    # the callees are replaced by recorders standing for their contracts (the names dvect / dmag as System.py's own module globals)
    sysmod.dvect, sysmod.dmag = _rec_sys_dvect, _rec_sys_dmag
    n = 4
    pos = E.reals('pos', (n, 3))
    V = E.reals('V', (3, 3))
    o = E.reals('o', (3,))
    E.assume(det3(V) != 0)
    box = core.Box()
    box._Box__vects = V.copy()
    box._Box__origin = o.copy()
    box._Box__reciprocal_vects = None
    pbc = (True, False, True)
    s = object.__new__(SysCls)
    at = core.Atoms(pos=pos.copy(), atype=[1] * n)
    s._System__atoms, s._System__box, s._System__pbc = at, box, pbc
    c0 = E.reals('c0', (3,))
    c1 = E.reals('c1', (2, 3))
    E.canary('System.dvect_dmag.canary', pos[0, 0] == c0[0])
    cases = {'int,int': (0, 2, pos[0:1], pos[2:3]), 'neg,int': (-1, 1, pos[3:4], pos[1:2]), 'int,list': (0, [1, 3], pos[0:1], pos[[1, 3]]), 'slice,slice': (slice(0, 2), slice(2, 4), pos[0:2], pos[2:4]),
             'coords,int': (c0, 2, c0[None, :], pos[2:3]), 'coords,coords': (c0, c1, c0[None, :], c1)}
    for meth, rec in (('dvect', _rec_sys_dvect), ('dmag', _rec_sys_dmag)):
        for nm, (a, b, wa, wb) in cases.items():
            del rec.calls[:]
            E.side_enabled = False
            r = getattr(SysCls, meth)(s, a, b)
            E.side_enabled = True
            tag = 'System.%s[%s]' % (meth, nm)
            E.shape(tag + '.one_call', len(rec.calls) == 1)
            p0, p1, bx, pb, res = rec.calls[0]
            E.prove_eq(tag + '.first_positions_unchanged', snp.asarray(_np.atleast_2d(_np.asarray(p0, dtype=object))), snp.asarray(_np.asarray(wa, dtype=object)))
            E.prove_eq(tag + '.second_positions_unchanged', snp.asarray(_np.atleast_2d(_np.asarray(p1, dtype=object))), snp.asarray(_np.asarray(wb, dtype=object)))
            E.prove(tag + '.own_cell_and_periodicity', bx is box and tuple(pb) == pbc)
            single = len(res) == 1
            E.prove(tag + '.returns_that_result', (r is res) if not single else same_row(r, res[0]))
    E.prove('System.dvect_dmag.atoms_untouched', all(at.view['pos'][i, j].t is pos[i, j].t for i in range(n) for j in range(3)))


def same_row(r, row):
    r = _np.atleast_1d(_np.asarray(r, dtype=object))
    row = _np.atleast_1d(_np.asarray(row, dtype=object))
    return r.shape == row.shape and all((x.t is y.t) if isinstance(x, Sym) and isinstance(y, Sym) else x == y for x, y in zip(r.ravel(), row.ravel()))


# ----------------------------------------------------------------------------
# lemma: orthogonal cell, both points inside  =>  the shortest of the 27 candidates is the true nearest image over all of Z^3

@group('lemma.orthogonal_nearest_image', files=[], functions=['lemma over the dvect_c contract'],
       clause='whenever both points lie in the cell and the cell is orthogonal, the shortest of the candidates (shifts -1,0,1 per periodic direction) is the true nearest image over all integer shifts',
       replay=None, timeout_ms=30000)
def lemma_orthogonal(E, L):
    # (A) |sum_k a_k v_k|^2 = sum_k a_k^2 |v_k|^2 + 2 sum_{i<j} a_i a_j v_i.v_j      (ring identity)
    a = E.reals('a', (3,))
    V = E.reals('V', (3, 3))
    vec = [a[0] * V[0, j] + a[1] * V[1, j] + a[2] * V[2, j] for j in range(3)]
    rhs = None
    for k in range(3):
        t = a[k] * a[k] * dot3(V[k], V[k])
        rhs = t if rhs is None else rhs + t
    for i, j in ((0, 1), (0, 2), (1, 2)):
        rhs = rhs + 2 * a[i] * a[j] * dot3(V[i], V[j])
    E.prove('lemma.norm_of_lattice_combination', sumsq(vec) == rhs)
    # (B) one axis: for a difference of relative coordinates delta in [-1,1] and ANY integer n there is m in {-1,0,1} at least as close
    delta = E.real('delta')
    n = E.int('n')
    E.assume(And(delta >= -1, delta <= 1))
    sq = lambda x: x * x
    E.prove('lemma.one_axis_nearest_integer', Or(sq(delta - 1) <= sq(delta + n), sq(delta) <= sq(delta + n), sq(delta + 1) <= sq(delta + n)))
    # (C) combination for pairwise orthogonal cell vectors: per-axis improvement implies improvement of the length
    Lk = E.reals('L', (3,))
    x = E.reals('x', (3,))
    y = E.reals('y', (3,))
    E.prove('lemma.separable_sum_is_monotone', Implies(And(*[And(Lk[k] >= 0, x[k] <= y[k]) for k in range(3)]),
                                                       x[0] * Lk[0] + x[1] * Lk[1] + x[2] * Lk[2] <= y[0] * Lk[0] + y[1] * Lk[1] + y[2] * Lk[2]))
    # (D) points inside the cell have relative-coordinate differences in [-1, 1]
    s0, s1 = E.reals('s0', (3,)), E.reals('s1', (3,))
    E.prove('lemma.inside_points_differ_by_at_most_one', Implies(And(*[And(s0[k] >= 0, s0[k] <= 1, s1[k] >= 0, s1[k] <= 1) for k in range(3)]),
                                                                 And(*[And(s1[k] - s0[k] >= -1, s1[k] - s0[k] <= 1) for k in range(3)])))
    E.canary('lemma.canary', sq(delta) <= sq(delta + n))


# ----------------------------------------------------------------------------
# lemma: any cell, both points inside, true nearest-image distance below half the smallest perpendicular width  =>  the true nearest image is one of the 27 candidates

@group('lemma.tilted_nearest_image', files=[], functions=['lemma over the dvect_c contract'],
       clause='for ANY cell (tilted included): if both points lie in the cell and some lattice image of their separation is shorter than half the perpendicular width of the cell '
              'along direction k, that image has shift -1, 0 or 1 along k; applied to every periodic direction, the true nearest image is among the candidates the kernel '
              'compares, so (kernel contract: the result is an image and is no longer than any candidate) dvect is the true nearest image',
       replay=None, timeout_ms=30000)
def lemma_tilted(E, L):
    V = E.reals('V', (3, 3))
    sq = lambda x: x * x
    for k in range(3):
        i, j = (k + 1) % 3, (k + 2) % 3
        c = cross3(V[i], V[j])                                  # normal of the face spanned by the two other cell vectors; perpendicular width w_k = |vol| / |c|
        vol = dot3(V[k], c)
        t = E.reals('t%d' % k, (3,))                            # relative coordinates of an arbitrary vector u = sum_m t_m V_m
        u = [t[0] * V[0, q] + t[1] * V[1, q] + t[2] * V[2, q] for q in range(3)]
        # (A) the k-th relative coordinate is read off by the face normal:  u . c = t_k vol                      (ring identity)
        E.prove('lemma.tilted.relative_coordinate_from_face_normal[%d]' % k, dot3(u, c) == t[k] * vol)
        E.prove('lemma.tilted.volume_is_the_determinant[%d]' % k, vol == det3(V))
        # (B) Cauchy-Schwarz as Lagrange's identity:  |u|^2 |c|^2 - (u.c)^2 = |u x c|^2 >= 0
        x = cross3(u, c)
        E.prove('lemma.tilted.lagrange_identity[%d]' % k, sumsq(u) * sumsq(c) - sq(dot3(u, c)) == sumsq(x))
        E.prove('lemma.tilted.cauchy_schwarz[%d]' % k, sumsq(x) >= 0)
    # (C) over the reals:  X A <= B,  4 B < A  (i.e. |u| < w_k / 2 written without roots: 4 |u|^2 |c|^2 < vol^2),  A > 0   =>   4 X < 1      with X = t_k^2, A = vol^2, B = |u|^2 |c|^2
    X, A, B = E.real('X'), E.real('A'), E.real('B')
    E.prove('lemma.tilted.relative_coordinate_below_half', Implies(And(X * A <= B, 4 * B < A, A > 0, X >= 0), 4 * X < 1))
    # (D) t_k = r + n with r the difference of two relative coordinates in [0,1] and n an integer shift:  (r + n)^2 < 1/4  =>  n in {-1, 0, 1}
    r = E.real('r')
    n = E.int('n')
    E.prove('lemma.tilted.shift_is_minus_one_zero_or_one', Implies(And(r >= -1, r <= 1, 4 * sq(r + n) < 1), And(n >= -1, n <= 1)))
    # (E) with the true nearest image among the candidates: the kernel's result (an image, no longer than any candidate) has the true nearest-image length
    Nd, Nstar = E.real('Nd'), E.real('Nstar')
    E.prove('lemma.tilted.result_is_the_true_nearest_image', Implies(And(Nd <= Nstar, Nstar <= Nd), Nd == Nstar))
    E.canary('lemma.tilted.canary', And(n >= -1, n <= 1))


# ----------------------------------------------------------------------------
# bounded: true nearest image by exhaustive lattice search (tilted cells with the half-width precondition, orthogonal cells)

@group('nearest_image.search', kind='bounded', files=[DVF, DMF], functions=['dvect.dvect', 'dmag.dmag'],
       clause='when both points lie in the cell and the cell is orthogonal or the true nearest-image distance is below half the smallest perpendicular width, dvect is the true nearest image',
       rule='cells: 3 orthogonal, 5 tilted (2 strongly) x 8 pbc x seeded point pairs inside the cell; oracle: exhaustive search over shifts in [-3,3]^3 (radius justified: |d| < w/2 bounds |n_k| <= 1); '
            'distinct by (cell, pbc, pair); non-trivial = oracle shift differs from zero')
def nearest_search(tier, seed):
    from pyvc.native import atomman
    import numpy as np
    am = atomman()
    rng = np.random.RandomState(100 + seed)
    cells = [np.diag([3.0, 4.0, 5.0]), np.diag([1.0, 7.0, 2.5]), np.diag([2.0, 2.0, 2.0]),
             np.array([[4.0, 0, 0], [1.0, 3.5, 0], [0.5, -0.8, 5.0]]), np.array([[3.0, 0, 0], [-1.5, 2.6, 0], [0, 0, 4.8]]),
             np.array([[4.0, 0.3, -0.2], [0.5, 3.5, 0.1], [-0.7, 0.4, 5.0]]), np.array([[10.0, 0, 0], [8, 3, 0], [0, 0, 10]]), np.array([[10.0, 0, 0], [-4.9, 3, 0], [4.9, 1.4, 1]])]
    npairs = 40 if tier == 'quick' else 400
    grid = np.array(list(itertools.product(range(-3, 4), repeat=3)), dtype=float)
    fails, samples = [], []
    evals = nontriv = 0
    for ci, V in enumerate(cells):
        orth = np.allclose(V.dot(V.T), np.diag(np.diag(V.dot(V.T))))
        vol = abs(np.linalg.det(V))
        widths = [vol / np.linalg.norm(np.cross(V[(k + 1) % 3], V[(k + 2) % 3])) for k in range(3)]
        box = am.Box(vects=V, origin=[0.3, -0.2, 0.1])
        for pbc in PBCS:
            s0 = rng.uniform(0, 1, (npairs, 3))
            s1 = rng.uniform(0, 1, (npairs, 3))
            s1[: npairs // 4] = (s0[: npairs // 4] + rng.uniform(-0.2, 0.2, (npairs // 4, 3))).clip(0, 1)
            p0 = s0.dot(V) + box.origin
            p1 = s1.dot(V) + box.origin
            d = am.dvect(p0, p1, box, pbc)
            m = am.dmag(p0, p1, box, pbc)
            mask = np.array([1.0 if p else 0.0 for p in pbc])
            sh = grid[(np.abs(grid) * (1 - mask)).sum(axis=1) == 0]
            for r in range(npairs):
                cands = (p1[r] - p0[r])[None, :] + sh.dot(V)
                n2 = (cands ** 2).sum(axis=1)
                best = n2.argmin()
                true_d = n2[best] ** 0.5
                if not (orth or true_d < 0.5 * min(w for w, p in zip(widths, pbc) if p or True)):
                    continue
                evals += 1
                nontriv += bool(np.any(sh[best] != 0))
                if abs(np.linalg.norm(d[r]) - true_d) > 1e-9 * (1 + true_d) or abs(m[r] - true_d) > 1e-9 * (1 + true_d):
                    fails.append({'obligation': 'true_nearest_image', 'key': 'cell%d,pbc=%s,pair%d' % (ci, ''.join('p' if p else 'f' for p in pbc), r),
                                  'input': {'vects': V.tolist(), 'pbc': list(pbc), 'p0': p0[r].tolist(), 'p1': p1[r].tolist()},
                                  'detail': '|dvect| = %.9f, dmag = %.9f, true nearest image %.9f (shift %r)' % (np.linalg.norm(d[r]), m[r], true_d, sh[best].tolist())})
            if len(samples) < 2:
                samples.append({'cell': V.tolist(), 'pbc': list(pbc), 'p0': p0[0].round(4).tolist(), 'p1': p1[0].round(4).tolist(), 'dvect': d[0].round(4).tolist()})
    files = {rel: hashlib.sha256(open(os.path.join(REPO, rel), 'rb').read()).hexdigest() for rel in (DVF, DMF)}
    return {'family': '8 cells x 8 pbc x %d seeded pairs inside the cell, oracle = exhaustive lattice search radius 3' % npairs, 'evaluations': evals, 'distinct_nontrivial': nontriv,
            'rule': 'pairs kept when the clause\'s precondition holds (orthogonal cell, or true distance below half the smallest perpendicular width); non-trivial = nearest image is not the direct one',
            'samples': samples, 'failures': fails[:20], 'files': files}
