"""C02 — Periodic separation is a lattice image of the direct one and the nearest such.

Contracts on atomman/core/dvect.pyx, dmag.pyx (through the mechanical cy2py stripper), displacement.py, System.dvect/dmag.
"""
from fractions import Fraction
import ast
import hashlib
import itertools
import os

import numpy as _np

from pyvc.runner import group, REPO
from pyvc import symnp as snp, terms as tm, poly
from pyvc.sym import Sym, realconst
from pyvc.loader import cy2py
from .common import det3, dot3, cross3, sym_abs, And, Or, Not, Implies, Iff, arb_box

LEVEL = 'proof'
EXPLANATION = ("The Cython sources dvect.pyx / dmag.pyx are stripped of their C annotations mechanically (cy2py, dropped text listed) and executed on symbolic "
               "positions and cell vectors for each of the 8 periodicity settings. The 26 'keep the shorter candidate' conditionals are merged (both arms executed, "
               "every guarded store logged) and the proof follows the code's own sequence of candidate steps: per step an abstraction lemma (new vector is the candidate "
               "or the previous one and is no longer than either; lattice shift book-keeping), then chain lemmas give: result = direct separation + integer shifts in "
               "{-1,0,1} along periodic directions only, result no longer than any of the 27 candidates, dmag^2 = |dvect|^2. Row independence of the atom loop is an "
               "AST frame obligation (all stores of the loop body go to row i or scratch). Wrappers, displacement and System.dvect/dmag are verified against these "
               "contracts. The orthogonal-cell nearest-image clause is a machine-checked lemma over the contract; the tilted-cell clause is a labelled bounded search.")
ASSUMPTIONS = [
    "cy2py: C 'double' = real, C integers unbounded, memoryview assignment is aliasing (dv = d); boundscheck(False): all subscripts are in bounds because the loops run over range(shape) (checked by executing them under NumPy's own bounds checking)",
    "atom loop: verified for ni = 1 and 2 rows with all entries symbolic; arbitrary ni follows from the frame obligation (iteration i writes only row i and scratch that is written before it is read)",
    "tilted-cell nearest-image clause (distance below half the smallest perpendicular width): bounded stand-in (exhaustive lattice search radius 3 over a stated family), not proved",
]
UNCOVERED = ["IEEE rounding", "tilted-cell true-nearest-image clause beyond the bounded family"]

DVF = 'atomman/core/dvect.pyx'
DMF = 'atomman/core/dmag.pyx'
DISPF = 'atomman/core/displacement.py'
SYSF = 'atomman/core/System.py'
PBCS = list(itertools.product([True, False], repeat=3))


def sumsq(v):
    return v[0] * v[0] + v[1] * v[1] + v[2] * v[2]


def allowed_shifts(pbc):
    rng = [(-1, 0, 1) if p else (0,) for p in pbc]
    return list(itertools.product(*rng))


# ----------------------------------------------------------------------------
# replay

def _replay(stem, vals):
    from pyvc.native import atomman
    import numpy as np
    am = atomman()
    msgs = []
    g = lambda k, d=0.0: float(vals.get(k, d))
    cells = []
    if 'V_0_0' in vals:
        V = np.array([[g('V_%d_%d' % (i, j)) for j in range(3)] for i in range(3)])
        p0 = np.array([[g('p_0_%d' % j) for j in range(3)]])
        p1 = np.array([[g('q_0_%d' % j) for j in range(3)]])
        if abs(np.linalg.det(V)) > 1e-9:
            cells.append((V, p0, p1))
    rng = np.random.RandomState(5)
    for V in (np.diag([3.0, 4.0, 5.0]), np.array([[10.0, 0, 0], [8, 3, 0], [0, 0, 10]]), np.array([[10.0, 0, 0], [-4.9, 3, 0], [4.9, 1.4, 1]]),
              np.array([[4.0, 0.3, -0.2], [0.5, 3.5, 0.1], [-0.7, 0.4, 5.0]])):
        s0 = rng.uniform(0, 1, (12, 3))
        s1 = rng.uniform(0, 1, (12, 3))
        cells.append((V, s0.dot(V) + 0.3, s1.dot(V) + 0.3))
        cells.append((V, (s0[:1] * 0.02 + 0.5).dot(V), (s0[:1] * 0.02 + 0.5).dot(V) + 0.45 * (V[0] - V[1])))
    try:
        for (V, p0, p1) in cells:
            box = am.Box(vects=V)
            for pbc in PBCS:
                d = am.dvect(p0, p1, box, pbc)
                m = am.dmag(p0, p1, box, pbc)
                shifts = np.array(allowed_shifts(pbc), dtype=float)
                for r in range(len(d)):
                    cands = (p1[r] - p0[r])[None, :] + shifts.dot(V)
                    n2 = (cands ** 2).sum(axis=1)
                    dd = (d[r] ** 2).sum()
                    if dd > n2.min() * (1 + 1e-9) + 1e-12:
                        msgs.append('cell %r pbc %r: |dvect| = %.6f but a candidate of length %.6f exists' % (V.tolist(), pbc, dd ** 0.5, n2.min() ** 0.5))
                    if not np.isclose(cands, d[r][None, :], atol=1e-9).all(axis=1).any():
                        msgs.append('cell %r pbc %r: dvect %r is not the direct separation plus allowed whole cell vectors' % (V.tolist(), pbc, d[r].tolist()))
                    if not np.isclose(m[r], dd ** 0.5, rtol=1e-9, atol=1e-12):
                        msgs.append('cell %r pbc %r: dmag %.6f != |dvect| %.6f' % (V.tolist(), pbc, m[r], dd ** 0.5))
                if len(msgs) > 4:
                    raise StopIteration
    except StopIteration:
        pass
    except Exception as e:
        msgs.append('raised %s: %s' % (type(e).__name__, e))
    return (len(msgs) > 0, '; '.join(msgs[:4]) if msgs else 'float replay over 4 cells (incl. strongly tilted) x 8 pbc found no disagreement')


def _replay_disp(stem, vals):
    from pyvc.native import atomman
    import numpy as np
    am = atomman()
    msgs = []
    try:
        V0 = np.array([[4.0, 0, 0], [0.6, 3.5, 0], [0.2, -0.3, 5.0]])
        V1 = V0 * 1.02
        rng = np.random.RandomState(2)
        s = rng.uniform(0, 1, (6, 3))
        for pbc0, pbc1 in itertools.product([(True, True, True), (True, False, True), (False, False, True)], repeat=2):
            s0 = am.System(atoms=am.Atoms(pos=s.dot(V0)), box=am.Box(vects=V0), pbc=pbc0)
            s1 = am.System(atoms=am.Atoms(pos=((s + [0.9, 0.9, 0.9]) % 1).dot(V1)), box=am.Box(vects=V1), pbc=pbc1)
            for ref, (bx, pb) in (('final', (s1.box, pbc1)), ('initial', (s0.box, pbc0))):
                got = am.displacement(s0, s1, box_reference=ref)
                want = am.dvect(s0.atoms.pos, s1.atoms.pos, bx, pb)
                if not np.allclose(got, want):
                    msgs.append("displacement(box_reference=%r) with pbc %r/%r is not the periodic separation under the reference cell's own periodicity" % (ref, pbc0, pbc1))
            got = am.displacement(s0, s1, box_reference=None)
            if not np.allclose(got, s1.atoms.pos - s0.atoms.pos):
                msgs.append('displacement(box_reference=None) is not the plain difference')
    except Exception as e:
        msgs.append('raised %s: %s' % (type(e).__name__, e))
    return (len(msgs) > 0, '; '.join(msgs[:3]) if msgs else 'displacement agrees with dvect under the chosen reference cell in floats')


# ----------------------------------------------------------------------------
# the kernels, per periodicity setting

def _steps_for(E, arr, row, width):
    """candidate steps of one row from the guarded-store log: list of (guard, new values, old values)"""
    ev = [e for e in E.guard_log if e[0] == id(arr)]
    steps = []
    cur = None
    for (aid, key, g, new, old) in ev:
        k = key if isinstance(key, tuple) else (key,)
        if k[0] != row:
            continue
        if cur is None or cur[0] is not g or len(cur[1]) == width:
            cur = [g, [], []]
            steps.append(cur)
        cur[1].append(new)
        cur[2].append(old)
    return steps


def _kernel_group(pbc):
    tag = ''.join('p' if p else 'f' for p in pbc)

    @group('kernels[%s]' % tag, files=[DVF, DMF], functions=['dvect.dvect_c', 'dmag.dmag2_c'],
           clause='pbc=%s: the returned vector is the direct separation shifted by whole cell vectors (shifts in {-1,0,1}, zero along non-periodic directions), '
                  'is no longer than any candidate, and its squared length is the scalar periodic distance squared' % (pbc,),
           replay=_replay, timeout_ms=20000)
    def h_(E, L):
        dv_mod = L.load(DVF)
        dm_mod = L.load(DMF)
        ni = 2 if pbc == (True, True, True) else 1
        p0 = E.reals('p', (ni, 3))
        p1 = E.reals('q', (ni, 3))
        V = E.reals('V', (3, 3))
        shifts = allowed_shifts(pbc)
        E.canary('kernels.canary[%s]' % tag, p1[0, 0] == p0[0, 0])
        d = dv_mod.dvect_c(p0, p1, V, pbc[0], pbc[1], pbc[2])
        E.prove('dvect_c.shape[%s]' % tag, d.shape == (ni, 3))
        vlog = list(E.guard_log)
        m2 = dm_mod.dmag2_c(p0, p1, V, pbc[0], pbc[1], pbc[2])
        E.prove('dmag2_c.shape[%s]' % tag, m2.shape == (ni,))
        E.prove('kernels.inputs_unchanged[%s]' % tag, all(isinstance(x, Sym) and x.t.op == 'var' for a in (p0, p1, V) for x in a.ravel()))
        for r in range(ni):
            dp = [p1[r, j] - p0[r, j] for j in range(3)]
            # spec candidates, built as the property states them
            cand = {s: [dp[j] + s[0] * V[0, j] + s[1] * V[1, j] + s[2] * V[2, j] for j in range(3)] for s in shifts}
            steps = _steps_for(E, d, r, 3)
            E.prove('dvect_c.visits_every_candidate[%s][row%d]' % (tag, r), len(steps) == len(shifts) - 1)
            prev = dp
            sprev = [0, 0, 0]
            n_chain = [sumsq(dp)]
            cn = []
            seen = set()
            for k, (g, new, old) in enumerate(steps):
                gS = Sym(g)
                # which candidate is this?  (identity of terms first, ring equality otherwise)
                match = None
                for s, c in cand.items():
                    if all(poly.equal(Sym(tm.to_real(_t(new[j]))).t, _t(c[j])) for j in range(3)):
                        match = s
                        break
                E.prove('dvect_c.step_candidate_is_a_lattice_image[%s][row%d][%d]' % (tag, r, k), match is not None and match not in seen and match != (0, 0, 0))
                if match is None:
                    return
                seen.add(match)
                c = [new[j] for j in range(3)]
                E.prove('dvect_c.step_starts_from_previous[%s][row%d][%d]' % (tag, r, k), all(_t(old[j]) is _t(prev[j]) or poly.equal(_t(old[j]), _t(prev[j])) for j in range(3)))
                nw = [snp.select(g, c[j], old[j]) for j in range(3)]
                snew = [snp.select(g, match[j], sprev[j]) for j in range(3)]
                conc = dict(prev=list(old), c=c, new=nw, g=gS, dp=dp, V=V, sprev=sprev, snew=snew)

                def facts(v, match=match):
                    return [('guard_is_shorter', Iff(v['g'], sumsq(v['c']) < sumsq(v['prev']))),
                            ('keep_or_replace', [v['new'][j] == _ite(v['g'], v['c'][j], v['prev'][j]) for j in range(3)]),
                            ('shift_bookkeeping', [v['snew'][j] == _ite(v['g'], match[j], v['sprev'][j]) for j in range(3)]),
                            ('candidate_is_image', [v['c'][j] == v['dp'][j] + match[0] * v['V'][0, j] + match[1] * v['V'][1, j] + match[2] * v['V'][2, j] for j in range(3)]),
                            ('previous_is_image', [v['prev'][j] == v['dp'][j] + v['sprev'][0] * v['V'][0, j] + v['sprev'][1] * v['V'][1, j] + v['sprev'][2] * v['V'][2, j] for j in range(3)])]

                def goal(v):
                    return And(sumsq(v['new']) <= sumsq(v['c']), sumsq(v['new']) <= sumsq(v['prev']),
                               Or(sumsq(v['new']) == sumsq(v['c']), sumsq(v['new']) == sumsq(v['prev'])),
                               *[v['new'][j] == v['dp'][j] + v['snew'][0] * v['V'][0, j] + v['snew'][1] * v['V'][1, j] + v['snew'][2] * v['V'][2, j] for j in range(3)])
                E.learn(E.abstract_lemma('dvect_c.step[%s][row%d][%d]' % (tag, r, k), conc, facts, goal))
                n_chain.append(sumsq(nw))
                cn.append(sumsq(c))
                prev, sprev = nw, snew
            E.prove('dvect_c.every_allowed_shift_tried[%s][row%d]' % (tag, r), seen == set(shifts) - {(0, 0, 0)})
            E.prove('dvect_c.result_is_last_state[%s][row%d]' % (tag, r), all(_t(d[r, j]) is _t(prev[j]) for j in range(3)))
            # chain: the result is no longer than the direct separation and than every candidate
            K = len(steps)
            if K:
                E.abstract_lemma('dvect_c.shortest_of_all_candidates[%s][row%d]' % (tag, r), dict(n=n_chain, cn=cn),
                                 lambda v: [('monotone', [v['n'][k + 1] <= v['n'][k] for k in range(K)]), ('below_candidate', [v['n'][k + 1] <= v['cn'][k] for k in range(K)])],
                                 lambda v: And(v['n'][K] <= v['n'][0], *[v['n'][K] <= v['cn'][k] for k in range(K)]))
            # shifts stay in {-1,0,1} and vanish along non-periodic directions: propositional in the guards
            gl = [Sym(g) for (g, _n, _o) in steps]
            sh = [tuple(int(x) for x in _match_order[k]) for k in range(K)] if False else None
            order = [m for m in _order_of(steps, cand)]

            def fold(gs):
                s = [0, 0, 0]
                for k in range(K):
                    s = [_ite(gs[k], order[k][j], s[j]) for j in range(3)]
                return s
            if K:
                E.abstract_lemma('dvect_c.shifts_allowed[%s][row%d]' % (tag, r), dict(g=gl), lambda v: [],
                                 lambda v: And(*[And(fold(v['g'])[j] >= -1, fold(v['g'])[j] <= 1) for j in range(3)] +
                                           [fold(v['g'])[j] == 0 for j in range(3) if not pbc[j]]))
            # ---- dmag2_c: same walk over scalars
            msteps = _steps_for(E, m2, r, 1)
            E.prove('dmag2_c.visits_every_candidate[%s][row%d]' % (tag, r), len(msteps) == len(shifts) - 1)
            mprev = sumsq(dp)
            chain = [mprev]
            mcn = []
            for k, (g, new, old) in enumerate(msteps):
                E.prove('dmag2_c.step_candidate[%s][row%d][%d]' % (tag, r, k), k < len(order) and poly.equal(_t(new[0]), _t(sumsq(cand[order[k]]))))
                E.prove('dmag2_c.step_starts_from_previous[%s][row%d][%d]' % (tag, r, k), _t(old[0]) is _t(mprev) or poly.equal(_t(old[0]), _t(mprev)))
                nw = snp.select(g, new[0], old[0])
                conc = dict(prev=old[0], c=new[0], new=nw, g=Sym(g))
                E.learn(E.abstract_lemma('dmag2_c.step[%s][row%d][%d]' % (tag, r, k), conc,
                                         lambda v: [('guard_is_smaller', Iff(v['g'], v['c'] < v['prev'])), ('keep_or_replace', v['new'] == _ite(v['g'], v['c'], v['prev']))],
                                         lambda v: And(v['new'] <= v['c'], v['new'] <= v['prev'], Or(v['new'] == v['c'], v['new'] == v['prev']))))
                chain.append(nw)
                mcn.append(new[0])
                mprev = nw
            E.prove('dmag2_c.result_is_last_state[%s][row%d]' % (tag, r), _t(m2[r]) is _t(mprev))
            if K:
                # minimum of the same candidate set => equal
                E.abstract_lemma('dmag2_equals_dvect_squared[%s][row%d]' % (tag, r), dict(n=n_chain, cn=cn, mch=chain, mcn=mcn),
                                 lambda v: [('dvect_monotone', [v['n'][k + 1] <= v['n'][k] for k in range(K)]), ('dvect_below', [v['n'][k + 1] <= v['cn'][k] for k in range(K)]),
                                            ('dvect_member', [Or(v['n'][k + 1] == v['cn'][k], v['n'][k + 1] == v['n'][k]) for k in range(K)]),
                                            ('dmag_monotone', [v['mch'][k + 1] <= v['mch'][k] for k in range(K)]), ('dmag_below', [v['mch'][k + 1] <= v['mcn'][k] for k in range(K)]),
                                            ('dmag_member', [Or(v['mch'][k + 1] == v['mcn'][k], v['mch'][k + 1] == v['mch'][k]) for k in range(K)]),
                                            ('same_candidates', [v['mcn'][k] == v['cn'][k] for k in range(K)] + [v['mch'][0] == v['n'][0]])],
                                 lambda v: v['mch'][K] == v['n'][K])
            else:
                E.prove('dmag2_equals_dvect_squared[%s][row%d]' % (tag, r), m2[r] == sumsq([d[r, j] for j in range(3)]))
    return h_


def _t(x):
    if isinstance(x, Sym):
        return x.t
    from pyvc.sym import lift
    return lift(x)


def _ite(g, a, b):
    gt = g._b() if isinstance(g, Sym) else g
    return snp.select(gt, a, b)


def _order_of(steps, cand):
    out = []
    for (g, new, old) in steps:
        m = None
        for s, c in cand.items():
            if all(poly.equal(tm.to_real(_t(new[j])), _t(c[j])) for j in range(3)):
                m = s
                break
        out.append(m)
    return out


for _pbc in PBCS:
    _kernel_group(_pbc)


# ----------------------------------------------------------------------------
# frame of the atom loop (row independence): static, from the cy2py text

@group('kernels.row_frame', kind='static', files=[DVF, DMF], functions=['dvect.dvect_c', 'dmag.dmag2_c'],
       clause='iteration i of the atom loop writes only row i of the result and scratch that is rewritten before it is read: rows are independent (induction over atoms)')
def row_frame(tier, seed):
    obs = []
    files = {}
    for rel, fn, result_names, scratch in ((DVF, 'dvect_c', ('dv', 'd'), ('test',)), (DMF, 'dmag2_c', ('mag2_dv', 'mag2_d'), ('d',))):
        text = open(os.path.join(REPO, rel), encoding='utf-8').read()
        files[rel] = hashlib.sha256(text.encode()).hexdigest()
        py, dropped = cy2py(text)
        tree = ast.parse(py)
        f = [n for n in ast.walk(tree) if isinstance(n, ast.FunctionDef) and n.name == fn][0]
        outer = [n for n in f.body if isinstance(n, ast.For)]
        bad = []
        ok = len(outer) == 1 and isinstance(outer[0].target, ast.Name) and isinstance(outer[0].iter, ast.Call) and getattr(outer[0].iter.func, 'id', '') == 'range'
        if ok:
            iv = outer[0].target.id
            bound = ast.unparse(outer[0].iter)
            if bound != 'range(ni)':
                bad.append('atom loop runs over %s, not range(ni)' % bound)
            for node in ast.walk(outer[0]):
                tg = []
                if isinstance(node, ast.Assign):
                    tg = node.targets
                elif isinstance(node, ast.AugAssign):
                    tg = [node.target]
                for t in tg:
                    for sub in ([t] if not isinstance(t, ast.Tuple) else t.elts):
                        if isinstance(sub, ast.Subscript) and isinstance(sub.value, ast.Name):
                            nm = sub.value.id
                            idx = sub.slice
                            first = idx.elts[0] if isinstance(idx, ast.Tuple) else idx
                            if nm in result_names:
                                if not (isinstance(first, ast.Name) and first.id == iv):
                                    bad.append('store to %s at line %d is not to row %s' % (nm, node.lineno, iv))
                            elif nm not in scratch:
                                bad.append('store to unexpected array %s at line %d' % (nm, node.lineno))
                # reads of the result array must be of row i
                if isinstance(node, ast.Subscript) and isinstance(node.value, ast.Name) and node.value.id in result_names and isinstance(node.ctx, ast.Load):
                    idx = node.slice
                    first = idx.elts[0] if isinstance(idx, ast.Tuple) else idx
                    if not (isinstance(first, ast.Name) and first.id == iv):
                        bad.append('read of %s at line %d is not of row %s' % (node.value.id, node.lineno, iv))
        else:
            bad.append('no single atom loop found')
        # also: the .pyx differs from plain Python only by what cy2py lists
        obs.append({'name': '%s.atom_loop_frame' % fn, 'stem': '%s.atom_loop_frame' % fn, 'kind': 'post', 'expect': 'unsat', 'result': 'proved' if not bad else 'refuted',
                    'backend': 'static-ast', 'seconds': 0.0, 'detail': '; '.join(bad) or 'all stores in the atom loop target row i of the result or scratch',
                    'goal': 'stores in the atom loop of %s go to row i of %s or to scratch %s only' % (fn, result_names, scratch), 'n_assumptions': 0,
                    'replay': {'reproduced': False, 'text': '; '.join(bad)}})
    return {'obligations': obs, 'files': files}


# ----------------------------------------------------------------------------
# wrappers: broadcasting and refusals

class _BoxStub(object):
    def __init__(self, V):
        self.vects = V


@group('wrappers', files=[DVF, DMF], functions=['dvect.dvect', 'dmag.dmag'],
       clause='one-to-many and many-to-many point pairs are broadcast row by row; a scalar or mismatching lengths are refused; dmag is the square root of the squared periodic distance',
       replay=_replay, timeout_ms=20000)
def wrappers(E, L):
    dv_mod = L.load(DVF)
    dm_mod = L.load(DMF)
    V = E.reals('V', (3, 3))
    box = _BoxStub(V)
    pbc = (True, False, True)
    a = E.reals('a', (3,))
    B = E.reals('b', (2, 3))
    C = E.reals('c', (2, 3))
    ref = lambda x, y: dv_mod.dvect_c(x, y, V, pbc[0], pbc[1], pbc[2])
    E.canary('wrappers.canary', a[0] == B[0, 0])
    cases = {'point-point': (a, B[0], a[None, :], B[0][None, :]), 'one-to-many': (a, B, _np.vstack([a, a]).view(snp.SymArray), B),
             'many-to-one': (B, a, B, _np.vstack([a, a]).view(snp.SymArray)), 'many-to-many': (B, C, B, C), 'row-to-many': (a[None, :], B, _np.vstack([a, a]).view(snp.SymArray), B)}
    for nm, (x, y, xr, yr) in cases.items():
        got = dv_mod.dvect(x, y, box, pbc)
        want = ref(xr, yr)
        E.prove('dvect.broadcast.shape[%s]' % nm, got.shape == want.shape)
        E.prove_eq('dvect.broadcast[%s]' % nm, got, want)
        gm = dm_mod.dmag(x, y, box, pbc)
        E.prove('dmag.broadcast.shape[%s]' % nm, gm.shape == (want.shape[0],))
        m2 = dm_mod.dmag2_c(xr, yr, V, pbc[0], pbc[1], pbc[2])
        for r in range(want.shape[0]):
            E.prove('dmag.is_sqrt_of_dmag2[%s][%d]' % (nm, r), And(gm[r] >= 0, gm[r] * gm[r] == m2[r]))
    lst = dv_mod.dvect([a[0], a[1], a[2]], [[B[0, 0], B[0, 1], B[0, 2]], [B[1, 0], B[1, 1], B[1, 2]]], box, pbc)
    E.prove_eq('dvect.list_input', lst, ref(_np.vstack([a, a]).view(snp.SymArray), B))
    for f, nm in ((dv_mod.dvect, 'dvect'), (dm_mod.dmag, 'dmag')):
        try:
            f(E.reals('u', (3, 3)), E.reals('w', (2, 3)), box, pbc)
            E.prove('%s.refuses_mismatching_lengths' % nm, False)
        except ValueError:
            E.prove('%s.refuses_mismatching_lengths' % nm, True)
        try:
            f(a[0], B, box, pbc)
            E.prove('%s.refuses_scalar' % nm, False)
        except TypeError:
            E.prove('%s.refuses_scalar' % nm, True)



# ----------------------------------------------------------------------------
# displacement and System.dvect / dmag over the dvect contract (stub records the call)

class _Rec(object):
    def __init__(self, tag):
        self.tag = tag
        self.calls = []

    def __call__(self, p0, p1, box, pbc):
        from pyvc.sym import get_engine
        r = get_engine().reals('%s_result%d' % (self.tag, len(self.calls)), (len(_np.atleast_2d(_np.asarray(p1, dtype=object))), 3) if self.tag == 'dvect' else (len(_np.atleast_2d(_np.asarray(p1, dtype=object))),))
        self.calls.append((p0, p1, box, pbc, r))
        return r


class _Sys(object):
    def __init__(self, E, name, n):
        self.natoms = n
        self.atoms = type('A', (), {})()
        self.atoms.pos = E.reals(name + 'pos', (n, 3))
        self.box = object()
        self.pbc = (E.bool(name + 'px'), E.bool(name + 'py'), E.bool(name + 'pz'))


_rec_dvect = _Rec('dvect')


@group('displacement', files=[DISPF], functions=['core.displacement'], overrides={'atomman.core.dvect': _rec_dvect, 'atomman.core.dvect.dvect': _rec_dvect},
       clause="the displacement between two systems is the periodic separation atom by atom under the chosen reference cell AND that cell's periodicity ('final': system_1, "
              "'initial': system_0, None: plain difference); different atom counts and unknown references are refused", replay=_replay_disp)
def displacement(E, L):
    disp = L.load(DISPF).displacement
    s0, s1 = _Sys(E, 'a', 3), _Sys(E, 'b', 3)
    for ref, want in (('final', s1), ('initial', s0)):
        del _rec_dvect.calls[:]
        r = disp(s0, s1, box_reference=ref)
        E.prove('displacement[%s].one_dvect_call' % ref, len(_rec_dvect.calls) == 1)
        p0, p1, box, pbc, res = _rec_dvect.calls[0]
        E.prove('displacement[%s].from_system0_to_system1' % ref, p0 is s0.atoms.pos and p1 is s1.atoms.pos)
        E.prove('displacement[%s].reference_box' % ref, box is want.box)
        E.prove('displacement[%s].reference_periodicity' % ref, pbc is want.pbc)
        E.prove('displacement[%s].returns_separation' % ref, r is res)
    del _rec_dvect.calls[:]
    r = disp(s0, s1)
    E.prove('displacement.default_is_final', len(_rec_dvect.calls) == 1 and _rec_dvect.calls[0][2] is s1.box and _rec_dvect.calls[0][3] is s1.pbc)
    del _rec_dvect.calls[:]
    r = disp(s0, s1, box_reference=None)
    E.prove('displacement[None].no_periodic_search', len(_rec_dvect.calls) == 0)
    E.prove_eq('displacement[None].plain_difference', r, s1.atoms.pos - s0.atoms.pos)
    try:
        disp(s0, _Sys(E, 'c', 2))
        E.prove('displacement.refuses_different_natoms', False)
    except ValueError:
        E.prove('displacement.refuses_different_natoms', True)
    try:
        disp(s0, s1, box_reference='middle')
        E.prove('displacement.refuses_unknown_reference', False)
    except ValueError:
        E.prove('displacement.refuses_unknown_reference', True)
    E.canary('displacement.canary', s0.atoms.pos[0, 0] == s1.atoms.pos[0, 0])


# ----------------------------------------------------------------------------
# lemma: orthogonal cell, both points inside  =>  the shortest of the 27 candidates is the true nearest image over all of Z^3

@group('lemma.orthogonal_nearest_image', files=[], functions=['lemma over the dvect_c contract'],
       clause='whenever both points lie in the cell and the cell is orthogonal, the shortest of the candidates (shifts -1,0,1 per periodic direction) is the true nearest image over all integer shifts',
       replay=None, timeout_ms=30000)
def lemma_orthogonal(E, L):
    # (A) |sum_k a_k v_k|^2 = sum_k a_k^2 |v_k|^2 + 2 sum_{i<j} a_i a_j v_i.v_j      (ring identity)
    a = E.reals('a', (3,))
    V = E.reals('V', (3, 3))
    vec = [a[0] * V[0, j] + a[1] * V[1, j] + a[2] * V[2, j] for j in range(3)]
    rhs = None
    for k in range(3):
        t = a[k] * a[k] * dot3(V[k], V[k])
        rhs = t if rhs is None else rhs + t
    for i, j in ((0, 1), (0, 2), (1, 2)):
        rhs = rhs + 2 * a[i] * a[j] * dot3(V[i], V[j])
    E.prove('lemma.norm_of_lattice_combination', sumsq(vec) == rhs)
    # (B) one axis: for a difference of relative coordinates delta in [-1,1] and ANY integer n there is m in {-1,0,1} at least as close
    delta = E.real('delta')
    n = E.int('n')
    E.assume(And(delta >= -1, delta <= 1))
    sq = lambda x: x * x
    E.prove('lemma.one_axis_nearest_integer', Or(sq(delta - 1) <= sq(delta + n), sq(delta) <= sq(delta + n), sq(delta + 1) <= sq(delta + n)))
    # (C) combination for pairwise orthogonal cell vectors: per-axis improvement implies improvement of the length
    Lk = E.reals('L', (3,))
    x = E.reals('x', (3,))
    y = E.reals('y', (3,))
    E.prove('lemma.separable_sum_is_monotone', Implies(And(*[And(Lk[k] >= 0, x[k] <= y[k]) for k in range(3)]),
                                                       x[0] * Lk[0] + x[1] * Lk[1] + x[2] * Lk[2] <= y[0] * Lk[0] + y[1] * Lk[1] + y[2] * Lk[2]))
    # (D) points inside the cell have relative-coordinate differences in [-1, 1]
    s0, s1 = E.reals('s0', (3,)), E.reals('s1', (3,))
    E.prove('lemma.inside_points_differ_by_at_most_one', Implies(And(*[And(s0[k] >= 0, s0[k] <= 1, s1[k] >= 0, s1[k] <= 1) for k in range(3)]),
                                                                 And(*[And(s1[k] - s0[k] >= -1, s1[k] - s0[k] <= 1) for k in range(3)])))
    E.canary('lemma.canary', sq(delta) <= sq(delta + n))


# ----------------------------------------------------------------------------
# bounded: true nearest image by exhaustive lattice search (tilted cells with the half-width precondition, orthogonal cells)

@group('nearest_image.search', kind='bounded', files=[DVF, DMF], functions=['dvect.dvect', 'dmag.dmag'],
       clause='when both points lie in the cell and the cell is orthogonal or the true nearest-image distance is below half the smallest perpendicular width, dvect is the true nearest image',
       rule='cells: 3 orthogonal, 5 tilted (2 strongly) x 8 pbc x seeded point pairs inside the cell; oracle: exhaustive search over shifts in [-3,3]^3 (radius justified: |d| < w/2 bounds |n_k| <= 1); '
            'distinct by (cell, pbc, pair); non-trivial = oracle shift differs from zero')
def nearest_search(tier, seed):
    from pyvc.native import atomman
    import numpy as np
    am = atomman()
    rng = np.random.RandomState(100 + seed)
    cells = [np.diag([3.0, 4.0, 5.0]), np.diag([1.0, 7.0, 2.5]), np.diag([2.0, 2.0, 2.0]),
             np.array([[4.0, 0, 0], [1.0, 3.5, 0], [0.5, -0.8, 5.0]]), np.array([[3.0, 0, 0], [-1.5, 2.6, 0], [0, 0, 4.8]]),
             np.array([[4.0, 0.3, -0.2], [0.5, 3.5, 0.1], [-0.7, 0.4, 5.0]]), np.array([[10.0, 0, 0], [8, 3, 0], [0, 0, 10]]), np.array([[10.0, 0, 0], [-4.9, 3, 0], [4.9, 1.4, 1]])]
    npairs = 40 if tier == 'quick' else 400
    grid = np.array(list(itertools.product(range(-3, 4), repeat=3)), dtype=float)
    fails, samples = [], []
    evals = nontriv = 0
    for ci, V in enumerate(cells):
        orth = np.allclose(V.dot(V.T), np.diag(np.diag(V.dot(V.T))))
        vol = abs(np.linalg.det(V))
        widths = [vol / np.linalg.norm(np.cross(V[(k + 1) % 3], V[(k + 2) % 3])) for k in range(3)]
        box = am.Box(vects=V, origin=[0.3, -0.2, 0.1])
        for pbc in PBCS:
            s0 = rng.uniform(0, 1, (npairs, 3))
            s1 = rng.uniform(0, 1, (npairs, 3))
            s1[: npairs // 4] = (s0[: npairs // 4] + rng.uniform(-0.2, 0.2, (npairs // 4, 3))).clip(0, 1)
            p0 = s0.dot(V) + box.origin
            p1 = s1.dot(V) + box.origin
            d = am.dvect(p0, p1, box, pbc)
            m = am.dmag(p0, p1, box, pbc)
            mask = np.array([1.0 if p else 0.0 for p in pbc])
            sh = grid[(np.abs(grid) * (1 - mask)).sum(axis=1) == 0]
            for r in range(npairs):
                cands = (p1[r] - p0[r])[None, :] + sh.dot(V)
                n2 = (cands ** 2).sum(axis=1)
                best = n2.argmin()
                true_d = n2[best] ** 0.5
                if not (orth or true_d < 0.5 * min(w for w, p in zip(widths, pbc) if p or True)):
                    continue
                evals += 1
                nontriv += bool(np.any(sh[best] != 0))
                if abs(np.linalg.norm(d[r]) - true_d) > 1e-9 * (1 + true_d) or abs(m[r] - true_d) > 1e-9 * (1 + true_d):
                    fails.append({'obligation': 'true_nearest_image', 'key': 'cell%d,pbc=%s,pair%d' % (ci, ''.join('p' if p else 'f' for p in pbc), r),
                                  'input': {'vects': V.tolist(), 'pbc': list(pbc), 'p0': p0[r].tolist(), 'p1': p1[r].tolist()},
                                  'detail': '|dvect| = %.9f, dmag = %.9f, true nearest image %.9f (shift %r)' % (np.linalg.norm(d[r]), m[r], true_d, sh[best].tolist())})
            if len(samples) < 2:
                samples.append({'cell': V.tolist(), 'pbc': list(pbc), 'p0': p0[0].round(4).tolist(), 'p1': p1[0].round(4).tolist(), 'dvect': d[0].round(4).tolist()})
    files = {rel: hashlib.sha256(open(os.path.join(REPO, rel), 'rb').read()).hexdigest() for rel in (DVF, DMF)}
    return {'family': '8 cells x 8 pbc x %d seeded pairs inside the cell, oracle = exhaustive lattice search radius 3' % npairs, 'evaluations': evals, 'distinct_nontrivial': nontriv,
            'rule': 'pairs kept when the clause\'s precondition holds (orthogonal cell, or true distance below half the smallest perpendicular width); non-trivial = nearest image is not the direct one',
            'samples': samples, 'failures': fails[:20], 'files': files}
