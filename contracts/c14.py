"""C14 — Surface and stacking-fault cells cut the right plane, between atomic layers."""
import itertools
from fractions import Fraction

import numpy as _np

from pyvc.runner import group, REPO
from pyvc import symnp as snp, terms as tm
from pyvc.sym import Sym, realconst
from .common import det3, dot3, cross3, And, Or, Not, Implies, Iff, sym_abs, arb_box
from .c16 import _fresh_vars, ZERO_PATTERNS

LEVEL = 'other'
EXPLANATION = ("free_surface_basis is executed from the real source with SYMBOLIC integer plane indices (all seven zero patterns) and a symbolic right-handed cell up to the point where the "
               "search over candidate vectors starts (ghost capture of the intermediate values, then stop): the two initial in-plane vectors from the lcm construction satisfy the zone "
               "law exactly and the sign-corrected normal is a positive multiple of h a* + k b* + l c*, hence perpendicular to exactly the lattice vectors with hu+kv+lw = 0. "
               "FreeSurface.surface and StackingFault.fault / fault-position setters are executed on symbolic atoms with callee contracts (supersize C04, wrap C05): multipliers from "
               "minimum width / even, the requested shift (every index incl. 0), periodicity off across the cut only, vacuum added along the cut with atoms untouched, surface area; "
               "the fault plane position from relative or Cartesian input refers to the built system's cell, the above-fault mask is exactly 'coordinate above the plane', atoms below "
               "stay, atoms above move by a1 a1vect + a2 a2vect + outofplane (or the given vector) modulo periodic cell vectors, the stored system is not modified. "
               "The candidate searches (np.isclose over enumerated integer vectors), layer detection and real-crystal behaviour are a labelled bounded contract family: exhaustive over "
               "plane indices within a bound in cells of all seven crystal families.")
ASSUMPTIONS = ["numpy lcm/gcd: assumed contract (m is a positive common multiple; quotients exact)",
               "callee contracts used as stubs in the generator proofs: System.supersize (C04), System.wrap (C05)",
               "3 atoms in the symbolic generator proofs (per-atom arithmetic is uniform)"]
UNCOVERED = ["candidate-vector searches of free_surface_basis for cells/planes outside the bounded family", "FreeSurface.unique_shifts (needs spglib; not named by the property)",
             "minimum_r push of fault() beyond the bounded family"]

FSB = 'atomman/defect/free_surface_basis.py'
FSF = 'atomman/defect/FreeSurface.py'
SFF = 'atomman/defect/StackingFault.py'
SYSF = 'atomman/core/System.py'
BOXF = 'atomman/core/Box.py'
MILLER = 'atomman/tools/miller.py'

VECTS = [[4.0, 0, 0], [1.0, 5.0, 0], [0.5, -0.5, 6.0]]
ORIGIN = [-2.0, -3.0, -1.0]


class _Stop(Exception):
    pass


class _NPProxy(object):
    """NumPy facade with ghost capture (semantics unchanged) and an optional stop at the first norm() call"""
    def __init__(self, captured, stop_at_norm=False):
        self._c = captured
        outer = self

        class _LA(object):
            def __getattr__(self, k):
                return getattr(snp.linalg, k)

            def norm(self, a, *args, **kw):
                if stop_at_norm:
                    raise _Stop()
                return snp.linalg.norm(a, *args, **kw)
        self.linalg = _LA()

    def __getattr__(self, k):
        return getattr(snp, k)

    def cross(self, a, b, *args, **kw):
        r = snp.cross(a, b, *args, **kw)
        self._c.setdefault('cross', []).append((snp.asarray(a).copy(), snp.asarray(b).copy(), snp.asarray(r).copy()))
        return r


def _replay(stem, vals):
    from pyvc.native import atomman
    from . import c14_family as fam
    am = atomman()
    msgs = []
    try:
        for case in fam.replay_cases():
            msgs += ['%s: %s' % (case['key'], m) for m in fam.check_case(am, case) if not m.startswith('REFUSED')]
    except Exception as e:
        msgs.append('raised %s: %s' % (type(e).__name__, e))
    return (len(msgs) > 0, '; '.join(msgs[:3]) if msgs else 'float replay of the surface / fault contracts on real crystals found no disagreement')


# ----------------------------------------------------------------------------
# free_surface_basis: lcm construction and plane normal

def _basis_normal_group(pat):
    tag = ''.join('x' if p else '0' for p in pat)

    @group('basis.plane_normal[%s]' % tag, files=[FSB, MILLER], functions=['free_surface_basis'],
           clause='free_surface_basis, integer plane indices with zero pattern %s (non-zero entries arbitrary integers), arbitrary right-handed cell: the two initial in-plane vectors of the '
                  'lcm construction are integer and satisfy hu+kv+lw = 0; the sign-corrected normal is a positive multiple of h a* + k b* + l c*, so a lattice vector is perpendicular to '
                  'it exactly when it satisfies the zone law' % tag, replay=_replay, timeout_ms=30000)
    def h_(E, L):
        mod = L.load(FSB)
        Box = L.load(BOXF).Box
        box, V, o = arb_box(E, Box)
        names = 'hkl'
        idx = []
        for k in range(3):
            if pat[k]:
                x = E.int(names[k])
                E.assume(x != 0)
                idx.append(x)
            else:
                idx.append(0)
        nz = [k for k in range(3) if pat[k]]
        a, b, c = V[0], V[1], V[2]
        bc, ca, ab = cross3(b, c), cross3(c, a), cross3(a, b)
        det = det3(V)
        G = snp.array([idx[0] * bc[j] + idx[1] * ca[j] + idx[2] * ab[j] for j in range(3)])     # det * (h a* + k b* + l c*)
        c1 = idx[nz[0]]
        for k in nz[1:]:
            c1 = c1 * idx[k]
        E.canary('basis.plane_normal.canary[%s]' % tag, idx[nz[0]] == 1)
        captured = {}
        real_np, real_v2c = mod.np, mod.vector_crystal_to_cartesian

        def v2c(uvw, bx):
            captured.setdefault('uvw', []).append(snp.asarray(uvw).copy())
            return real_v2c(uvw, bx)
        mod.np = _NPProxy(captured, stop_at_norm=True)
        mod.vector_crystal_to_cartesian = v2c
        stopped = False
        try:
            mod.free_surface_basis(idx, box=box, maxindex=3, return_planenormal=True)
        except _Stop:
            stopped = True
        finally:
            mod.np = real_np
            mod.vector_crystal_to_cartesian = real_v2c
        E.prove('basis.plane_normal.reached_search[%s]' % tag, stopped and len(captured.get('cross', [])) == 1 and len(captured.get('uvw', [])) >= 2)
        a_uvw, b_uvw = captured['uvw'][0], captured['uvw'][1]
        a_cart, b_cart, raw = captured['cross'][0]
        # the initial in-plane vectors: integer, zone law, and the cross product was taken of their Cartesian images
        for nm, uvw, cart in (('a', a_uvw, a_cart), ('b', b_uvw, b_cart)):
            E.prove('basis.initial_vector_zone_law[%s][%s]' % (tag, nm), idx[0] * uvw[0] + idx[1] * uvw[1] + idx[2] * uvw[2] == 0)
            for j in range(3):
                x = uvw[j]
                E.prove('basis.initial_vector_integer[%s][%s][%d]' % (tag, nm, j), (x == snp.floor(x)) if isinstance(x, Sym) else float(x) == int(x))
            for j in range(3):
                E.prove('basis.initial_vector_cartesian[%s][%s][%d]' % (tag, nm, j), cart[j] == uvw[0] * V[0, j] + uvw[1] * V[1, j] + uvw[2] * V[2, j])
        E.prove('basis.initial_vectors_independent[%s]' % tag, Or(*[x != 0 for x in cross3(a_uvw, b_uvw)]))
        # planenormal = s * raw, s = sign of the product of the non-zero indices
        ms = _fresh_vars(E, 'lcm')
        m = Sym(ms[-1]) if ms else 1
        c2 = m ** (len(nz) - 1) if ms else 1
        s = snp.sign(c1)
        pn = [s * raw[j] for j in range(3)]
        u, v_, w = E.int('u'), E.int('v'), E.int('w')
        vec = snp.array([u * a[j] + v_ * b[j] + w * c[j] for j in range(3)])
        z = idx[0] * u + idx[1] * v_ + idx[2] * w
        p0 = nz[0]
        conc = dict(s=s, c1=c1, c2=c2, G=G, det=det, hp=idx[p0], vp=V[p0], n=snp.array(pn), vec=vec, z=z)

        def facts(v):
            return [('s_unit', v['s'] * v['s'] == 1), ('s_is_sign_of_c1', v['s'] * v['c1'] > 0), ('c2_positive', v['c2'] > 0), ('det_positive', v['det'] > 0),
                    ('hp_nonzero', v['hp'] != 0), ('G_dot_cellvector', dot3(v['G'], v['vp']) == v['hp'] * v['det']),
                    ('normal_is_multiple', [v['c1'] * v['n'][j] == v['s'] * v['c2'] * v['G'][j] for j in range(3)]),
                    ('G_dot_latticevector', dot3(v['G'], v['vec']) == v['det'] * v['z'])]

        def goal(v):
            nxG = cross3(v['n'], v['G'])
            return And(nxG[0] == 0, nxG[1] == 0, nxG[2] == 0, dot3(v['n'], v['G']) > 0, Iff(dot3(v['n'], v['vec']) == 0, v['z'] == 0))
        E.abstract_lemma('basis.normal_is_reciprocal_direction_and_zone_law[%s]' % tag, conc, facts, goal)
    return h_


for _p in ZERO_PATTERNS:
    _basis_normal_group(_p)


@group('basis.refusals', files=[FSB], functions=['free_surface_basis'],
       clause='all-zero, non-integer and wrongly sized plane indices, four indices with a non-hexagonal cell and four-index output for a non-hexagonal cell are refused', replay=_replay)
def basis_refusals(E, L):
    mod = L.load(FSB)
    Box = L.load(BOXF).Box
    box, V, o = arb_box(E, Box)
    E.canary('basis.refusals.canary', V[0, 0] == 0)
    cubic = Box(vects=[[3.0, 0, 0], [0, 3.0, 0], [0, 0, 3.0]])
    for bad, why, bx, kw in (([0, 0, 0], 'zero', box, {}), ([0.5, 1, 0], 'noninteger', box, {}), ([1, 1], 'size', box, {}), ([1, 0, -1, 1], 'four_nonhex', cubic, {}),
                             ([1, 0, 1], 'hex_output_nonhex', cubic, dict(return_hexagonal=True))):
        try:
            mod.free_surface_basis(bad, box=bx, **kw)
            E.prove('basis.refuses[%s]' % why, False)
        except ValueError:
            E.prove('basis.refuses[%s]' % why, True)


# ----------------------------------------------------------------------------
# FreeSurface.surface / set_shift with callee contracts

class _Calls(object):
    def __init__(self):
        self.log = []

    def add(self, *a):
        self.log.append(a)

    def of(self, name):
        return [c for c in self.log if c[0] == name]


def _fake_surface(E, L, cls, cutindex, calls, shifts=None, natoms=3):
    core = L.resolve('atomman.core')
    System, Atoms, Box = core.System, core.Atoms, core.Box
    P = E.reals('P', (natoms, 3))
    sh = E.reals('shifts', (3, 3)) if shifts is None else shifts
    # cell whose two non-cut vectors have no component along the cut axis (the class's own precondition)
    rows = [[4.0, 0, 0], [1.0, 5.0, 0], [0.5, -0.5, 6.0]]
    perm = {2: [0, 1, 2], 0: [1, 2, 0], 1: [2, 0, 1]}[cutindex]          # cyclic relabelling of axes so that `cutindex` is the tilted vector
    vects = _np.zeros((3, 3))
    for i in range(3):
        for j in range(3):
            vects[perm[i], perm[j]] = rows[i][j]
    origin = _np.array([ORIGIN[perm.index(j)] for j in range(3)])

    class WSystem(System):
        def wrap(self, return_imageflags=False):
            pbc = tuple(bool(x) for x in self.pbc)
            n = self.natoms
            F = snp.zeros((n, 3), dtype=object)
            tagn = len(calls.of('wrap'))
            for k in range(n):
                for i in range(3):
                    F[k, i] = E.int('F%d_%d_%d' % (tagn, k, i)) if pbc[i] else 0
            Vv = _np.asarray(self.box.vects, dtype=object)
            before = self.atoms.view['pos'].copy()
            new = snp.zeros((n, 3), dtype=object)
            for k in range(n):
                for j in range(3):
                    new[k, j] = before[k, j] - (F[k, 0] * Vv[0, j] + F[k, 1] * Vv[1, j] + F[k, 2] * Vv[2, j])
            self.atoms.view['pos'][:] = new
            calls.add('wrap', self, pbc, F, before)

    class RCell(object):
        box = Box(vects=vects / 2.0)

        def supersize(self, *mults):
            calls.add('supersize', tuple(mults))
            s = WSystem(atoms=Atoms(atype=[1, 2, 1], pos=P.copy()), box=Box(vects=vects, origin=origin), pbc=(True, True, True), symbols=['Al', 'Cu'])
            return s
    f = object.__new__(cls)
    f._FreeSurface__rcell = RCell()
    f._FreeSurface__cutindex = cutindex
    f._FreeSurface__cutboxvector = 'abc'[cutindex]
    f._FreeSurface__rcellwidth = float(vects[cutindex, cutindex]) / 2.0
    f._FreeSurface__shifts = sh
    f._FreeSurface__shift = E.reals('stored_shift', (3,))
    f._FreeSurface__system = None
    f._FreeSurface__surfacearea = None
    return f, P, sh, vects, origin, WSystem


def _surface_group(cutindex):
    @group('surface.kernel[cut=%d]' % cutindex, files=[FSF, SYSF], functions=['FreeSurface.surface', 'FreeSurface.set_shift'],
           clause='FreeSurface.surface (cut along cell vector %d): supersize receives the requested multipliers with the cut multiplier raised to ceil(minwidth/width) (sign kept) and to even '
                  'when asked; the crystal is moved by the requested shift (every shiftindex incl. 0, explicit, stored) and wrapped; periodicity is switched off across the cut only; a '
                  'vacuum width extends the cell along the cut only, centred, with no atom moved; surfacearea is the area spanned by the two in-plane cell vectors' % cutindex,
           replay=_replay, timeout_ms=20000)
    def h_(E, L):
        mod = L.load(FSF)
        FS = mod.FreeSurface
        tagc = '[cut=%d]' % cutindex
        width = 3.0
        variants = [
            ('default', dict(), [1, 1, 1]),
            ('shiftindex0', dict(shiftindex=0), [1, 1, 1]),
            ('shiftindex2', dict(shiftindex=2, sizemults=[2, 3, 4]), [2, 3, 4]),
            ('shiftindex_neg', dict(shiftindex=-1), [1, 1, 1]),
            ('shift', dict(shift='SYM'), [1, 1, 1]),
            ('shift_scaled', dict(shift='SYM', shiftscale=True), [1, 1, 1]),
            ('minwidth', dict(minwidth=2.2 * width, sizemults=[1, 1, 1]), None),
            ('minwidth_negative_mult', dict(minwidth=3.5 * width, sizemults=[-2, -2, -2]), None),
            ('minwidth_smaller', dict(minwidth=1.5 * width, sizemults=[3, 3, 3]), [3, 3, 3]),
            ('even', dict(even=True, sizemults=[3, 3, 3]), None),
            ('even_negative', dict(even=True, sizemults=[-3, -3, -3]), None),
            ('even_minwidth', dict(even=True, minwidth=2.2 * width), None),
            ('vacuum', dict(vacuumwidth='SYM'), [1, 1, 1]),
            ('vacuum_zero', dict(vacuumwidth=0.0), [1, 1, 1]),
        ]
        first = True
        for vname, kw, mults_want in variants:
            calls = _Calls()
            f, P, shifts, vects, origin, WSystem = _fake_surface(E, L, FS, cutindex, calls)
            stored = f._FreeSurface__shift
            if first:
                E.canary('surface.canary' + tagc, P[0, 0] == shifts[0, 0])
                first = False
            kw = dict(kw)
            tag = 'surface.%s%s' % (vname, tagc)
            shift_in = vac = None
            if kw.get('shift') == 'SYM':
                shift_in = kw['shift'] = E.reals('shift_in', (3,))
            if kw.get('vacuumwidth') == 'SYM':
                vac = kw['vacuumwidth'] = E.real('vac')
                E.assume(vac >= 0)
                E.assume(vac <= 1000)          # (the cell setter zeroes components below 1e-9 of the largest one)
            elif 'vacuumwidth' in kw:
                vac = kw['vacuumwidth']
            given = kw.get('sizemults')
            given0 = list(given) if given is not None else None
            system = FS.surface(f, **kw)
            E.prove(tag + '.returns_stored_system', system is f._FreeSurface__system and isinstance(system, WSystem))
            # multipliers
            if mults_want is None:
                base = list(given0) if given0 is not None else [1, 1, 1]
                m = base[cutindex]
                if 'minwidth' in kw:
                    need = -(-kw['minwidth'] // width)
                    need = int(need)
                    if need > abs(m):
                        m = (1 if m > 0 else -1) * need
                if kw.get('even') and m % 2 == 1:
                    m = m + 1 if m > 0 else m - 1
                base[cutindex] = m
                mults_want = base
            sup = calls.of('supersize')
            E.prove(tag + '.supersize_multipliers', len(sup) == 1 and [int(x) for x in sup[0][1]] == list(mults_want))
            # shift
            if 'shiftindex' in kw:
                want_shift = [shifts[kw['shiftindex'] % 3, j] for j in range(3)]
            elif shift_in is not None and kw.get('shiftscale'):
                rv = vects / 2.0
                want_shift = [shift_in[0] * rv[0, j] + shift_in[1] * rv[1, j] + shift_in[2] * rv[2, j] for j in range(3)]
            elif shift_in is not None:
                want_shift = [shift_in[j] for j in range(3)]
            else:
                want_shift = [stored[j] for j in range(3)]
            for j in range(3):
                E.prove(tag + '.shift_used[%d]' % j, f._FreeSurface__shift[j] == want_shift[j])
            wraps = calls.of('wrap')
            E.prove(tag + '.wrapped_once_fully_periodic', len(wraps) == 1 and wraps[0][1] is system and wraps[0][2] == (True, True, True))
            F0 = wraps[0][3]
            pos = system.atoms.view['pos']
            for k in range(3):
                for j in range(3):
                    ref = P[k, j] + want_shift[j] - (F0[k, 0] * vects[0, j] + F0[k, 1] * vects[1, j] + F0[k, 2] * vects[2, j])
                    E.prove(tag + '.atoms_are_shifted_supercell[%d,%d]' % (k, j), pos[k, j] == ref)
            E.prove(tag + '.periodic_except_across_cut', tuple(bool(x) for x in system.pbc) == tuple(i != cutindex for i in range(3)))
            E.prove(tag + '.types_kept', [int(x) for x in system.atoms.view['atype']] == [1, 2, 1] and tuple(system.symbols) == ('Al', 'Cu'))
            nv, no = system.box.vects, system.box.origin
            for i in range(3):
                for j in range(3):
                    want = vects[i, j] + (vac if (vac is not None and i == cutindex and j == cutindex) else 0)
                    E.prove(tag + '.cell_vector[%d,%d]' % (i, j), nv[i, j] == want)
            for j in range(3):
                want = origin[j] - ((vac / 2) if (vac is not None and j == cutindex) else 0)
                E.prove(tag + '.cell_origin[%d]' % j, no[j] == want)
            i1, i2 = [i for i in range(3) if i != cutindex]
            cr = _np.cross(vects[i1], vects[i2])
            area = f._FreeSurface__surfacearea
            if isinstance(area, Sym):
                E.prove(tag + '.surface_area', And(area >= 0, area * area == float(cr.dot(cr))))
            else:
                E.prove(tag + '.surface_area', abs(float(area) - float(_np.sqrt(cr.dot(cr)))) < 1e-9)
            if given is not None and vname in ('shiftindex2', 'minwidth_smaller'):
                E.prove(tag + '.caller_sizemults_untouched', list(given) == given0)
        calls = _Calls()
        f, P, shifts, vects, origin, WSystem = _fake_surface(E, L, FS, cutindex, calls)
        try:
            FS.surface(f, vacuumwidth=-1.0)
            E.prove('surface.refuses_negative_vacuum' + tagc, False)
        except ValueError:
            E.prove('surface.refuses_negative_vacuum' + tagc, True)
        calls = _Calls()
        f, P, shifts, vects, origin, WSystem = _fake_surface(E, L, FS, cutindex, calls)
        try:
            FS.surface(f, shift=[0.0, 0.0, 0.1], shiftindex=1)
            E.prove('surface.refuses_shift_and_index' + tagc, False)
        except ValueError:
            E.prove('surface.refuses_shift_and_index' + tagc, not calls.of('supersize'))
        for nm in ('system', 'surfacearea'):
            calls = _Calls()
            f, P, shifts, vects, origin, WSystem = _fake_surface(E, L, FS, cutindex, calls)
            try:
                getattr(f, nm)
                E.prove('surface.%s_unavailable_before_build%s' % (nm, tagc), False)
            except AttributeError:
                E.prove('surface.%s_unavailable_before_build%s' % (nm, tagc), True)
    return h_


for _ci in range(3):
    _surface_group(_ci)


# ----------------------------------------------------------------------------
# StackingFault: fault position, above-fault mask, fault()

def _fake_fault(E, L, cutindex, calls, mask=(False, True, True), sym_cell=False):
    mod = L.load(SFF)
    SF = mod.StackingFault
    f, P, shifts, vects, origin, WSystem = _fake_surface(E, L, SF, cutindex, calls)
    core = L.resolve('atomman.core')
    Atoms, Box = core.Atoms, core.Box
    box = Box(vects=vects, origin=origin)
    system = WSystem(atoms=Atoms(atype=[1, 2, 1], pos=P.copy()), box=box, pbc=tuple(i != cutindex for i in range(3)), symbols=['Al', 'Cu'])
    f._FreeSurface__system = system
    # a different cell for rcell (so that confusing the two is visible)
    f._FreeSurface__rcell.box = Box(vects=vects / 2.0, origin=[7.0, 8.0, 9.0])
    f._StackingFault__a1vect_cart = E.reals('a1c', (3,))
    f._StackingFault__a2vect_cart = E.reals('a2c', (3,))
    f._StackingFault__faultpos_cart = None
    f._StackingFault__faultpos_rel = None
    f._StackingFault__abovefault = None if mask is None else _np.array(mask, dtype=bool)
    return mod, SF, f, P, vects, origin, system


def _faultpos_group(cutindex):
    @group('fault.position[cut=%d]' % cutindex, files=[SFF], functions=['StackingFault.faultpos_rel', 'StackingFault.faultpos_cart', 'StackingFault.surface'],
           clause='fault plane position (cut %d): relative and Cartesian positions are related through the BUILT system\'s origin and cut-vector component, positions outside [0,1] are '
                  'refused, and the above-fault mask marks exactly the atoms whose cut coordinate is above the plane; surface() defaults to the middle of the system' % cutindex,
           replay=_replay, timeout_ms=20000)
    def h_(E, L):
        tagc = '[cut=%d]' % cutindex
        calls = _Calls()
        mod, SF, f, P, vects, origin, system = _fake_fault(E, L, cutindex, calls, mask=None)
        E.canary('fault.position.canary' + tagc, P[0, 0] == P[1, 1])
        o_c, w_c = float(origin[cutindex]), float(vects[cutindex, cutindex])
        r = E.real('rel')
        E.assume(r >= 0)
        E.assume(r <= 1)
        f.faultpos_rel = r
        E.prove('fault.position.rel_stored' + tagc, f.faultpos_rel == r)
        E.prove('fault.position.cart_from_rel' + tagc, f.faultpos_cart == o_c + r * w_c)
        ab = f.abovefault
        for k in range(3):
            E.prove('fault.position.mask_from_rel%s[%d]' % (tagc, k), Iff(ab[k], P[k, cutindex] > o_c + r * w_c))
        cpos = E.real('cart')
        E.assume(cpos >= o_c)
        E.assume(cpos <= o_c + w_c)
        f.faultpos_cart = cpos
        E.prove('fault.position.cart_stored' + tagc, f.faultpos_cart == cpos)
        E.prove('fault.position.rel_from_cart' + tagc, f.faultpos_rel * w_c == cpos - o_c)
        ab = f.abovefault
        for k in range(3):
            E.prove('fault.position.mask_from_cart%s[%d]' % (tagc, k), Iff(ab[k], P[k, cutindex] > cpos))
        for bad in (-0.01, 1.01):
            try:
                f.faultpos_rel = bad
                E.prove('fault.position.refuses_rel[%r]%s' % (bad, tagc), False)
            except ValueError:
                E.prove('fault.position.refuses_rel[%r]%s' % (bad, tagc), True)
        for bad in (o_c - 0.01, o_c + w_c + 0.01):
            try:
                f.faultpos_cart = bad
                E.prove('fault.position.refuses_cart[%s]%s' % ('low' if bad < o_c else 'high', tagc), False)
            except ValueError:
                E.prove('fault.position.refuses_cart[%s]%s' % ('low' if bad < o_c else 'high', tagc), True)
        # surface(): default middle; explicit values; both refused
        for nm, kw, want in (('default', {}, 0.5), ('rel', dict(faultpos_rel=0.25), 0.25), ('cart', dict(faultpos_cart=o_c + 0.75 * w_c), 0.75)):
            calls = _Calls()
            mod, SF, f2, P2, vects2, origin2, system2 = _fake_fault(E, L, cutindex, calls, mask=None)
            f2._FreeSurface__system = None
            s = SF.surface(f2, **kw)
            E.prove('fault.surface.position_%s%s' % (nm, tagc), And(f2.faultpos_rel == want, f2.faultpos_cart == o_c + want * w_c))
            E.prove('fault.surface.returns_system_%s%s' % (nm, tagc), s is f2.system and len(calls.of('supersize')) == 1)
            for k in range(3):
                E.prove('fault.surface.mask_%s%s[%d]' % (nm, tagc, k), Iff(f2.abovefault[k], s.atoms.view['pos'][k, cutindex] > o_c + want * w_c))
        calls = _Calls()
        mod, SF, f2, P2, vects2, origin2, system2 = _fake_fault(E, L, cutindex, calls, mask=None)
        try:
            SF.surface(f2, faultpos_rel=0.5, faultpos_cart=o_c + 1.0)
            E.prove('fault.surface.refuses_both' + tagc, False)
        except ValueError:
            E.prove('fault.surface.refuses_both' + tagc, True)
    return h_


for _ci in range(3):
    _faultpos_group(_ci)


def _fault_group(cutindex):
    @group('fault.kernel[cut=%d]' % cutindex, files=[SFF, SYSF], functions=['StackingFault.fault'],
           clause='StackingFault.fault (cut %d): atoms below the fault plane keep their positions and atoms above move by a1*a1vect + a2*a2vect + outofplane*normal (or by the given '
                  'vector), both modulo whole periodic in-plane cell vectors; types, cell and the stored perfect system are untouched; conflicting arguments are refused' % cutindex,
           replay=_replay, timeout_ms=20000)
    def h_(E, L):
        tagc = '[cut=%d]' % cutindex
        first = True
        a1, a2, oop = E.real('a1'), E.real('a2'), E.real('oop')
        fs = E.reals('faultshift', (3,))
        variants = [('a1a2', dict(a1=a1, a2=a2)), ('a1_only', dict(a1=a1)), ('a2_only', dict(a2=a2)), ('outofplane', dict(a1=a1, a2=a2, outofplane=oop)), ('oop_only', dict(outofplane=oop)),
                    ('vector', dict(faultshift=fs)), ('none', dict())]
        for mask in ((False, True, True), (True, False, False), (False, False, False)):
            for vname, kw in variants:
                calls = _Calls()
                mod, SF, f, P, vects, origin, system = _fake_fault(E, L, cutindex, calls, mask=mask)
                if first:
                    E.canary('fault.kernel.canary' + tagc, P[0, 0] == a1)
                    first = False
                tag = 'fault.%s[%s]%s' % (vname, ''.join('a' if x else 'b' for x in mask), tagc)
                before = system.atoms.view['pos'].copy()
                out = SF.fault(f, **kw)
                a1c, a2c = f._StackingFault__a1vect_cart, f._StackingFault__a2vect_cart
                ov = [1.0 if j == cutindex else 0.0 for j in range(3)]
                if 'faultshift' in kw:
                    d = [fs[j] for j in range(3)]
                elif kw:
                    d = [kw.get('a1', 0) * a1c[j] + kw.get('a2', 0) * a2c[j] + kw.get('outofplane', 0) * ov[j] for j in range(3)]
                else:
                    d = [0, 0, 0]
                E.prove(tag + '.new_system', out is not system and isinstance(out, type(system)) and not _np.shares_memory(_np.asarray(out.atoms.view['pos']), _np.asarray(system.atoms.view['pos'])))
                same = all((x is y) or (isinstance(x, Sym) and isinstance(y, Sym) and x.t is y.t) for x, y in zip(system.atoms.view['pos'].ravel(), before.ravel()))
                E.prove(tag + '.stored_system_untouched', same)
                wraps = calls.of('wrap')
                E.prove(tag + '.wrapped_with_surface_periodicity', len(wraps) == 1 and wraps[0][1] is out and wraps[0][2] == tuple(i != cutindex for i in range(3)))
                F = wraps[0][3]
                pos = out.atoms.view['pos']
                for k in range(3):
                    for j in range(3):
                        lat = F[k, 0] * vects[0, j] + F[k, 1] * vects[1, j] + F[k, 2] * vects[2, j]
                        if mask[k]:
                            E.prove(tag + '.above_moves_by_fault_vector[%d,%d]' % (k, j), pos[k, j] == P[k, j] + d[j] - lat)
                        else:
                            E.prove(tag + '.below_stays[%d,%d]' % (k, j), pos[k, j] == P[k, j] - lat)
                E.prove(tag + '.types_cell_kept', [int(x) for x in out.atoms.view['atype']] == [1, 2, 1]
                        and _np.array_equal(_np.asarray(out.box.vects, dtype=float), vects) and _np.array_equal(_np.asarray(out.box.origin, dtype=float), origin)
                        and tuple(bool(x) for x in out.pbc) == tuple(i != cutindex for i in range(3)))
        calls = _Calls()
        mod, SF, f, P, vects, origin, system = _fake_fault(E, L, cutindex, calls)
        for nm, kw in (('a1_and_vector', dict(a1=0.5, faultshift=[0.1, 0, 0])), ('both_positions', dict(faultpos_rel=0.5, faultpos_cart=0.0))):
            try:
                SF.fault(f, **kw)
                E.prove('fault.refuses_%s%s' % (nm, tagc), False)
            except ValueError:
                E.prove('fault.refuses_%s%s' % (nm, tagc), True)
        # a fault position given to fault() re-derives the mask from the built system
        calls = _Calls()
        mod, SF, f, P, vects, origin, system = _fake_fault(E, L, cutindex, calls, mask=None)
        o_c, w_c = float(origin[cutindex]), float(vects[cutindex, cutindex])
        conc_pos = _np.array([[0.0, 0.0, 0.0]] * 3)
        for k, frac in enumerate((0.2, 0.5, 0.9)):
            conc_pos[k, cutindex] = o_c + frac * w_c
        system.atoms.view['pos'][:] = conc_pos
        out = SF.fault(f, faultshift=fs, faultpos_rel=0.4)
        E.prove('fault.position_argument_sets_mask' + tagc, [bool(x) for x in f.abovefault] == [False, True, True] and abs(float(f.faultpos_cart) - (o_c + 0.4 * w_c)) < 1e-12)
    return h_


for _ci in range(3):
    _fault_group(_ci)


@group('fault.vectors', files=[SFF, MILLER], functions=['StackingFault.a1vect_uvw', 'StackingFault.a2vect_uvw'],
       clause='fault shift vectors: the Cartesian vector stored for crystal indices [uvw] is transform . (u a + v b + w c) of the unit cell; a vector with a component across the fault plane '
              'is refused', replay=_replay, timeout_ms=20000)
def fault_vectors(E, L):
    mod = L.load(SFF)
    SF = mod.StackingFault
    core = L.resolve('atomman.core')
    Box = core.Box
    V = E.reals('V', (3, 3))
    E.canary('fault.vectors.canary', V[0, 0] == V[1, 1])

    class UC(object):
        pass

    def fake(T, cutindex):
        f = object.__new__(SF)
        uc_ = UC()
        box = Box()
        box._Box__vects = V.copy()
        box._Box__origin = snp.zeros(3)
        box._Box__reciprocal_vects = None
        uc_.box = box
        f._FreeSurface__ucell = uc_
        f._FreeSurface__transform = T
        f._FreeSurface__cutindex = cutindex
        f._FreeSurface__hkl = _np.array([1, 1, 1])
        f._FreeSurface__conventional_setting = 'p'
        return f
    uvw = [2, -1, 3]
    lat = [uvw[0] * V[0, j] + uvw[1] * V[1, j] + uvw[2] * V[2, j] for j in range(3)]
    for cutindex in range(3):
        for which in ('a1vect', 'a2vect'):
            tag = 'fault.vectors.%s[cut=%d]' % (which, cutindex)
            T = E.reals('T_%s_%d' % (which, cutindex), (3, 3))
            want = [T[i, 0] * lat[0] + T[i, 1] * lat[1] + T[i, 2] * lat[2] for i in range(3)]
            E.assume(want[cutindex] == 0)
            f = fake(T, cutindex)
            try:
                setattr(f, which + '_uvw', uvw)
                cart = getattr(f, which + '_cart')
                for j in range(3):
                    E.prove(tag + '.cartesian[%d]' % j, cart[j] == want[j])
                E.prove(tag + '.indices_stored', [int(x) for x in getattr(f, which + '_uvw')] == uvw)
            except ValueError:
                E.prove(tag + '.in_plane_vector_accepted', False)
            T2 = E.reals('T2_%s_%d' % (which, cutindex), (3, 3))
            want2 = T2[cutindex, 0] * lat[0] + T2[cutindex, 1] * lat[1] + T2[cutindex, 2] * lat[2]
            E.assume(Or(want2 > 1e-3, want2 < -1e-3))
            f = fake(T2, cutindex)
            try:
                setattr(f, which + '_uvw', uvw)
                E.prove(tag + '.out_of_plane_vector_refused', False)
            except ValueError:
                E.prove(tag + '.out_of_plane_vector_refused', True)
    f = fake(E.reals('T3', (3, 3)), 2)
    for bad in ([1, 2], [1, 2, 3, 4, 5]):
        try:
            f.a1vect_uvw = bad
            E.prove('fault.vectors.refuses_size[%d]' % len(bad), False)
        except ValueError:
            E.prove('fault.vectors.refuses_size[%d]' % len(bad), True)


# ----------------------------------------------------------------------------
# bounded families

def _run_family(tier, cases, name, files):
    import hashlib
    import os
    from pyvc.native import atomman
    from . import c14_family as fam
    am = atomman()
    fails, samples = [], []
    evals = nontriv = refused = 0
    seen = set()
    for case in cases:
        if case['key'] in seen:
            continue
        seen.add(case['key'])
        evals += 1
        try:
            msgs = fam.check_case(am, case)
        except Exception as e:
            msgs = ['raised %s: %s' % (type(e).__name__, e)]
        if msgs and msgs[0].startswith('REFUSED'):
            refused += 1
            continue
        nontriv += 1
        if msgs:
            fails.append({'obligation': name + '.post', 'key': case['key'], 'input': case['key'], 'detail': '; '.join(msgs[:3])})
        elif len(samples) < 2:
            samples.append({'case': case['key'], 'result': 'all clauses held'})
    if nontriv < max(3, evals // 2):
        fails.append({'obligation': name + '.coverage', 'key': 'coverage', 'input': 'family', 'detail': 'only %d of %d cases were not refused' % (nontriv, evals)})
    fh = {rel: hashlib.sha256(open(os.path.join(REPO, rel), 'rb').read()).hexdigest() for rel in files}
    return {'family': name, 'evaluations': evals, 'distinct_nontrivial': nontriv, 'rule': 'see group rule; %d documented refusals' % refused, 'samples': samples, 'failures': fails[:12], 'files': fh}


_BASIS_CLAUSE = ('for every integer plane within the index bound in a cell of each of the seven crystal families, each choice of out-of-plane cell vector, Miller-Bravais input and centred '
                 'settings with primitive cells: three integer vectors, right-handed, the two in-plane ones satisfy the zone law exactly and are ordered right-handedly about the normal, the '
                 'third is off the plane on its positive side, and the reported normal is the reciprocal-lattice direction of the plane')
_BASIS_RULE = ('all (h,k,l) with |index| <= 2 (quick) / 3 (thorough) x cells {cubic, tetragonal, orthorhombic, hexagonal (3- and 4-index), rhombohedral, monoclinic, triclinic} x cutboxvector '
               '(cycled in quick, all in thorough) + settings {f,i cubic; i tetragonal; c,a,f orthorhombic; c monoclinic} on the primitive cell; oracle: exact integer zone law / determinant, '
               'reciprocal vectors from the inverse cell matrix; distinct by case key; non-trivial = not refused')
_SURF_CLAUSE = ('real crystals: the rotated cell is the same crystal with the cut axis along the plane normal; one shift per distinct atomic layer, each putting the cut strictly midway '
                'between layers; surface systems have the documented size (multipliers, negative multipliers, minimum width, even, vacuum), periodicity off across the cut only, surface '
                'area of the in-plane vectors; fault plane position refers to the built system; fault shifts leave the lower half in place and move the upper half by the requested vector '
                'modulo in-plane cell vectors; whole in-plane lattice vectors restore the perfect crystal; the stored system is unchanged; fault maps visit the documented grid')
_SURF_RULE = ('crystals {fcc, bcc, hcp (3-/4-index), B2, diamond, 2-atom monoclinic, fcc/bcc primitive with f/i settings} x 32 planes x cut vectors (cycled / all) x all offered shifts x '
              '{plain, vacuum, minwidth, even, negative multipliers} x 3 fault set-ups x 7 fault vectors; documented refusal (orientation incompatible with the cut vector) accepted')


def _register_families():
    from . import c14_family as fam
    nshard = 8
    for name, cases_of, files, functions, clause, rule in (
            ('basis.exhaustive', fam.basis_cases, [FSB, MILLER, BOXF], ['free_surface_basis'], _BASIS_CLAUSE, _BASIS_RULE),
            ('surface_and_fault.family', fam.surface_cases, [FSF, SFF, FSB, SYSF], ['FreeSurface.__init__', 'FreeSurface.surface', 'StackingFault.fault', 'StackingFault.iterfaultmap'],
             _SURF_CLAUSE, _SURF_RULE)):
        def mk(name=name, cases_of=cases_of, files=files, shard=None):
            def fn(tier, seed):
                cases = cases_of(tier)
                if shard is not None:
                    cases = cases[shard[0]::shard[1]]
                return _run_family(tier, cases, name, [f for f in files if f.endswith('.py')])
            return fn
        group(name, kind='bounded', files=files, functions=functions, clause=clause, rule=rule, tiers=('quick',))(mk())
        for k in range(nshard):
            group('T:%s[%d/%d]' % (name, k, nshard), kind='bounded', files=files, functions=functions, clause=clause, rule=rule + '; thorough tier, shard %d of %d' % (k, nshard),
                  tiers=('thorough',))(mk(shard=(k, nshard)))


_register_families()


# ----------------------------------------------------------------------------
# termination shifts: the block of FreeSurface.__init__ that turns the layer coordinates into the offered shifts (also the method Dislocation.__identify_shifts, C13)

import ast as _ast
from pyvc.extract import extract_range as _extract_range


def sorting_network(vals):
    """exact sort of a short list of symbolic reals by compare-exchange (min, max) steps"""
    v = list(vals)
    n = len(v)
    for i in range(n):
        for j in range(n - 1 - i):
            lo, hi = snp.minimum(v[j], v[j + 1]), snp.maximum(v[j], v[j + 1])
            v[j], v[j + 1] = lo, hi
    return v


class _LayerNP(object):
    """the facade with np.unique and np.sort replaced by their contracts: unique returns the (already strictly increasing) layer coordinates it is given -- the caller supplies
    strictly increasing symbolic coordinates, rounding at the tolerance is the identity on them (assumed) -- and sort is an exact sorting network"""
    def __getattr__(self, k):
        return getattr(snp, k)

    def unique(self, a, return_index=False, **kw):
        a = snp.asarray(a)
        if return_index:
            return a, _np.arange(len(a))
        return a

    def sort(self, a, **kw):
        a = snp.asarray(a)
        out = _np.empty(len(a), dtype=object)
        for i, x in enumerate(sorting_network(list(a))):
            out[i] = x
        return snp.asarray(out)


class _Coords(_np.ndarray):
    pass


def _shift_contract(E, tag, c, w, shifts_along_cut, path_appended):
    """the offered shifts are exactly one per gap between adjacent layers (cyclically), each placing the cut (coordinate 0 modulo w) midway between the two layers"""
    n = len(c)
    layers = list(c) + ([c[0] + w] if path_appended else [])
    gaps = len(layers) - 1
    E.prove(tag + '.one_shift_per_gap', len(shifts_along_cut) == gaps)
    half = realconst(Fraction(1, 2))
    for k in range(gaps - 1):
        E.prove(tag + '.sorted[%d]' % k, shifts_along_cut[k] <= shifts_along_cut[k + 1])
    for i in range(gaps):
        mid = (layers[i] + layers[i + 1]) * half
        # some offered shift t puts this gap's midpoint on the cut: mid + t is a multiple of the cell width, with 0 <= t <= w
        E.prove(tag + '.gap_has_its_shift[%d]' % i, Or(*[And(Or(mid + t == w, mid + t == 0, mid + t == 2 * w), t >= 0, t <= w) for t in shifts_along_cut]))
    for k, t in enumerate(shifts_along_cut):
        E.prove(tag + '.shift_belongs_to_a_gap[%d]' % k, Or(*[Or((layers[i] + layers[i + 1]) * half + t == w, (layers[i] + layers[i + 1]) * half + t == 0,
                                                                 (layers[i] + layers[i + 1]) * half + t == 2 * w) for i in range(gaps)]))


def _is_assign_to(name):
    def sel(n):
        return isinstance(n, _ast.Assign) and len(n.targets) == 1 and isinstance(n.targets[0], _ast.Name) and n.targets[0].id == name
    return sel


def _shifts_group(nlayers):
    @group('shifts.block[layers=%d]' % nlayers, files=[FSF], functions=['FreeSurface.__init__ (block: layer coordinates -> offered shifts)'],
           clause='the block of FreeSurface.__init__ that computes the offered shifts, executed for %d strictly increasing symbolic layer coordinates in a cell of symbolic width (both '
                  'cases: top layer coincident with the periodic image of the bottom layer or not): exactly one shift per gap between adjacent layers (the gap across the periodic '
                  'boundary included), sorted, each in [0, width] along the cut axis only, and each placing the cut exactly midway between its two layers -- hence strictly between '
                  'atomic planes' % nlayers, replay=_replay, timeout_ms=30000)
    def h_(E, L):
        block, info = _extract_range(L, FSF, '__init__', _is_assign_to('rcellwidth'), _is_assign_to('shifts'))
        E.shape('shifts.block_found[%d]' % nlayers, info['last_line'] - info['first_line'] >= 10 and 'rcell' in info['free_variables'])
        mod = L.load(FSF)
        for cutindex in range(3):
            w = E.real('w')
            E.assume(w > 1e-5)               # the cell is much wider than the rounding tolerance
            c = E.reals('c', (nlayers,))
            E.assume(c[0] >= 0)
            for i in range(nlayers - 1):
                E.assume(c[i + 1] > c[i] + 2e-7)              # distinct after rounding at the tolerance
            E.assume(c[nlayers - 1] <= w + 1e-7)
            if cutindex == 0:
                E.canary('shifts.canary[%d]' % nlayers, c[0] == w)

            class A(object):
                pass
            rcell = A()
            rcell.box = A()
            rcell.atoms = A()
            vects = _np.zeros((3, 3), dtype=object)
            vects[cutindex, cutindex] = w
            rcell.box.vects = snp.asarray(vects)
            pos = _np.zeros((nlayers, 3), dtype=object)
            for i in range(nlayers):
                pos[i, cutindex] = c[i]
            rcell.atoms.pos = snp.asarray(pos)
            ovect = _np.zeros(3)
            ovect[cutindex] = 1.0
            real_np = mod.np
            mod.np = _LayerNP()
            try:
                out = block(dict(rcell=rcell, cutindex=cutindex, tol=1e-7, ovect=ovect))
            finally:
                mod.np = real_np
            shifts = out['shifts']
            appended = len(out['coords']) == nlayers + 1
            tag = 'shifts[layers=%d,cut=%d,%s]' % (nlayers, cutindex, 'open' if appended else 'top_is_image_of_bottom')
            E.prove(tag + '.shape', shifts.shape[1] == 3)
            for k in range(shifts.shape[0]):
                for j in range(3):
                    if j != cutindex:
                        E.prove(tag + '.along_cut_axis_only[%d,%d]' % (k, j), shifts[k, j] == 0)
            E.prove(tag + '.width', out['rcellwidth'] == w)
            if not appended:
                E.prove(tag + '.top_coincides_with_image', And(c[nlayers - 1] - c[0] - w <= 1e-7, c[0] + w - c[nlayers - 1] <= 1e-7))
            _shift_contract(E, tag, c, w, [shifts[k, cutindex] for k in range(shifts.shape[0])], appended)
    return h_


for _n in (2, 3, 4):
    _shifts_group(_n)

# ----------------------------------------------------------------------------
# callee contracts this property's proofs ASSUME are part of this check (modular verification carries the property only if the assumed contract is itself
# discharged on the same tree): the groups of the property that establishes them run here as well, reported under this property when they fail.
# the generators reach the periodic separation through System.dvect / System.dmag; System.py is one of this property's files
from . import c02 as _c02
for _g in _c02.GROUPS:
    if _g.name in ('System.dvect_dmag',):
        GROUPS.append(_g)
# the generators build every slab with System.supersize and then edit the result in place: they rely on its contract (a NEW system, operand untouched)
from . import c04 as _c04
for _g in _c04.GROUPS:
    if _g.name.startswith('supersize'):
        GROUPS.append(_g)
