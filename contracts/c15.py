"""C15 — Point-defect insertion changes only the defect site and records the mapping."""
import hashlib
import itertools
import os
from fractions import Fraction

import numpy as _np

from pyvc.runner import group, REPO
from pyvc import symnp as snp, terms as tm
from pyvc.sym import Sym, realconst
from .common import det3, dot3, And, Or, Not, Implies, Iff

LEVEL = 'other'
EXPLANATION = ("The four insertion routines are executed on a 3-atom system whose positions and extra per-atom properties are SYMBOLIC (real Atoms/System/point code re-instantiated "
               "from source): for every atom index (also negative) the result has the documented atom count, every other atom's row in every property equals its input row in the "
               "original order, old_id is that index map (and composes over successive insertions), the defect atom(s) come last with the requested position/type/property values, "
               "and the input system's arrays are unchanged and unshared. Site selection BY POSITION is proved over symbolic periodic separations (System.dvect by its C02 contract, "
               "symbolic tolerance, np.where on the tolerance test resolved by path forking): each routine acts on atom k exactly when k is the unique atom within the tolerance, with "
               "the same result as addressing k by index, refuses otherwise, and an interstitial is inserted exactly when no atom is within the tolerance. That the separations are "
               "the true periodic distances (through images), the refusals on real crystals and short insertion sequences are a labelled bounded contract check against a "
               "record-per-atom model.")
ASSUMPTIONS = ["atom count 3 in the symbolic groups (index arithmetic is concrete per enumerated index; values symbolic)", "System.dvect enters the interstitial proof through a stub returning 'no atom near' (C02 contract); the occupancy test itself is in the bounded group"]
UNCOVERED = ["systems with more than 3 atoms in the symbolic groups (per-atom code is uniform)", "composition of selection with the real periodic distance kernel outside the bounded family (the kernel itself is C02)"]

PTF = 'atomman/defect/point.py'
SYSF = 'atomman/core/System.py'
ATF = 'atomman/core/Atoms.py'


def sym_system(E, L, name='', origin=True):
    core = L.resolve('atomman.core')
    System, Atoms, Box = core.System, core.Atoms, core.Box
    n = 3
    pos = E.reals(name + 'pos', (n, 3))
    q = E.reals(name + 'q', (n,))
    st = E.reals(name + 'st', (n, 2, 2))
    atoms = Atoms(atype=[1, 2, 1], pos=pos.copy(), charge=q.copy(), stress=st.copy())
    box = Box(vects=[[4.0, 0, 0], [1.0, 5.0, 0], [0.5, -0.5, 6.0]], origin=[0.5, -1.0, 2.0] if origin else [0, 0, 0])
    system = System(atoms=atoms, box=box, pbc=(True, True, False), symbols=['Al', 'Cu'])
    return system, dict(pos=pos, charge=q, stress=st, atype=[1, 2, 1])


def snapshot(system):
    return {k: _np.array(system.atoms.view[k], dtype=object, copy=True) for k in system.atoms_prop()}


def prove_rows(E, tag, d_system, vals, index, upto):
    """rows 0..upto-1 of every property equal the input rows index[k]"""
    for k in range(upto):
        src = index[k]
        E.prove_eq('%s.row[%d].pos' % (tag, k), d_system.atoms.view['pos'][k], vals['pos'][src])
        E.prove('%s.row[%d].charge' % (tag, k), d_system.atoms.view['charge'][k] == vals['charge'][src])
        E.prove_eq('%s.row[%d].stress' % (tag, k), d_system.atoms.view['stress'][k], vals['stress'][src])
        E.prove('%s.row[%d].atype' % (tag, k), int(d_system.atoms.view['atype'][k]) == vals['atype'][src])


def prove_frame(E, tag, system, before, d_system):
    for k, v in before.items():
        now = system.atoms.view[k]
        same = now.shape == v.shape and all((a is b) or (isinstance(a, Sym) and isinstance(b, Sym) and a.t is b.t) or (not isinstance(a, Sym) and not isinstance(b, Sym) and a == b)
                                            for a, b in zip(now.ravel(), v.ravel()))
        E.prove('%s.input_unchanged[%s]' % (tag, k), same)
        E.prove('%s.unshared[%s]' % (tag, k), not _np.shares_memory(_np.asarray(d_system.atoms.view[k]), _np.asarray(now)))
    E.prove('%s.same_cell' % tag, _np.array_equal(_np.asarray(d_system.box.vects, dtype=float), _np.asarray(system.box.vects, dtype=float))
            and _np.array_equal(_np.asarray(d_system.box.origin, dtype=float), _np.asarray(system.box.origin, dtype=float)) and d_system.box is not system.box)
    E.prove('%s.same_pbc_symbols' % tag, tuple(bool(x) for x in d_system.pbc) == tuple(bool(x) for x in system.pbc) and tuple(d_system.symbols) == tuple(system.symbols))


def _replay(stem, vals):
    from pyvc.native import atomman
    import numpy as np
    am = atomman()
    msgs = []
    try:
        box = am.Box(vects=[[4.0, 0, 0], [1.0, 5.0, 0], [0.5, -0.5, 6.0]], origin=[0.5, -1.0, 2.0])
        s = np.array([[0.1, 0.2, 0.3], [0.6, 0.4, 0.7], [0.3, 0.8, 0.5]])
        pos = s.dot(box.vects) + box.origin
        sys_ = am.System(atoms=am.Atoms(atype=[1, 2, 1], pos=pos, charge=[0.1, -0.2, 0.3]), box=box, pbc=(True, True, False), symbols=['Al', 'Cu'])
        dbr = np.array([0.05, 0.0, 0.02])
        d = am.defect.dumbbell(sys_, ptd_id=1, db_vect=dbr, scale=True)
        want = dbr.dot(box.vects)
        if not (np.allclose(d.atoms.pos[-1], pos[1] + want) and np.allclose(d.atoms.pos[-2], pos[1] - want)):
            msgs.append('dumbbell(ptd_id=1, db_vect=%r, scale=True) in a cell with origin %r: atoms at %r and %r, expected %r -/+ %r'
                        % (dbr.tolist(), box.origin.tolist(), d.atoms.pos[-2].tolist(), d.atoms.pos[-1].tolist(), pos[1].tolist(), want.tolist()))
        v = am.defect.vacancy(sys_, ptd_id=0)
        sb = am.defect.substitutional(v, ptd_id=0, atype=1)
        if sb.atoms.old_id.tolist() != [2, 1]:
            msgs.append('vacancy(0) then substitutional(0): old_id %r, expected [2, 1]' % sb.atoms.old_id.tolist())
        for p in (-3, -1, 0, 2):
            v = am.defect.vacancy(sys_, ptd_id=p)
            keep = [k for k in range(3) if k != p % 3]
            if v.natoms != 2 or v.atoms.old_id.tolist() != keep or not np.allclose(v.atoms.pos, pos[keep]):
                msgs.append('vacancy(ptd_id=%d) wrong rows/old_id' % p)
        # selection by position: a unique atom within the tolerance is addressed, an ambiguous or absent site is refused
        pos2 = np.vstack([pos, pos[0] + [0.004, 0.0, 0.0]])
        amb = am.System(atoms=am.Atoms(atype=[1, 2, 1, 1], pos=pos2), box=box, pbc=(True, True, False), symbols=['Al', 'Cu'])
        try:
            out = am.defect.vacancy(amb, pos=pos[0] + [0.002, 0.0, 0.0])
            msgs.append('vacancy at a position with two atoms within the tolerance was not refused (it removed atom %r)' % [k for k in range(4) if k not in out.atoms.old_id.tolist()])
        except ValueError:
            pass
        one = am.defect.vacancy(amb, pos=pos[1])
        if one.atoms.old_id.tolist() != [0, 2, 3]:
            msgs.append('vacancy by the position of atom 1 removed %r' % [k for k in range(4) if k not in one.atoms.old_id.tolist()])
        try:
            am.defect.vacancy(amb, pos=pos[1] + [0.5, 0.5, 0.5])
            msgs.append('vacancy at an empty position was not refused')
        except ValueError:
            pass
    except Exception as e:
        msgs.append('raised %s: %s' % (type(e).__name__, e))
    return (len(msgs) > 0, '; '.join(msgs[:3]) if msgs else 'float replay of the point-defect contracts found no disagreement')


IDS = [0, 1, 2, -1, -2, -3]


@group('vacancy', files=[PTF, SYSF, ATF], functions=['defect.vacancy', 'System.__init__', 'Atoms.__getitem__'],
       clause='vacancy by index (also negative): atom count -1, every other atom unchanged in position, type and properties in the original order, old_id is the index map, input untouched',
       replay=_replay)
def vacancy(E, L):
    pt = L.load(PTF)
    for p in IDS:
        system, vals = sym_system(E, L)
        before = snapshot(system)
        d = pt.vacancy(system, ptd_id=p)
        index = [k for k in range(3) if k != p % 3]
        tag = 'vacancy[%d]' % p
        E.prove('%s.natoms' % tag, d.natoms == 2)
        prove_rows(E, tag, d, vals, index, 2)
        E.prove('%s.old_id' % tag, [int(x) for x in d.atoms.view['old_id']] == index)
        prove_frame(E, tag, system, before, d)
    for bad in (3, -4):
        system, vals = sym_system(E, L)
        try:
            pt.vacancy(system, ptd_id=bad)
            E.prove('vacancy.refuses_out_of_range[%d]' % bad, False)
        except ValueError:
            E.prove('vacancy.refuses_out_of_range[%d]' % bad, True)
    system, vals = sym_system(E, L)
    for kw in (dict(), dict(pos=[0, 0, 0], ptd_id=1)):
        try:
            pt.vacancy(system, **kw)
            E.prove('vacancy.refuses%s' % sorted(kw), False)
        except ValueError:
            E.prove('vacancy.refuses%s' % sorted(kw), True)
    E.canary('vacancy.canary', vals['pos'][0, 0] == 0)


@group('substitutional', files=[PTF, SYSF, ATF], functions=['defect.substitutional'],
       clause='substitutional by index: atom count unchanged, the other atoms keep their rows and order, the substituted atom comes last with its position and the requested type/properties, '
              'old_id is the index map and composes with an earlier insertion', replay=_replay)
def substitutional(E, L):
    pt = L.load(PTF)
    newq = E.real('newq')
    for p in IDS:
        system, vals = sym_system(E, L)
        before = snapshot(system)
        target = p % 3
        newtype = 3 - vals['atype'][target]        # the other type
        d = pt.substitutional(system, ptd_id=p, atype=newtype, charge=newq)
        index = [k for k in range(3) if k != target] + [target]
        tag = 'substitutional[%d]' % p
        E.prove('%s.natoms' % tag, d.natoms == 3)
        prove_rows(E, tag, d, vals, index, 2)
        E.prove_eq('%s.defect_position' % tag, d.atoms.view['pos'][2], vals['pos'][target])
        E.prove('%s.defect_type' % tag, int(d.atoms.view['atype'][2]) == newtype)
        E.prove('%s.defect_property_set' % tag, d.atoms.view['charge'][2] == newq)
        E.prove_eq('%s.defect_property_kept' % tag, d.atoms.view['stress'][2], vals['stress'][target])
        E.prove('%s.old_id' % tag, [int(x) for x in d.atoms.view['old_id']] == index)
        prove_frame(E, tag, system, before, d)
    # composition: vacancy(0) then substitutional(0): old ids refer to the ORIGINAL system
    system, vals = sym_system(E, L)
    v = pt.vacancy(system, ptd_id=0)
    sb = pt.substitutional(v, ptd_id=0, atype=1)
    E.prove('substitutional.old_id_composes', [int(x) for x in sb.atoms.view['old_id']] == [2, 1])
    E.prove_eq('substitutional.composed_rows', sb.atoms.view['pos'][1], vals['pos'][1])
    try:
        pt.substitutional(system, ptd_id=0, atype=1)
        E.prove('substitutional.refuses_same_type', False)
    except ValueError:
        E.prove('substitutional.refuses_same_type', True)
    E.canary('substitutional.canary', newq == 0)


@group('dumbbell', files=[PTF, SYSF, ATF], functions=['defect.dumbbell'],
       clause='dumbbell by index: atom count +1, other atoms unchanged in order, the two dumbbell atoms last at position -/+ the dumbbell vector (Cartesian, or box-relative VECTOR when scale=True), '
              'old_id = index map with a new id for the added atom', replay=_replay)
def dumbbell(E, L):
    pt = L.load(PTF)
    db = E.reals('db', (3,))
    for p in IDS:
        for scale in (False, True):
            system, vals = sym_system(E, L)
            before = snapshot(system)
            target = p % 3
            d = pt.dumbbell(system, ptd_id=p, db_vect=db, scale=scale)
            index = [k for k in range(3) if k != target] + [target, target]
            tag = 'dumbbell[%d,scale=%s]' % (p, scale)
            E.prove('%s.natoms' % tag, d.natoms == 4)
            prove_rows(E, tag, d, vals, index, 2)
            V = _np.asarray(system.box.vects, dtype=float)
            if scale:
                dv = [db[0] * realconst(V[0, j]) + db[1] * realconst(V[1, j]) + db[2] * realconst(V[2, j]) for j in range(3)]     # a vector: no origin
            else:
                dv = [db[j] for j in range(3)]
            for j in range(3):
                E.prove('%s.first_atom_position[%d]' % (tag, j), d.atoms.view['pos'][2][j] == vals['pos'][target, j] - dv[j])
                E.prove('%s.second_atom_position[%d]' % (tag, j), d.atoms.view['pos'][3][j] == vals['pos'][target, j] + dv[j])
            E.prove('%s.types' % tag, int(d.atoms.view['atype'][2]) == vals['atype'][target] and int(d.atoms.view['atype'][3]) == vals['atype'][target])
            E.prove('%s.old_id' % tag, [int(x) for x in d.atoms.view['old_id']] == [k for k in range(3) if k != target] + [target, 3])
            prove_frame(E, tag, system, before, d)
    E.canary('dumbbell.canary', db[0] == 0)


class _FarDvect(object):
    """contract stub (C02): periodic separations from the requested position to every atom -- here: nothing within the tolerance"""
    def __call__(self, p0, p1, box, pbc):
        n = len(_np.atleast_2d(_np.asarray(p1, dtype=object)))
        return _np.tile(_np.array([[1.5, 0.0, 0.0]]), (n, 1))


@group('interstitial', files=[PTF, SYSF, ATF], functions=['defect.interstitial'], overrides={'atomman.core.dvect': _FarDvect(), 'atomman.core.dvect.dvect': _FarDvect()},
       clause='interstitial at a free site: atom count +1, all atoms unchanged in order, the new atom last with the requested position (Cartesian or box-relative), type and property values '
              '(unspecified properties zero), old_id = index map with a new id', replay=_replay)
def interstitial(E, L):
    pt = L.load(PTF)
    x = E.reals('x', (3,))
    newq = E.real('newq')
    for scale in (False, True):
        system, vals = sym_system(E, L)
        before = snapshot(system)
        d = pt.interstitial(system, pos=x, scale=scale, atype=2, charge=newq)
        tag = 'interstitial[scale=%s]' % scale
        E.prove('%s.natoms' % tag, d.natoms == 4)
        prove_rows(E, tag, d, vals, [0, 1, 2], 3)
        V = _np.asarray(system.box.vects, dtype=float)
        o = _np.asarray(system.box.origin, dtype=float)
        for j in range(3):
            want = (x[0] * realconst(V[0, j]) + x[1] * realconst(V[1, j]) + x[2] * realconst(V[2, j]) + realconst(o[j])) if scale else x[j]
            E.prove('%s.position[%d]' % (tag, j), d.atoms.view['pos'][3][j] == want)
        E.prove('%s.type' % tag, int(d.atoms.view['atype'][3]) == 2)
        E.prove('%s.property_set' % tag, d.atoms.view['charge'][3] == newq)
        E.prove('%s.unspecified_property_zero' % tag, all((e == 0) is True or (isinstance(e, Sym) and e.is_concrete() and e.value() == 0) for e in d.atoms.view['stress'][3].ravel()))
        E.prove('%s.old_id' % tag, [int(v) for v in d.atoms.view['old_id']] == [0, 1, 2, 3])
        prove_frame(E, tag, system, before, d)
    E.canary('interstitial.canary', x[0] == 0)


@group('point.dispatch', files=[PTF], functions=['defect.point'], clause='point() dispatches to the four routines and refuses keyword combinations that do not apply', replay=_replay)
def dispatch(E, L):
    pt = L.load(PTF)
    calls = []
    for nm in ('vacancy', 'interstitial', 'substitutional', 'dumbbell'):
        setattr(pt, nm, (lambda nm: (lambda system, **kw: calls.append((nm, kw)) or nm))(nm))
    E.prove('point.v', pt.point('S', 'v', ptd_id=1) == 'vacancy' and calls[-1] == ('vacancy', dict(pos=None, ptd_id=1, scale=False, atol=None)))
    E.prove('point.i', pt.point('S', 'i', pos=[1, 2, 3], atype=2) == 'interstitial' and calls[-1] == ('interstitial', dict(pos=[1, 2, 3], scale=False, atol=None, atype=2)))
    E.prove('point.s', pt.point('S', 's', ptd_id=0, atype=2) == 'substitutional' and calls[-1][1]['atype'] == 2 and calls[-1][1]['ptd_id'] == 0)
    E.prove('point.db', pt.point('S', 'db', ptd_id=0, db_vect=[1, 0, 0], scale=True) == 'dumbbell' and calls[-1][1]['db_vect'] == [1, 0, 0] and calls[-1][1]['scale'] is True)
    for kw, exc in ((dict(ptd_type='v', db_vect=[1, 0, 0]), AssertionError), (dict(ptd_type='v', atype=2), AssertionError), (dict(ptd_type='i', ptd_id=1), AssertionError), (dict(ptd_type='zz'), ValueError)):
        try:
            pt.point('S', **kw)
            E.prove('point.refuses%s' % sorted(kw.items()), False)
        except exc:
            E.prove('point.refuses%s' % sorted(kw.items()), True)
    x = E.real('x')
    E.canary('point.dispatch.canary', x == 0)


# ----------------------------------------------------------------------------
# bounded: selection by position, refusals, sequences -- against a record-per-atom model

@group('selection_and_sequences', kind='bounded', files=[PTF, SYSF], functions=['defect.vacancy', 'defect.interstitial', 'defect.substitutional', 'defect.dumbbell', 'System.dvect'],
       clause='selecting the site by position (Cartesian or box-relative, also through a periodic image) gives the same result as by index; an absent or ambiguous site and an occupied '
              'interstitial site (also through a periodic image) are refused; old_id composes over sequences of insertions',
       rule='3 cells (cubic, tilted with origin, orthorhombic mixed pbc) x every atom x selection modes {index, negative index, Cartesian, relative, periodic image} x 4 defect types; '
            'occupied-site refusal for all 26 neighbouring images along periodic directions; all length-2 sequences; non-trivial = selection not by plain index')
def selection(tier, seed):
    from pyvc.native import atomman
    import numpy as np
    am = atomman()
    D = am.defect
    fails, samples = [], []
    evals = nontriv = 0
    cells = [(am.Box.cubic(4.05), (True, True, True)), (am.Box(vects=[[4.0, 0, 0], [1.0, 5.0, 0], [0.5, -0.5, 6.0]], origin=[0.5, -1.0, 2.0]), (True, True, True)),
             (am.Box.orthorhombic(3.0, 4.0, 5.0), (True, False, True))]
    S = np.array([[0.0, 0.0, 0.0], [0.5, 0.5, 0.0], [0.5, 0.0, 0.5], [0.0, 0.5, 0.5], [0.25, 0.25, 0.25]])

    def records(s):
        return [dict(pos=tuple(np.round(s.atoms.pos[k], 9)), atype=int(s.atoms.atype[k]), q=float(s.atoms.charge[k]), old=(int(s.atoms.old_id[k]) if 'old_id' in s.atoms_prop() else k))
                for k in range(s.natoms)]

    def eq(a, b):
        return len(a) == len(b) and all(x['atype'] == y['atype'] and abs(x['q'] - y['q']) < 1e-12 and x['old'] == y['old'] and np.allclose(x['pos'], y['pos'], atol=1e-8) for x, y in zip(a, b))
    for ci, (box, pbc) in enumerate(cells):
        pos = S.dot(box.vects) + box.origin
        base = am.System(atoms=am.Atoms(atype=[1, 2, 1, 2, 1], pos=pos, charge=[0.1, 0.2, 0.3, 0.4, 0.5]), box=box, pbc=pbc, symbols=['Al', 'Cu'])
        n = base.natoms
        for p in range(n):
            img = np.array([1 if pbc[0] else 0, -1 if pbc[1] else 0, 1 if pbc[2] else 0])
            modes = {'index': dict(ptd_id=p), 'negative': dict(ptd_id=p - n), 'cartesian': dict(pos=pos[p] + 1e-4), 'relative': dict(pos=S[p], scale=True),
                     'image': dict(pos=pos[p] + img.dot(box.vects)), 'relative image': dict(pos=S[p] + img, scale=True)}
            for dtype, extra in (('v', {}), ('s', dict(atype=3 - int(base.atoms.atype[p]))), ('db', dict(db_vect=[0.1, 0.0, 0.05]))):
                ref = None
                for mname, kw in modes.items():
                    evals += 1
                    nontriv += mname not in ('index',)
                    key = 'cell%d,atom%d,type=%s,by=%s' % (ci, p, dtype, mname)
                    try:
                        kw2 = dict(kw)
                        if dtype == 'db' and kw.get('scale'):
                            kw2['db_vect'] = np.linalg.solve(box.vects.T, np.array([0.1, 0.0, 0.05]))
                            out = D.point(base, dtype, **kw2)
                        else:
                            out = D.point(base, dtype, **kw2, **extra)
                        rec = records(out)
                        if ref is None:
                            ref = rec
                            keep = [k for k in range(n) if k != p]
                            want_old = keep if dtype == 'v' else (keep + [p] if dtype == 's' else keep + [p, n])
                            if [r['old'] for r in rec] != want_old:
                                fails.append({'obligation': 'point.post', 'key': key, 'input': key, 'detail': 'old_id %r, expected %r' % ([r['old'] for r in rec], want_old)})
                        elif not eq(rec, ref):
                            fails.append({'obligation': 'point.selection_by_position', 'key': key, 'input': key, 'detail': 'result differs from selection by index'})
                    except Exception as e:
                        fails.append({'obligation': 'point.selection_by_position', 'key': key, 'input': key, 'detail': 'raised %s: %s' % (type(e).__name__, e)})
            # occupied interstitial site: refused, also through every neighbouring periodic image
            for sh in itertools.product((-1, 0, 1), repeat=3):
                if any(s_ != 0 and not pbc[k] for k, s_ in enumerate(sh)):
                    continue
                evals += 1
                nontriv += 1
                key = 'cell%d,atom%d,occupied via image %r' % (ci, p, sh)
                try:
                    D.interstitial(base, pos=pos[p] + np.array(sh).dot(box.vects), atype=1)
                    fails.append({'obligation': 'interstitial.refuses_occupied', 'key': key, 'input': key, 'detail': 'an interstitial was accepted on top of atom %d (image %r)' % (p, sh)})
                except ValueError:
                    pass
        # absent site / free interstitial site
        evals += 2
        try:
            D.vacancy(base, pos=(np.array([0.33, 0.1, 0.7])).dot(box.vects) + box.origin)
            fails.append({'obligation': 'vacancy.refuses_absent', 'key': 'cell%d' % ci, 'input': 'cell%d' % ci, 'detail': 'a vacancy was created at a position without an atom'})
        except ValueError:
            pass
        out = D.interstitial(base, pos=[0.33, 0.1, 0.7], scale=True, atype=2, charge=-1.0)
        if not (out.natoms == n + 1 and np.allclose(out.atoms.pos[-1], np.array([0.33, 0.1, 0.7]).dot(box.vects) + box.origin) and out.atoms.charge[-1] == -1.0 and out.atoms.atype[-1] == 2):
            fails.append({'obligation': 'interstitial.post', 'key': 'cell%d' % ci, 'input': 'cell%d' % ci, 'detail': 'interstitial by relative position misplaced'})
        # all length-2 sequences: old_id composes (model: list of records)
        ops = [('v', dict(ptd_id=1)), ('s', dict(ptd_id=0, atype=3)), ('db', dict(ptd_id=2, db_vect=[0.1, 0, 0])), ('i', dict(pos=[0.33, 0.1, 0.7], scale=True))]
        for (t1, k1), (t2, k2) in itertools.product(ops, repeat=2):
            evals += 1
            nontriv += 1
            key = 'cell%d,sequence %s%r then %s%r' % (ci, t1, sorted(k1), t2, sorted(k2))
            try:
                if t1 == 'i' and t2 == 'i':
                    k2 = dict(pos=[0.7, 0.6, 0.2], scale=True)
                s1 = D.point(base, t1, **k1)
                m1 = model_apply(records(base), t1, k1, box)
                s2 = D.point(s1, t2, **k2)
                m2 = model_apply(m1, t2, k2, box)
                got = records(s2)
                if [r['old'] for r in got] != [r['old'] for r in m2] or not eq(got, m2):
                    fails.append({'obligation': 'point.sequence', 'key': key, 'input': key, 'detail': 'old_id %r, record model gives %r' % ([r['old'] for r in got], [r['old'] for r in m2])})
            except Exception as e:
                fails.append({'obligation': 'point.sequence', 'key': key, 'input': key, 'detail': 'raised %s: %s' % (type(e).__name__, e)})
    seen = {}
    for f in fails:
        seen.setdefault((f['obligation'], f['key']), f)
    files = {rel: hashlib.sha256(open(os.path.join(REPO, rel), 'rb').read()).hexdigest() for rel in (PTF, SYSF)}
    return {'family': 'point defects by position / sequences', 'evaluations': evals, 'distinct_nontrivial': nontriv, 'rule': 'see group rule', 'samples': [{'cells': 3, 'atoms': 5}],
            'failures': list(seen.values())[:12], 'files': files}


def model_apply(recs, t, kw, box):
    """independent record-per-atom model of one insertion (selection by index or relative position of a free site)"""
    import numpy as np
    recs = [dict(r) for r in recs]
    nextid = max(r['old'] for r in recs) + 1
    if t == 'v':
        recs.pop(kw['ptd_id'])
    elif t == 's':
        r = recs.pop(kw['ptd_id'])
        r['atype'] = kw['atype']
        recs.append(r)
    elif t == 'db':
        r = recs.pop(kw['ptd_id'])
        a, b = dict(r), dict(r)
        a['pos'] = tuple(np.array(r['pos']) - np.array(kw['db_vect']))
        b['pos'] = tuple(np.array(r['pos']) + np.array(kw['db_vect']))
        b['old'] = nextid
        recs += [a, b]
    elif t == 'i':
        recs.append(dict(pos=tuple(np.array(kw['pos']).dot(box.vects) + box.origin), atype=kw.get('atype', 1), q=0.0, old=nextid))
    return recs


# ----------------------------------------------------------------------------
# selection of the site BY POSITION, proved over symbolic periodic separations (callee contract: System.dvect, C02); np.where on the tolerance test is resolved by path forking

class _ForkWhere(object):
    """the facade with np.where(cond) on a symbolic boolean vector decided element by element (each decision forks the path), so that the result has a concrete shape"""
    def __getattr__(self, k):
        return getattr(snp, k)

    def where(self, cond, *args):
        if args:
            return snp.where(cond, *args)
        c = snp.asarray(cond)
        mask = _np.array([bool(x) for x in c.ravel()], dtype=bool).reshape(c.shape)
        return _np.where(mask)


def _position_group(kind):
    @group('select_by_position[%s]' % kind, files=[PTF, SYSF], functions=['defect.%s' % kind],
           clause='%s with the site given BY POSITION, for symbolic periodic separations d_k between the requested position and every atom (contract of System.dvect, C02) and a symbolic '
                  'tolerance: %s' % (kind, 'the insertion succeeds exactly when no atom lies within the tolerance of the position, otherwise it is refused' if kind == 'interstitial' else
                                     'the routine acts on atom k exactly when |d_k| <= tolerance and every other atom is farther away; it refuses when no atom or more than one atom qualifies; the '
                                     'result equals the result of addressing that atom by index (Cartesian and box-relative positions)'),
           replay=_replay, timeout_ms=30000)
    def h_(E, L):
        pt = L.load(PTF)
        D = E.reals('D', (3, 3))
        atol = E.real('atol')
        E.assume(atol > 0)
        x = E.reals('xq', (3,))
        E.canary('select_by_position.canary[%s]' % kind, D[0, 0] == atol)
        for use_scale in (False, True):
            system, vals = sym_system(E, L)
            asked = []

            def dvect(p0, p1, system=system, asked=asked):
                asked.append((snp.asarray(p0).copy(), snp.asarray(p1).copy()))
                return D.copy()
            system.dvect = dvect
            real_np = pt.np
            pt.np = _ForkWhere()
            kw = dict(atype=3 - vals['atype'][0]) if kind == 'substitutional' else (dict(db_vect=[0.1, 0.0, 0.2]) if kind == 'dumbbell' else (dict(atype=2) if kind == 'interstitial' else {}))
            refused = None
            try:
                try:
                    out = getattr(pt, kind)(system, pos=x, scale=use_scale, atol=atol, **kw)
                except ValueError as e:
                    refused = str(e)
                    out = None
            finally:
                pt.np = real_np
            tag = 'select_by_position[%s,scale=%s]' % (kind, use_scale)
            dist2 = [dot3(D[k], D[k]) for k in range(3)]
            near = [d2 <= atol * atol for d2 in dist2]
            V = _np.asarray(system.box.vects, dtype=float)
            o = _np.asarray(system.box.origin, dtype=float)
            # the separations were asked from the requested (Cartesian) position to all atoms
            E.prove(tag + '.one_distance_query', len(asked) == 1)
            for j in range(3):
                want = (x[0] * realconst(V[0, j]) + x[1] * realconst(V[1, j]) + x[2] * realconst(V[2, j]) + realconst(o[j])) if use_scale else x[j]
                E.prove(tag + '.query_position[%d]' % j, asked[0][0][j] == want)
            E.prove_eq(tag + '.query_atoms', asked[0][1], vals['pos'])
            if kind == 'interstitial':
                if out is None:
                    E.prove(tag + '.refused_only_if_occupied', Or(*near))
                else:
                    E.prove(tag + '.inserted_only_if_free', And(*[Not(c) for c in near]))
                    E.prove(tag + '.inserted', out.natoms == 4)
                continue
            if out is None:
                # refused: not exactly one atom within the tolerance
                exactly_one = Or(*[And(near[k], *[Not(near[j]) for j in range(3) if j != k]) for k in range(3)])
                # (substitutional also refuses when the unique atom already has the requested type: only atom 0's complement type is requested, so that refusal needs atom != 0 ...)
                if kind == 'substitutional' and 'same' in (refused or '').lower() or (kind == 'substitutional' and 'atype' in (refused or '')):
                    E.prove(tag + '.refused_same_type_only_for_unique_atom_of_that_type', Or(*[And(near[k], *[Not(near[j]) for j in range(3) if j != k]) for k in range(3) if vals['atype'][k] == kw['atype']]))
                else:
                    E.prove(tag + '.refused_only_without_unique_atom', Not(exactly_one))
                continue
            # acted: identify the atom from old_id
            oid = [int(v) for v in out.atoms.view['old_id']]
            if kind == 'vacancy':
                k = [q for q in range(3) if q not in oid][0]
            else:
                k = oid[2]
            E.prove(tag + '.acted_on_the_unique_atom_within_tolerance', And(near[k], *[Not(near[j]) for j in range(3) if j != k]))
            ref = getattr(pt, kind)(sym_system(E, L)[0], ptd_id=k, **(dict(kw, scale=use_scale) if kind == 'dumbbell' else kw))
            E.prove(tag + '.same_as_by_index', out.natoms == ref.natoms and oid == [int(v) for v in ref.atoms.view['old_id']]
                    and [int(v) for v in out.atoms.view['atype']] == [int(v) for v in ref.atoms.view['atype']])
            E.prove_eq(tag + '.same_positions_as_by_index', out.atoms.view['pos'], ref.atoms.view['pos'])
    return h_


for _k in ('vacancy', 'substitutional', 'dumbbell', 'interstitial'):
    _position_group(_k)

# ----------------------------------------------------------------------------
# callee contracts this property's proofs ASSUME are part of this check (modular verification carries the property only if the assumed contract is itself
# discharged on the same tree): the groups of the property that establishes them run here as well, reported under this property when they fail.
# selection by position goes through System.dvect; System.py is one of this property's files
from . import c02 as _c02
for _g in _c02.GROUPS:
    if _g.name in ('System.dvect_dmag',):
        GROUPS.append(_g)
