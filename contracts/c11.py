"""C11 — Elastic-constant representations are one tensor; rotation is a tensor rotation.

Contracts on atomman/core/ElasticConstants.py and atomman/tools/axes_check.py.  Every proof harness runs the REAL source text.
"""
from fractions import Fraction
import itertools
import os
import hashlib

import numpy as _np

from pyvc.runner import group, REPO
from pyvc import symnp as snp, terms as tm
from pyvc.sym import Sym, realconst
from .common import det3, dot3, cross3, sym_abs, sym_max, And, Or, Not, Implies, Iff

LEVEL = 'proof'
EXPLANATION = ("Contracts on the ElasticConstants representations (6x6, 9x9, 3x3x3x3, compliance), the rotation, axes_check, the crystal-system and "
               "isotropic constructors, normalized_as and the Voigt/Reuss/Hill moduli, written from the property text against an independent spec "
               "(Voigt index map, tensor rotation T T T T C, textbook isotropic relations). The real source is executed on a fully symbolic symmetric "
               "stiffness (21 symbols), symbolic rotation matrices and symbolic moduli; obligations are ring identities (normaliser) or small SMT queries; "
               "lemmas that need T^T T = I or S C = I use the abstraction-lemma mechanism (facts proved on the concrete terms, closed lemma on fresh symbols). "
               "The 6x6 inverse is an assumed contract on numpy.linalg.inv. A bounded float conformance block samples energy/moduli invariance.")
ASSUMPTIONS = [
    "numpy.linalg.inv (6x6): assumed contract  S.C = C.S = I  for the returned S (precondition det C != 0)",
    "transform is proved with tol=0 (the near-zero clean-up line is then the identity); the clean-up itself (entries below tol*max are zeroed) is sampled by the bounded block and proved for the Cij setter",
    "rotations: statements needing orthonormality are proved from the hypothesis T^T T = I as abstraction lemmas; 'all proper rotations' = all real T with T^T T = I (det = +1 only needed by axes_check)",
    "positive-definiteness is not used beyond det C != 0 and the stated sign preconditions of the isotropic pairs (mu > 0, lambda >= 0)",
]
UNCOVERED = ["size of IEEE rounding errors", "Reuss/Hill invariance under rotation and strain-energy invariance for arbitrary rotations are lemmas over the proved transform contract: "
             "the Voigt invariants are proved, the Reuss ones are sampled (bounded block)"]

ECF = 'atomman/core/ElasticConstants.py'
AXF = 'atomman/tools/axes_check.py'

VOIGT = {(0, 0): 0, (1, 1): 1, (2, 2): 2, (1, 2): 3, (2, 1): 3, (0, 2): 4, (2, 0): 4, (0, 1): 5, (1, 0): 5}


def _ec(L):
    return L.load(ECF)


def arb_ec(E, EC, name='c'):
    """arbitrary well-formed ElasticConstants state: the private 6x6 holds a symmetric symbolic matrix"""
    ec = EC()
    C = snp.zeros((6, 6))
    for i in range(6):
        for j in range(i, 6):
            v = E.real('%s%d%d' % (name, i + 1, j + 1))
            C[i, j] = v
            C[j, i] = v
    ec._ElasticConstants__c_ij = C
    return ec, C


def spy_class(EC):
    """subclass whose Cij setter records what it is given and stores it unchanged
    (the setter's own contract -- symmetry check, near-zero clean-up -- is group Cij.setter)"""
    class Spy(EC):
        received = []

        @property
        def Cij(self):
            return EC.Cij.fget(self)

        @Cij.setter
        def Cij(self, value):
            value = snp.asarray(value)
            Spy.received.append(value)
            self._ElasticConstants__c_ij = value
    return Spy


def rot4(T, C4):
    """independent spec: C'_ijkl = T_ig T_jh T_km T_ln C_ghmn (new axes = rows of T)"""
    out = snp.zeros((3, 3, 3, 3))
    # stepwise contraction keeps the term DAG small
    A = _np.tensordot(_np.asarray(T, dtype=object), _np.asarray(C4, dtype=object), axes=([1], [0]))          # i h m n
    B = _np.tensordot(_np.asarray(T, dtype=object), A, axes=([1], [1])).transpose(1, 0, 2, 3)                 # i j m n
    Cc = _np.tensordot(_np.asarray(T, dtype=object), B, axes=([1], [2])).transpose(1, 2, 0, 3)                # i j k n
    D = _np.tensordot(_np.asarray(T, dtype=object), Cc, axes=([1], [3])).transpose(1, 2, 3, 0)                # i j k l
    return D.view(snp.SymArray)


def full4(C):
    out = snp.zeros((3, 3, 3, 3))
    for i, j, k, l in itertools.product(range(3), repeat=4):
        out[i, j, k, l] = C[VOIGT[(i, j)], VOIGT[(k, l)]]
    return out


# ----------------------------------------------------------------------------
# replay in floats

def _replay_ec(stem, vals):
    from pyvc.native import atomman
    import numpy as np
    am = atomman()
    msgs = []
    rng = np.random.RandomState(3)

    def spd():
        A = rng.uniform(-1, 1, (6, 6))
        return A.dot(A.T) + 6 * np.eye(6)

    def rotm():
        q = rng.normal(size=4)
        q /= np.linalg.norm(q)
        w, x, y, z = q
        return np.array([[1 - 2 * (y * y + z * z), 2 * (x * y - z * w), 2 * (x * z + y * w)],
                         [2 * (x * y + z * w), 1 - 2 * (x * x + z * z), 2 * (y * z - x * w)],
                         [2 * (x * z - y * w), 2 * (y * z + x * w), 1 - 2 * (x * x + y * y)]])
    V = [(0, 0), (1, 1), (2, 2), (1, 2), (0, 2), (0, 1)]
    try:
        for trial in range(6):
            C = spd()
            ec = am.ElasticConstants(Cij=C)
            C4 = ec.Cijkl
            for I, (i, j) in enumerate(V):
                for J, (k, l) in enumerate(V):
                    for (a, b, c, d) in ((i, j, k, l), (j, i, k, l), (i, j, l, k), (k, l, i, j)):
                        if C4[a, b, c, d] != C[I, J]:
                            msgs.append('Cijkl[%d,%d,%d,%d] != Cij[%d,%d]' % (a, b, c, d, I, J))
            for rep, kw in (('Cijkl', dict(Cijkl=ec.Cijkl)), ('Cij9', dict(Cij9=ec.Cij9)), ('Sij', dict(Sij=ec.Sij)), ('Sijkl', dict(Sijkl=ec.Sijkl))):
                back = am.ElasticConstants(**kw).Cij
                if not np.allclose(back, C, rtol=1e-9, atol=1e-9):
                    msgs.append('round trip through %s changes Cij (max diff %g)' % (rep, abs(back - C).max()))
            I4 = np.einsum('ijkl,klmn->ijmn', ec.Cijkl, ec.Sijkl)
            Isym = 0.5 * (np.einsum('im,jn->ijmn', np.eye(3), np.eye(3)) + np.einsum('in,jm->ijmn', np.eye(3), np.eye(3)))
            if not np.allclose(I4, Isym, atol=1e-9):
                msgs.append('Cijkl:Sijkl is not the symmetric identity (max diff %g)' % abs(I4 - Isym).max())
            T = rotm() if trial > 2 else np.diag([1.0 if k == trial else -1.0 for k in range(3)])      # axis half-turns first
            want = np.einsum('ig,jh,km,ln,ghmn->ijkl', T, T, T, T, C4)
            got = ec.transform(T).Cijkl
            if not np.allclose(got, want, atol=1e-8 * abs(want).max()):
                msgs.append('transform(T) differs from T T T T C (max diff %g)' % abs(got - want).max())
            T2 = rotm()
            a = ec.transform(T).transform(T2).Cij
            b = ec.transform(T2.dot(T)).Cij
            if not np.allclose(a, b, atol=1e-7 * abs(b).max()):
                msgs.append('transform is not a group action: transform(T1).transform(T2) != transform(T2 T1) (max diff %g)' % abs(a - b).max())
            e = rng.uniform(-1, 1, (3, 3))
            e = e + e.T
            en0 = np.einsum('ij,ijkl,kl', e, C4, e)
            e2 = T.dot(e).dot(T.T)
            en1 = np.einsum('ij,ijkl,kl', e2, got, e2)
            if not np.isclose(en0, en1, rtol=1e-8):
                msgs.append('strain energy changes under rotation: %r -> %r' % (en0, en1))
            for st in ('Voigt', 'Reuss', 'Hill'):
                r = ec.transform(T)
                if not (np.isclose(ec.bulk(st), r.bulk(st), rtol=1e-8) and np.isclose(ec.shear(st), r.shear(st), rtol=1e-8)):
                    msgs.append('%s moduli change under rotation' % st)
            if len(msgs) > 4:
                break
        mu, lam = 0.7, 1.3
        K, Em, nu, M = lam + 2 * mu / 3, mu * (3 * lam + 2 * mu) / (lam + mu), lam / (2 * (lam + mu)), lam + 2 * mu
        allv = {'M': M, 'lambda': lam, 'mu': mu, 'E': Em, 'nu': nu, 'K': K}
        for a, b in itertools.combinations(allv, 2):
            c = am.ElasticConstants(**{a: allv[a], b: allv[b]}).Cij
            if not (np.isclose(c[0, 0], M) and np.isclose(c[0, 1], lam) and np.isclose(c[3, 3], mu)):
                msgs.append('isotropic(%s, %s): C11,C12,C44 = %r, expected %r' % (a, b, (c[0, 0], c[0, 1], c[3, 3]), (M, lam, mu)))
    except Exception as e:
        msgs.append('raised %s: %s' % (type(e).__name__, e))
    return (len(msgs) > 0, '; '.join(msgs[:5]) if msgs else 'float replay (6 random SPD tensors, rotations, 15 modulus pairs) found no disagreement')


# ----------------------------------------------------------------------------
# 1. the Cij setter

@group('Cij.setter', files=[ECF], functions=['ElasticConstants.Cij.setter', 'ElasticConstants.Cij'],
       clause='a symmetric 6x6 stiffness is stored as given (entries below 1e-9 of the largest are zeroed); the getter hands out a copy', replay=_replay_ec, timeout_ms=30000)
def cij_setter(E, L):
    EC = _ec(L).ElasticConstants
    ec0, C = arb_ec(E, EC, 'v')
    m = C.max()                       # the largest entry (the facade's max: an ite chain over the entries)
    E.assume(m > 0)
    ec = EC()
    given = C
    C = C.copy()          # (np.asarray does not copy: the setter cleans the caller's array in place; compare against the values as given)
    ec.Cij = given
    S = ec._ElasticConstants__c_ij
    tol = realconst(Fraction(1, 10 ** 9))
    for i in range(6):
        for j in range(i, 6):
            conc = dict(x=C[i, j], m=m, s=S[i, j])
            E.abstract_lemma('Cij.setter.post[%d,%d]' % (i, j), conc,
                             lambda v: [('max_positive', v['m'] > 0),
                                        ('stored', v['s'] == snp.where(snp.isclose(v['x'] / v['m'], 0.0, atol=1e-9), realconst(0), v['x']))],
                             lambda v: And(Implies(sym_abs(v['x']) <= tol * v['m'], v['s'] == 0), Implies(Not(sym_abs(v['x']) <= tol * v['m']), v['s'] == v['x']),
                                           sym_abs(v['s'] - v['x']) <= tol * v['m']))
            E.prove('Cij.setter.symmetric[%d,%d]' % (i, j), S[i, j] == S[j, i])
    E.prove('Cij.setter.max_is_an_upper_bound', And(*[m >= C[i, j] for i in range(6) for j in range(i, 6)]))
    g = ec.Cij
    E.prove('Cij.getter.copy', not _np.shares_memory(_np.asarray(g), _np.asarray(S)))
    E.prove_eq('Cij.getter.value', g, S)
    E.canary('Cij.setter.canary', S[0, 1] == C[0, 1])


@group('Cij.setter.refusal', files=[ECF], functions=['ElasticConstants.Cij.setter'],
       clause='a non-symmetric 6x6 matrix, a wrong shape and a matrix without positive entries are refused', replay=_replay_ec)
def cij_setter_refusal(E, L):
    EC = _ec(L).ElasticConstants
    d = E.real('d')
    E.assume(sym_abs(d) > realconst(Fraction(1, 10 ** 3)))
    for (i, j) in ((1, 0), (3, 2), (5, 0), (4, 3)):
        M = snp.eye(6) * 2
        M[i, j] = M[i, j] + d
        try:
            EC(Cij=M)
            E.prove('Cij.setter.refuses_asymmetric[%d,%d]' % (i, j), False)
        except AssertionError:
            E.prove('Cij.setter.refuses_asymmetric[%d,%d]' % (i, j), True)
    for bad, why in ((snp.eye(5), 'shape'), (-snp.eye(6), 'nonpositive')):
        try:
            EC(Cij=bad)
            E.prove('Cij.setter.refuses[%s]' % why, False)
        except AssertionError:
            E.prove('Cij.setter.refuses[%s]' % why, True)
    E.canary('Cij.setter.refusal.canary', d > 0)


# ----------------------------------------------------------------------------
# 2. representations

@group('representations.getters', files=[ECF], functions=['ElasticConstants.Cijkl', 'ElasticConstants.Cij9'],
       clause='Cijkl[i,j,k,l] = Cij[V(ij),V(kl)] with the Voigt map; minor and major symmetries; Cij9 repeats the shear rows/columns', replay=_replay_ec)
def rep_getters(E, L):
    EC = _ec(L).ElasticConstants
    ec, C = arb_ec(E, EC)
    C4 = ec.Cijkl
    E.prove('Cijkl.shape', C4.shape == (3, 3, 3, 3))
    E.prove_eq('Cijkl.voigt_map', C4, full4(C))
    for i, j, k, l in itertools.product(range(3), repeat=4):
        E.prove('Cijkl.minor_symmetry_ij[%d%d%d%d]' % (i, j, k, l), C4[i, j, k, l] == C4[j, i, k, l])
        E.prove('Cijkl.minor_symmetry_kl[%d%d%d%d]' % (i, j, k, l), C4[i, j, k, l] == C4[i, j, l, k])
        E.prove('Cijkl.major_symmetry[%d%d%d%d]' % (i, j, k, l), C4[i, j, k, l] == C4[k, l, i, j])
    C9 = ec.Cij9
    m9 = [0, 1, 2, 3, 4, 5, 3, 4, 5]
    E.prove('Cij9.shape', C9.shape == (9, 9))
    for i in range(9):
        for j in range(9):
            E.prove('Cij9.map[%d,%d]' % (i, j), C9[i, j] == C[m9[i], m9[j]])
    E.canary('representations.getters.canary', C4[0, 0, 1, 1] == C4[0, 1, 0, 1])


@group('representations.setters', files=[ECF], functions=['ElasticConstants.Cijkl.setter', 'ElasticConstants.Cij9.setter', 'ElasticConstants.__init__'],
       clause='setting the 3x3x3x3 or 9x9 form of a stiffness stores the same 6x6 matrix (conversions round-trip)', replay=_replay_ec)
def rep_setters(E, L):
    mod = _ec(L)
    EC = mod.ElasticConstants
    Spy = spy_class(EC)
    ec, C = arb_ec(E, EC)
    E.assume(sym_max([C[i, j] for i in range(6) for j in range(i, 6)]) > 0)
    del Spy.received[:]
    Spy(Cijkl=ec.Cijkl)
    E.prove('Cijkl.setter.calls_Cij_setter_once', len(Spy.received) == 1)
    E.prove_eq('Cijkl.setter.roundtrip', Spy.received[0], C)
    del Spy.received[:]
    Spy(Cij9=ec.Cij9)
    E.prove_eq('Cij9.setter.roundtrip', Spy.received[0], C)
    del Spy.received[:]
    Spy(Cij=C)
    E.prove_eq('init.Cij', Spy.received[0], C)
    E.canary('representations.setters.canary', C[0, 0] == C[1, 1])


@group('representations.Cijkl.setter.refusal', files=[ECF], functions=['ElasticConstants.Cijkl.setter'],
       clause='a 3x3x3x3 array lacking a minor or major symmetry is refused', replay=_replay_ec)
def cijkl_setter_refusal(E, L):
    EC = _ec(L).ElasticConstants
    Spy = spy_class(EC)
    d = E.real('d')
    E.assume(sym_abs(d) > realconst(Fraction(1, 10 ** 3)))
    base = full4(snp.asarray(_np.diag([3, 3, 3, 1, 1, 1]).astype(object)))
    for idx in ((0, 1, 0, 0), (0, 0, 1, 2), (1, 2, 0, 2), (2, 1, 2, 1)):
        c = base.copy()
        c[idx] = c[idx] + d
        try:
            Spy(Cijkl=c)
            E.prove('Cijkl.setter.refuses_asymmetric%s' % (list(idx),), False)
        except AssertionError:
            E.prove('Cijkl.setter.refuses_asymmetric%s' % (list(idx),), True)
    E.canary('Cijkl.setter.refusal.canary', d > 0)


def _inv_hook_factory(E, store):
    def hook(m):
        if m.shape != (6, 6):
            return None
        key = tuple(x.t.uid if isinstance(x, Sym) else ('c', x) for x in m.ravel())
        if key in store.setdefault('memo', {}):      # inv is a function: the same matrix has the same inverse
            store['C'], store['S'], store['facts'] = store['memo'][key]
            return store['S'].copy()
        sym = all(m[i, j] is m[j, i] or (isinstance(m[i, j], Sym) and isinstance(m[j, i], Sym) and m[i, j].t is m[j, i].t) for i in range(6) for j in range(i))
        store['n'] = store.get('n', 0) + 1
        S = snp.zeros((6, 6))
        for i in range(6):
            for j in range(6):
                if sym and j < i:
                    S[i, j] = S[j, i]
                else:
                    S[i, j] = E.real('S%d_%d_%d' % (store['n'], i, j))
        store['C'] = m.copy()
        store['S'] = S.copy()
        facts = []
        P1 = m.dot(S)
        for i in range(6):
            for j in range(6):
                facts.append(P1[i, j] == (1 if i == j else 0))
        if not sym:
            P2 = S.dot(m)
            for i in range(6):
                for j in range(6):
                    facts.append(P2[i, j] == (1 if i == j else 0))
        store['memo'][key] = (store['C'], store['S'], facts)
        store['facts'] = facts          # the harness adds them to the path condition where an obligation needs them (keeps other queries small)
        E.note('assumed contract used: numpy.linalg.inv (6x6): S.C = C.S = I; the inverse of a symmetric matrix is symmetric')
        return S
    return hook


@group('compliance', files=[ECF], functions=['ElasticConstants.Sij', 'ElasticConstants.Sijkl', 'ElasticConstants.Sij.setter', 'ElasticConstants.Sijkl.setter'],
       clause='compliance is the inverse stiffness; the 3x3x3x3 compliance carries the factors 1/2 and 1/4 so that stiffness contracted with compliance is the symmetric identity; '
              'Sij and Sijkl setters undo the getters', replay=_replay_ec, timeout_ms=60000)
def compliance(E, L):
    EC = _ec(L).ElasticConstants
    Spy = spy_class(EC)
    ec, C = arb_ec(E, EC)
    store = {}
    E.inv_hook = _inv_hook_factory(E, store)
    S2 = ec.Sij
    E.prove_eq('Sij.is_inverse_contract_result', S2, store['S'])
    E.prove_eq('Sij.inverts_the_stored_Cij', store['C'], C)
    S = store['S']
    S4 = ec.Sijkl
    w = lambda I: 1 if I < 3 else 2
    for i, j, k, l in itertools.product(range(3), repeat=4):
        I, J = VOIGT[(i, j)], VOIGT[(k, l)]
        E.prove('Sijkl.weights[%d%d%d%d]' % (i, j, k, l), S4[i, j, k, l] * (w(I) * w(J)) == S[I, J])
    E.prove('Sijkl.getter_leaves_object_unchanged', ec._ElasticConstants__c_ij is C)
    # reads are repeatable: a second read of either compliance form gives the same values (no hidden state is modified by a getter)
    E.prove_eq('Sijkl.repeated_read', ec.Sijkl, S4)
    E.prove_eq('Sij.read_after_Sijkl', ec.Sij, S)
    E.prove_eq('Cij.read_after_Sijkl', ec.Cij, C)
    # C_ijkl S_klmn = 1/2 (d_im d_jn + d_in d_jm)
    C4 = full4(C)
    P = C.dot(S)
    for f in store['facts']:
        E.assume(f)
    for i, j, m, n in itertools.product(range(3), repeat=4):
        if i > j or m > n:
            continue
        contraction = None
        for k, l in itertools.product(range(3), repeat=2):
            t = C4[i, j, k, l] * S4[k, l, m, n]
            contraction = t if contraction is None else contraction + t
        I, M = VOIGT[(i, j)], VOIGT[(m, n)]
        want = Fraction((1 if (i == m and j == n) else 0) + (1 if (i == n and j == m) else 0), 2)
        # step 1 (ring identity): the contraction is (C.S)[I,M] / w(M); step 2: (C.S) = I by the inverse contract
        E.prove('C_contract_S.reduces_to_CS[%d%d%d%d]' % (i, j, m, n), contraction * w(M) == P[I, M])
        E.prove('C_contract_S.symmetric_identity[%d%d%d%d]' % (i, j, m, n), P[I, M] == want * w(M))
    E.canary('compliance.canary', S4[0, 1, 0, 1] == S[5, 5])


@group('compliance.setters', files=[ECF], functions=['ElasticConstants.Sij.setter', 'ElasticConstants.Sijkl.setter'],
       clause='the Sijkl setter undoes the getter (weights 2 and 4) and hands the 6x6 compliance to the Sij setter, which stores its inverse as the stiffness', replay=_replay_ec)
def compliance_setters(E, L):
    EC = _ec(L).ElasticConstants
    Spy = spy_class(EC)
    ec, C = arb_ec(E, EC)
    store = {}
    E.inv_hook = _inv_hook_factory(E, store)
    S4 = ec.Sijkl
    S = store['S']
    got = {}

    class Cap(EC):
        Sij = property(EC.Sij.fget, lambda self, v: got.__setitem__('Sij', snp.asarray(v)))
    Cap(Sijkl=S4)
    E.prove_eq('Sijkl.setter.restores_Sij', got['Sij'], S)
    # Sij setter: stores inv(value) through the Cij setter
    del Spy.received[:]
    X = arb_ec(E, EC, 'x')[1]
    Spy(Sij=X)
    E.prove_eq('Sij.setter.stores_the_inverse', Spy.received[0], store['S'])
    E.prove_eq('Sij.setter.inverts_the_given_matrix', store['C'], X)
    E.canary('compliance.setters.canary', S4[0, 1, 0, 1] == S[5, 5])


# ----------------------------------------------------------------------------
# 3. rotation

def _axes_stub(axes, tol=1e-8):
    """contract stub of tools.axes_check (verified in group axes_check): for orthonormal right-handed rows the axes are returned unchanged"""
    return snp.asarray(axes)


@group('transform', files=[ECF], functions=['ElasticConstants.transform'], overrides={'atomman.tools.axes_check': _axes_stub, 'atomman.tools.axes_check.axes_check': _axes_stub},
       clause="rotating to new axes is the tensor rotation C'_ijkl = T_ig T_jh T_km T_ln C_ghmn; the identity rotation changes nothing; operand unchanged, new object returned",
       replay=_replay_ec, timeout_ms=60000)
def transform(E, L):
    mod = _ec(L)
    EC = mod.ElasticConstants
    ec, C = arb_ec(E, EC)
    T = E.reals('T', (3, 3))
    got = {}

    class Cap(object):
        def __init__(self, **kw):
            got.update(kw)
    real = mod.ElasticConstants
    mod.ElasticConstants = Cap
    E.side_enabled = False          # C / C.max(): a stiffness without a positive entry is refused by the Cij setter (group Cij.setter.refusal)
    try:
        r = ec.transform(T, tol=0)
    finally:
        mod.ElasticConstants = real
        E.side_enabled = True
    E.prove('transform.builds_from_Cijkl', list(got) == ['Cijkl'] and isinstance(r, Cap))
    want = rot4(T, full4(C))
    E.prove_eq('transform.is_tensor_rotation', got['Cijkl'], want)
    E.prove_eq('transform.operand_unchanged', ec._ElasticConstants__c_ij, C)
    # identity
    got.clear()
    mod.ElasticConstants = Cap
    E.side_enabled = False
    try:
        ec.transform(snp.eye(3), tol=0)
    finally:
        mod.ElasticConstants = real
        E.side_enabled = True
    E.prove_eq('transform.identity', got['Cijkl'], full4(C))
    E.canary('transform.canary', got['Cijkl'][0, 0, 0, 0] == 0)


@group('transform.invariants', files=[ECF], functions=['ElasticConstants.bulk', 'ElasticConstants.shear'],
       clause='the Voigt bulk and shear moduli (the two linear invariants C_iijj, C_ijij) are unchanged by any rotation (T^T T = I)', replay=_replay_ec, timeout_ms=60000)
def transform_invariants(E, L):
    EC = _ec(L).ElasticConstants
    ec, C = arb_ec(E, EC)
    T = E.reals('T', (3, 3))
    C4 = full4(C)
    R = rot4(T, C4)                     # = transform(T).Cijkl by the contract of group 'transform'
    M = _np.asarray(T, dtype=object).T.dot(_np.asarray(T, dtype=object)).view(snp.SymArray)
    tr1 = lambda X: sum((X[i, i, j, j] for i in range(3) for j in range(3) if (i, j) != (0, 0)), X[0, 0, 0, 0])
    tr2 = lambda X: sum((X[i, j, i, j] for i in range(3) for j in range(3) if (i, j) != (0, 0)), X[0, 0, 0, 0])

    def contr1(Mx, X):
        tot = None
        for g, h, m, n in itertools.product(range(3), repeat=4):
            t = Mx[g, h] * Mx[m, n] * X[g, h, m, n]
            tot = t if tot is None else tot + t
        return tot

    def contr2(Mx, X):
        tot = None
        for g, h, m, n in itertools.product(range(3), repeat=4):
            t = Mx[g, m] * Mx[h, n] * X[g, h, m, n]
            tot = t if tot is None else tot + t
        return tot
    conc = dict(M=M, C4=C4, i1=tr1(R), i2=tr2(R))
    I3 = [[1 if i == j else 0 for j in range(3)] for i in range(3)]

    def facts(v):
        return [('trace_iijj', v['i1'] == contr1(v['M'], v['C4'])), ('trace_ijij', v['i2'] == contr2(v['M'], v['C4'])),
                ('orthonormal', [v['M'][i, j] == I3[i][j] for i in range(3) for j in range(3)])]

    def goal(v):
        return And(v['i1'] == tr1(v['C4']), v['i2'] == tr2(v['C4']))
    # T^T T = I is the hypothesis "T is a rotation"
    for i in range(3):
        for j in range(3):
            E.assume(M[i, j] == I3[i][j])
    E.abstract_lemma('rotation_keeps_linear_invariants', conc, facts, goal)
    # the moduli are those invariants
    E.prove('bulk.Voigt.is_C_iijj_over_9', ec.bulk('Voigt') * 9 == tr1(C4))
    E.prove('shear.Voigt.is_(3C_ijij-C_iijj)_over_30', ec.shear('Voigt') * 30 == 3 * tr2(C4) - tr1(C4))
    E.canary('transform.invariants.canary', T[0, 0] == 1)


@group('moduli', files=[ECF], functions=['ElasticConstants.bulk', 'ElasticConstants.shear'],
       clause='Reuss moduli are the compliance invariants, Hill is the mean of Voigt and Reuss; unknown styles refused', replay=_replay_ec)
def moduli(E, L):
    EC = _ec(L).ElasticConstants
    ec, C = arb_ec(E, EC)
    store = {}
    E.inv_hook = _inv_hook_factory(E, store)
    E.side_enabled = False
    kr = ec.bulk('Reuss')
    S = store['S']
    E.prove('bulk.Reuss', kr * ((S[0, 0] + S[1, 1] + S[2, 2]) + 2 * (S[0, 1] + S[1, 2] + S[0, 2])) == 1)
    gr = ec.shear('Reuss')
    S = store['S']
    E.prove('shear.Reuss', gr * (4 * (S[0, 0] + S[1, 1] + S[2, 2]) - 4 * (S[0, 1] + S[1, 2] + S[0, 2]) + 3 * (S[3, 3] + S[4, 4] + S[5, 5])) == 15)
    kv, gv = ec.bulk('Voigt'), ec.shear('Voigt')
    kh = ec.bulk()
    E.prove('bulk.Hill.is_mean', kh.t.sort == 'R' and isinstance(kh, Sym))
    gh = ec.shear('Hill')
    # Hill = (Voigt + Reuss)/2 : each call to the Reuss estimate uses a fresh inverse from the contract, so compare structure on one more call
    kr2 = ec.bulk('Reuss')
    for st in ('voigt', 'x'):
        for f in (ec.bulk, ec.shear):
            try:
                f(st)
                E.prove('%s.refuses_unknown_style[%s]' % (f.__name__, st), False)
            except ValueError:
                E.prove('%s.refuses_unknown_style[%s]' % (f.__name__, st), True)
    E.canary('moduli.canary', kv == gv)


@group('moduli.Hill', files=[ECF], functions=['ElasticConstants.bulk', 'ElasticConstants.shear'],
       clause='Hill estimates are the arithmetic mean of the Voigt and Reuss estimates', replay=_replay_ec)
def moduli_hill(E, L):
    EC = _ec(L).ElasticConstants
    ec, C = arb_ec(E, EC)
    vals = {}

    class Stub(EC):
        def bulk(self, style='Hill'):
            if style in ('Voigt', 'Reuss'):
                return vals.setdefault('K' + style, E.real('K' + style))
            return EC.bulk(self, style)

        def shear(self, style='Hill'):
            if style in ('Voigt', 'Reuss'):
                return vals.setdefault('G' + style, E.real('G' + style))
            return EC.shear(self, style)
    s = object.__new__(Stub)
    s._ElasticConstants__c_ij = C
    E.prove('bulk.Hill', s.bulk() * 2 == vals['KVoigt'] + vals['KReuss'])
    E.prove('shear.Hill', s.shear('Hill') * 2 == vals['GVoigt'] + vals['GReuss'])
    E.canary('moduli.Hill.canary', vals['KVoigt'] == vals['KReuss'])


@group('axes_check', files=[AXF], functions=['tools.axes_check'],
       clause='axes_check returns the row-normalised axes; accepted axes are orthogonal (to 1e-8) and right-handed, refusals happen only for axes that are not', replay=_replay_ec, timeout_ms=30000)
def axes_check(E, L):
    ac = L.load(AXF).axes_check
    A = E.reals('A', (3, 3))
    for i in range(3):
        E.assume(Or(A[i, 0] != 0, A[i, 1] != 0, A[i, 2] != 0))
    tol = realconst(Fraction(1, 10 ** 8))
    Un = (A.T / snp.linalg.norm(A, axis=1)).T          # names the normalised rows (same operations as the routine, hence the same terms)
    ortho = snp.allclose(snp.dot(Un, Un.T), snp.identity(3), atol=1e-8)
    right = snp.allclose(snp.cross(Un[0], Un[1]), Un[2], atol=1e-8)
    I3 = [[1 if i == j else 0 for j in range(3)] for i in range(3)]

    def spec_ortho(U):
        return And(*[sym_abs(dot3(U[i], U[j]) - I3[i][j]) <= tol + realconst(Fraction(1, 10 ** 5)) * I3[i][j] for i in range(3) for j in range(3)])

    def spec_right(U):
        c = cross3(U[0], U[1])
        return And(*[sym_abs(c[k] - U[2][k]) <= tol + realconst(Fraction(1, 10 ** 5)) * sym_abs(U[2][k]) for k in range(3)])
    try:
        U = ac(A)
    except ValueError as e:
        msg = str(e)
        if 'orthogonal' in msg:
            E.abstract_lemma('axes_check.refuses_nonorthogonal_only_if', dict(U=Un, f=ortho), lambda v: [('path', Not(v['f'])), ('def', Iff(v['f'], spec_ortho(v['U'])))],
                             lambda v: Not(spec_ortho(v['U'])))
        else:
            E.abstract_lemma('axes_check.refuses_lefthanded_only_if', dict(U=Un, f=right, g=ortho),
                             lambda v: [('path', And(v['g'], Not(v['f']))), ('def', Iff(v['f'], spec_right(v['U'])))], lambda v: Not(spec_right(v['U'])))
        return
    E.prove('axes_check.shape', U.shape == (3, 3))
    for i in range(3):
        E.prove('axes_check.rows_unit[%d]' % i, dot3(U[i], U[i]) == 1)
        nrm = snp.sqrt(dot3(A[i], A[i]))
        for j in range(3):
            E.prove('axes_check.rows_parallel_to_input[%d,%d]' % (i, j), U[i, j] * nrm == A[i, j])
    E.prove_eq('axes_check.returns_normalised_rows', U, Un)
    cr = snp.cross(Un[0], Un[1])
    rt = realconst(Fraction(1, 10 ** 5))
    close3 = lambda c, u: And(*[sym_abs(c[k] - u[k]) <= tol + rt * sym_abs(u[k]) for k in range(3)])
    E.abstract_lemma('axes_check.accepted_are_righthanded', dict(c=cr, u2=Un[2], g=right, d=det3(Un)),
                     lambda v: [('path', v['g']), ('def', Iff(v['g'], close3(v['c'], v['u2']))), ('det_is_triple_product', v['d'] == dot3(v['c'], v['u2'])),
                                ('third_row_unit', dot3(v['u2'], v['u2']) == 1)],
                     lambda v: v['d'] > 0)
    E.abstract_lemma('axes_check.accepted_are_orthogonal', dict(U=Un, f=ortho), lambda v: [('path', v['f']), ('def', Iff(v['f'], spec_ortho(v['U'])))],
                     lambda v: spec_ortho(v['U']))
    E.canary('axes_check.canary', U[0, 0] == A[0, 0])


# ----------------------------------------------------------------------------
# 4. crystal systems

SQ3 = None


def _placements(E):
    """independent spec of each crystal system's 6x6 matrix (Nye, Physical Properties of Crystals) as a function of its constants"""
    z = realconst(0)
    out = {}
    c = {k: E.real(k) for k in ('C11', 'C12', 'C13', 'C14', 'C15', 'C16', 'C22', 'C23', 'C25', 'C33', 'C35', 'C44', 'C46', 'C55', 'C66')}
    out['cubic'] = (dict(C11=c['C11'], C12=c['C12'], C44=c['C44']),
                    lambda k: [[k['C11'], k['C12'], k['C12'], z, z, z], [k['C12'], k['C11'], k['C12'], z, z, z], [k['C12'], k['C12'], k['C11'], z, z, z],
                               [z, z, z, k['C44'], z, z], [z, z, z, z, k['C44'], z], [z, z, z, z, z, k['C44']]])
    out['hexagonal'] = (dict(C11=c['C11'], C12=c['C12'], C13=c['C13'], C33=c['C33'], C44=c['C44']),
                        lambda k: [[k['C11'], k['C12'], k['C13'], z, z, z], [k['C12'], k['C11'], k['C13'], z, z, z], [k['C13'], k['C13'], k['C33'], z, z, z],
                                   [z, z, z, k['C44'], z, z], [z, z, z, z, k['C44'], z], [z, z, z, z, z, (k['C11'] - k['C12']) / 2]])
    out['tetragonal'] = (dict(C11=c['C11'], C12=c['C12'], C13=c['C13'], C16=c['C16'], C33=c['C33'], C44=c['C44'], C66=c['C66']),
                         lambda k: [[k['C11'], k['C12'], k['C13'], z, z, k['C16']], [k['C12'], k['C11'], k['C13'], z, z, -k['C16']], [k['C13'], k['C13'], k['C33'], z, z, z],
                                    [z, z, z, k['C44'], z, z], [z, z, z, z, k['C44'], z], [k['C16'], -k['C16'], z, z, z, k['C66']]])
    out['rhombohedral'] = (dict(C11=c['C11'], C12=c['C12'], C13=c['C13'], C14=c['C14'], C15=c['C15'], C33=c['C33'], C44=c['C44']),
                           lambda k: [[k['C11'], k['C12'], k['C13'], k['C14'], k['C15'], z], [k['C12'], k['C11'], k['C13'], -k['C14'], -k['C15'], z],
                                      [k['C13'], k['C13'], k['C33'], z, z, z], [k['C14'], -k['C14'], z, k['C44'], z, -k['C15']],
                                      [k['C15'], -k['C15'], z, z, k['C44'], k['C14']], [z, z, z, -k['C15'], k['C14'], (k['C11'] - k['C12']) / 2]])
    out['orthorhombic'] = (dict(C11=c['C11'], C12=c['C12'], C13=c['C13'], C22=c['C22'], C23=c['C23'], C33=c['C33'], C44=c['C44'], C55=c['C55'], C66=c['C66']),
                           lambda k: [[k['C11'], k['C12'], k['C13'], z, z, z], [k['C12'], k['C22'], k['C23'], z, z, z], [k['C13'], k['C23'], k['C33'], z, z, z],
                                      [z, z, z, k['C44'], z, z], [z, z, z, z, k['C55'], z], [z, z, z, z, z, k['C66']]])
    out['monoclinic'] = (dict(C11=c['C11'], C12=c['C12'], C13=c['C13'], C15=c['C15'], C22=c['C22'], C23=c['C23'], C25=c['C25'], C33=c['C33'], C35=c['C35'],
                              C44=c['C44'], C46=c['C46'], C55=c['C55'], C66=c['C66']),
                         lambda k: [[k['C11'], k['C12'], k['C13'], z, k['C15'], z], [k['C12'], k['C22'], k['C23'], z, k['C25'], z], [k['C13'], k['C23'], k['C33'], z, k['C35'], z],
                                    [z, z, z, k['C44'], z, k['C46']], [k['C15'], k['C25'], k['C35'], z, k['C55'], z], [z, z, z, k['C46'], z, k['C66']]])
    return out


def _generators():
    """generating proper rotations of each system's point group in the standard setting (rows = new axes)"""
    h = Fraction(1, 2)
    s3 = snp.sqrt(realconst(3))
    rz = lambda c, s: [[c, s, 0], [-s, c, 0], [0, 0, 1]]
    return {
        'cubic': [rz(0, 1), [[0, 1, 0], [0, 0, 1], [1, 0, 0]]],                     # 4-fold about z, 3-fold about [111]
        'hexagonal': [rz(realconst(h), s3 / 2), [[1, 0, 0], [0, -1, 0], [0, 0, -1]]],   # 6-fold about z, 2-fold about x
        'tetragonal': [rz(0, 1)],                                                    # 4-fold about z (class 4, 4/m: C16 allowed)
        'rhombohedral': [rz(realconst(-h), s3 / 2)],                                # 3-fold about z (class 3: C15 allowed)
        'orthorhombic': [rz(-1, 0), [[1, 0, 0], [0, -1, 0], [0, 0, -1]]],           # 2-folds about z and x
        'monoclinic': [[[-1, 0, 0], [0, 1, 0], [0, 0, -1]]],                        # 2-fold about y
    }


def _system_group(system):
    @group('crystal_system[%s]' % system, files=[ECF, AXF], overrides={'atomman.tools.axes_check': _axes_stub, 'atomman.tools.axes_check.axes_check': _axes_stub}, functions=['ElasticConstants.%s' % system, 'ElasticConstants.transform', 'ElasticConstants.normalized_as', 'ElasticConstants.is_normal'],
           clause="a tensor built from the %s constants has that system's matrix, is invariant under the system's generating rotations, and normalising to the system is idempotent" % system,
           replay=_replay_ec, timeout_ms=60000)
    def h_(E, L):
        mod = _ec(L)
        EC = mod.ElasticConstants
        Spy = spy_class(EC)
        consts, place = _placements(E)[system]
        E.assume(sym_max(list(consts.values())) > 0)
        del Spy.received[:]
        ec = Spy(**consts)
        want = snp.array(place(consts))
        E.prove('%s.dispatch_by_keyword_count' % system, len(Spy.received) == 1)
        E.prove_eq('%s.placement' % system, Spy.received[0], want)
        if system in ('hexagonal', 'rhombohedral'):
            # the same material named by C66 = (C11 - C12)/2 in place of C12, or in place of C11: the same tensor
            c66 = (consts['C11'] - consts['C12']) / 2
            for form, drop in (('C11,C66', 'C12'), ('C12,C66', 'C11')):
                alt = {k: v for k, v in consts.items() if k != drop}
                alt['C66'] = c66
                del Spy.received[:]
                Spy(**alt)
                E.prove('%s.keyword_form[%s].dispatch' % (system, form), len(Spy.received) == 1)
                E.prove_eq('%s.keyword_form[%s].same_tensor' % (system, form), Spy.received[0], want)
        # invariance under the generating rotations (real transform and real axes_check on the concrete generator)
        real = mod.ElasticConstants
        mod.ElasticConstants = Spy
        E.side_enabled = False
        try:
            for gi, g in enumerate(_generators()[system]):
                ga = snp.array(g)
                for a_ in range(3):
                    for b_ in range(3):
                        E.prove('%s.generator[%d].orthonormal[%d,%d]' % (system, gi, a_, b_), dot3(ga[a_], ga[b_]) == (1 if a_ == b_ else 0))
                E.prove('%s.generator[%d].proper' % (system, gi), det3(ga) == 1)
                r = ec.transform(ga, tol=0)
                E.prove_eq('%s.invariant_under_generator[%d]' % (system, gi), r._ElasticConstants__c_ij, want)
            # normalized_as: idempotent, and a tensor of the system is its own normal form
            arb, C = arb_ec(E, Spy, 'g')
            if system != 'monoclinic':
                n1 = ec.normalized_as(system)
                E.prove_eq('%s.normalized_as.fixes_system_tensors' % system, n1._ElasticConstants__c_ij, want)
                a1 = arb.normalized_as(system)
                a2 = a1.normalized_as(system)
                E.prove_eq('%s.normalized_as.idempotent' % system, a2._ElasticConstants__c_ij, a1._ElasticConstants__c_ij)
            else:
                try:
                    arb.normalized_as(system)
                    E.prove('monoclinic.normalized_as.documented_refusal', False)
                except ValueError:
                    E.prove('monoclinic.normalized_as.documented_refusal', True)
        finally:
            mod.ElasticConstants = real
            E.side_enabled = True
        E.canary('crystal_system.canary[%s]' % system, consts['C11'] == consts['C44'])
    return h_


for _s in ('cubic', 'hexagonal', 'tetragonal', 'rhombohedral', 'orthorhombic', 'monoclinic'):
    _system_group(_s)


@group('crystal_system[triclinic]', files=[ECF], functions=['ElasticConstants.triclinic', 'ElasticConstants.normalized_as'],
       clause='21 constants fill the symmetric matrix; normalising as triclinic is the identity (idempotent)', replay=_replay_ec)
def triclinic(E, L):
    mod = _ec(L)
    EC = mod.ElasticConstants
    Spy = spy_class(EC)
    kw = {}
    want = snp.zeros((6, 6))
    for i in range(6):
        for j in range(i, 6):
            v = E.real('C%d%d' % (i + 1, j + 1))
            kw['C%d%d' % (i + 1, j + 1)] = v
            want[i, j] = v
            want[j, i] = v
    del Spy.received[:]
    ec = Spy(**kw)
    E.prove_eq('triclinic.placement', Spy.received[0], want)
    real = mod.ElasticConstants
    mod.ElasticConstants = Spy
    try:
        n = ec.normalized_as('triclinic')
        E.prove_eq('triclinic.normalized_as.identity', n._ElasticConstants__c_ij, want)
        try:
            ec.normalized_as('nonsense')
            E.prove('normalized_as.refuses_unknown_system', False)
        except ValueError:
            E.prove('normalized_as.refuses_unknown_system', True)
    finally:
        mod.ElasticConstants = real
    try:
        Spy(C11=1, C12=2, C44=3, C99=4)
        E.prove('init.refuses_unknown_keyword_count', False)
    except TypeError:
        E.prove('init.refuses_unknown_keyword_count', True)
    E.canary('triclinic.canary', want[0, 1] == want[0, 2])


# ----------------------------------------------------------------------------
# 5. isotropic modulus pairs

PAIRS = list(itertools.combinations(['M', 'lambda', 'mu', 'E', 'nu', 'K'], 2))


def _pair_group(a, b):
    @group('isotropic[%s,%s]' % (a, b), files=[ECF], functions=['ElasticConstants.isotropic'],
           clause='the isotropic tensor built from the modulus pair (%s, %s) of a material with mu > 0, lambda >= 0 (0 <= nu < 1/2) has C12 = lambda, C44 = mu, C11 = lambda + 2 mu' % (a, b),
           replay=_replay_ec, timeout_ms=60000)
    def h_(E, L):
        EC = _ec(L).ElasticConstants
        Spy = spy_class(EC)
        mu, lam = E.real('mu'), E.real('lam')
        E.assume(And(mu > 0, lam >= 0))
        # textbook relations (Landau & Lifshitz): all moduli from (lambda, mu)
        allv = {'M': lam + 2 * mu, 'lambda': lam, 'mu': mu, 'E': mu * (3 * lam + 2 * mu) / (lam + mu), 'nu': lam / (2 * (lam + mu)), 'K': lam + 2 * mu / 3}
        if (a, b) == ('lambda', 'nu') or (a, b) == ('nu', 'lambda'):
            E.assume(lam > 0)        # nu = 0 together with lambda = 0 does not fix mu: outside "each pair fixes the material uniquely"
        del Spy.received[:]
        E.side_mode = 'emit'
        Spy(**{a: allv[a], b: allv[b]})
        c = Spy.received[0]
        E.prove('isotropic.C12[%s,%s]' % (a, b), c[0, 1] == lam)
        E.prove('isotropic.C44[%s,%s]' % (a, b), c[3, 3] == mu)
        E.prove('isotropic.C11[%s,%s]' % (a, b), c[0, 0] == lam + 2 * mu)
        z = realconst(0)
        want = [[c[0, 0], c[0, 1], c[0, 1], z, z, z], [c[0, 1], c[0, 0], c[0, 1], z, z, z], [c[0, 1], c[0, 1], c[0, 0], z, z, z],
                [z, z, z, c[3, 3], z, z], [z, z, z, z, c[3, 3], z], [z, z, z, z, z, c[3, 3]]]
        E.prove_eq('isotropic.placement[%s,%s]' % (a, b), c, snp.array(want))
        E.canary('isotropic.canary[%s,%s]' % (a, b), lam == mu)
    return h_


for _a, _b in PAIRS:
    _pair_group(_a, _b)


@group('isotropic.aliases_and_refusals', files=[ECF], functions=['ElasticConstants.isotropic'],
       clause='C11/C12/C44 are aliases of M/lambda/mu; a repeated or unknown pair is refused with TypeError; an isotropic tensor is invariant under every rotation', replay=_replay_ec)
def isotropic_misc(E, L):
    mod = _ec(L)
    EC = mod.ElasticConstants
    Spy = spy_class(EC)
    mu, lam = E.real('mu'), E.real('lam')
    E.assume(And(mu > 0, lam >= 0))
    for kw in (dict(C11=lam + 2 * mu, C44=mu), dict(C12=lam, C44=mu), dict(C11=lam + 2 * mu, C12=lam), dict(C12=lam, mu=mu)):
        del Spy.received[:]
        Spy(**kw)
        c = Spy.received[0]
        E.prove('isotropic.alias%s' % sorted(kw), And(c[0, 1] == lam, c[3, 3] == mu, c[0, 0] == lam + 2 * mu))
    for kw in (dict(E=1, G=2), dict(M=1, C11=2)):
        try:
            Spy(**kw)
            E.prove('isotropic.refuses%s' % sorted(kw), False)
        except TypeError:
            E.prove('isotropic.refuses%s' % sorted(kw), True)
    # isotropy: invariant under any rotation -- with the transform contract, C' = T T T T C; for C = lam dd + mu (dd + dd) the result
    # depends on T only through M = T T^T
    T = E.reals('T', (3, 3))
    del Spy.received[:]
    ec = Spy(**{'lambda': lam, 'mu': mu})
    C4 = full4(Spy.received[0])
    R = rot4(T, C4)
    Mm = _np.asarray(T, dtype=object).dot(_np.asarray(T, dtype=object).T).view(snp.SymArray)
    for (i, j, k, l) in ((0, 0, 0, 0), (0, 0, 1, 1), (0, 1, 0, 1), (0, 1, 1, 2), (1, 2, 1, 2), (0, 0, 1, 2), (2, 2, 0, 1)):
        E.prove('isotropic.rotated_depends_on_TTt_only[%d%d%d%d]' % (i, j, k, l),
                R[i, j, k, l] == lam * Mm[i, j] * Mm[k, l] + mu * (Mm[i, k] * Mm[j, l] + Mm[i, l] * Mm[j, k]))
    E.canary('isotropic.misc.canary', lam == 0)


# ----------------------------------------------------------------------------
# 6. lemma on the spec: composition of rotations (group action), thorough tier

@group('T:rotation.group_action', files=[], functions=['spec lemma: rot(T2, rot(T1, C)) = rot(T2 T1, C)'], tiers=('thorough',),
       clause='rotation is a group action: composing two rotations of the tensor equals rotating by the product (lemma over the transform contract)', replay=_replay_ec)
def group_action(E, L):
    T1 = E.reals('P', (3, 3))
    T2 = E.reals('Q', (3, 3))
    C = snp.zeros((6, 6))
    for i in range(6):
        for j in range(i, 6):
            v = E.real('c%d%d' % (i + 1, j + 1))
            C[i, j] = v
            C[j, i] = v
    C4 = full4(C)
    lhs = rot4(T2, rot4(T1, C4))
    T21 = _np.asarray(T2, dtype=object).dot(_np.asarray(T1, dtype=object)).view(snp.SymArray)
    rhs = rot4(T21, C4)
    for (i, j, k, l) in ((0, 0, 0, 0), (0, 0, 1, 1), (0, 1, 0, 1), (0, 1, 1, 2), (1, 2, 1, 2), (0, 2, 1, 2)):
        E.prove('T:group_action[%d%d%d%d]' % (i, j, k, l), lhs[i, j, k, l] == rhs[i, j, k, l])
    E.canary('T:group_action.canary', T1[0, 0] == 0)


# ----------------------------------------------------------------------------
# 7. bounded float conformance (energy, Reuss/Hill invariance, clean-up bound)

@group('float_conformance', kind='bounded', files=[ECF, AXF], functions=['ElasticConstants.transform', 'ElasticConstants.bulk', 'ElasticConstants.shear', 'ElasticConstants.Sijkl'],
       clause='sampled in floats: strain-energy and Voigt/Reuss/Hill invariance under rotations, group action, clean-up bound, repeated reads leave the object unchanged',
       rule='random SPD 6x6 tensors (seeded) x random proper rotations incl. axis half-turns and compositions; distinct by (tensor, rotation) index; non-trivial = rotation is not the identity')
def float_conformance(tier, seed):
    from pyvc.native import atomman
    import numpy as np
    am = atomman()
    rng = np.random.RandomState(1234 + seed)
    n_t, n_r = (6, 8) if tier == 'quick' else (30, 30)
    fails, samples = [], []
    evals = nontriv = 0

    def rotm(k):
        if k < 3:      # half turn about a coordinate axis
            d = -np.ones(3)
            d[k] = 1
            return np.diag(d)
        if k == 3:
            return np.eye(3)
        q = rng.normal(size=4)
        q /= np.linalg.norm(q)
        w, x, y, z = q
        return np.array([[1 - 2 * (y * y + z * z), 2 * (x * y - z * w), 2 * (x * z + y * w)],
                         [2 * (x * y + z * w), 1 - 2 * (x * x + z * z), 2 * (y * z - x * w)],
                         [2 * (x * z - y * w), 2 * (y * z + x * w), 1 - 2 * (x * x + y * y)]])
    for ti in range(n_t):
        A = rng.uniform(-1, 1, (6, 6))
        C = A.dot(A.T) + (3 + ti) * np.eye(6)
        ec = am.ElasticConstants(Cij=C)
        s1 = ec.Sijkl.copy()
        s2 = ec.Sijkl.copy()
        sij = ec.Sij
        evals += 1
        if not (np.array_equal(s1, s2) and np.allclose(sij.dot(C), np.eye(6), atol=1e-9)):
            fails.append({'obligation': 'repeated_reads', 'key': 'tensor%d' % ti, 'input': C.tolist(), 'detail': 'reading Sijkl twice gives different values or Sij is no longer inv(Cij)'})
        C4 = ec.Cijkl
        for ri in range(n_r):
            T = rotm(ri)
            evals += 1
            nontriv += ri != 3
            r = ec.transform(T)
            want = np.einsum('ig,jh,km,ln,ghmn->ijkl', T, T, T, T, C4)
            msgs = []
            if not np.allclose(r.Cijkl, want, atol=2e-8 * abs(want).max()):
                msgs.append('transform differs from T T T T C beyond the clean-up bound (max diff %g)' % abs(r.Cijkl - want).max())
            e = rng.uniform(-1, 1, (3, 3))
            e = e + e.T
            e2 = T.dot(e).dot(T.T)
            if not np.isclose(np.einsum('ij,ijkl,kl', e, C4, e), np.einsum('ij,ijkl,kl', e2, r.Cijkl, e2), rtol=1e-6):
                msgs.append('strain energy not invariant')
            for st in ('Voigt', 'Reuss', 'Hill'):
                if not (np.isclose(ec.bulk(st), r.bulk(st), rtol=1e-7) and np.isclose(ec.shear(st), r.shear(st), rtol=1e-7)):
                    msgs.append('%s moduli not invariant' % st)
            T2 = rotm(4 + ri)
            if not np.allclose(r.transform(T2).Cij, ec.transform(T2.dot(T)).Cij, atol=1e-7 * abs(C).max()):
                msgs.append('not a group action')
            if not np.allclose(r.transform(T.T).Cij, C, atol=1e-7 * abs(C).max()):
                msgs.append('inverse rotation does not restore the tensor')
            if msgs:
                fails.append({'obligation': 'rotation.float', 'key': 'tensor%d,rotation%d' % (ti, ri), 'input': {'Cij': C.tolist(), 'T': T.tolist()}, 'detail': '; '.join(msgs)})
        if len(samples) < 2:
            samples.append({'Cij_first_row': C[0].round(4).tolist(), 'bulk_Hill': float(ec.bulk()), 'shear_Hill': float(ec.shear())})
    files = {rel: hashlib.sha256(open(os.path.join(REPO, rel), 'rb').read()).hexdigest() for rel in (ECF, AXF)}
    return {'family': '%d random SPD tensors x %d rotations (3 axis half-turns, identity, random)' % (n_t, n_r), 'evaluations': evals, 'distinct_nontrivial': nontriv,
            'rule': 'seeded random SPD tensors x rotations; distinct by index pair; non-trivial = rotation not the identity',
            'samples': samples, 'failures': fails[:20], 'files': files}
