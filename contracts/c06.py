"""C06 — Per-atom data stays rectangular, row-aligned, unaliased under any edit sequence."""
import copy
import hashlib
import itertools
import os
import random as _random

import numpy as _np

from pyvc.runner import group, REPO
from pyvc import symnp as snp, terms as tm
from pyvc.sym import Sym, realconst
from .common import And, Or, Not, Implies, Iff

LEVEL = 'other'
EXPLANATION = ("The property quantifies over operation HISTORIES. Two routes are combined. (1) Contract proofs of single operations from a state with SYMBOLIC contents (real Atoms "
               "source re-instantiated, natoms = 3): extend (by count / by Atoms with differing property sets: old rows kept, new rows hold the given values or zero, operands "
               "untouched), the copying accessors prop/deepcopy (equal values, no shared buffer), indexed writes through prop (row alignment, other rows untouched), prop_atype, "
               "and the refusal of atom types below 1 on every write path. Because each proof starts from an arbitrary well-formed state, they compose over histories for the "
               "enumerated structure class. (2) dtype behaviour, index kinds and System-level book-keeping (symbols/masses vs. number of types, atoms_ix, atoms_extend incl. "
               "box-scaled positions) are checked by a labelled bounded exploration of operation sequences against an independent record-per-atom model.")
ASSUMPTIONS = ["symbolic proofs: natoms = 3, properties pos (3,), charge (), stress (2,2); values symbolic, structure class enumerated", "operation sequences: bounded exploration (length <= 4, seeded selection), labelled bounded"]
UNCOVERED = ["structure classes outside the enumeration; string-valued properties in the symbolic part"]

ATF = 'atomman/core/Atoms.py'
SYSF = 'atomman/core/System.py'


def sym_atoms(E, L, name='a', n=3, extra=True):
    Atoms = L.load(ATF).Atoms
    pos = E.reals(name + 'pos', (n, 3))
    kw = {}
    vals = {'pos': pos, 'atype': [1, 2, 1][:n] if n <= 3 else [1] * n}
    if extra:
        vals['charge'] = E.reals(name + 'q', (n,))
        vals['stress'] = E.reals(name + 'st', (n, 2, 2))
        kw = dict(charge=vals['charge'].copy(), stress=vals['stress'].copy())
    at = Atoms(atype=list(vals['atype']), pos=pos.copy(), **kw)
    return at, vals


def same_elems(a, b):
    a, b = _np.asarray(a, dtype=object), _np.asarray(b, dtype=object)
    if a.shape != b.shape:
        return False
    for x, y in zip(a.ravel(), b.ravel()):
        if isinstance(x, Sym) and isinstance(y, Sym):
            if x.t is not y.t:
                return False
        elif isinstance(x, Sym) or isinstance(y, Sym):
            xs = x.value() if isinstance(x, Sym) and x.is_concrete() else x
            ys = y.value() if isinstance(y, Sym) and y.is_concrete() else y
            if isinstance(xs, Sym) or isinstance(ys, Sym) or xs != ys:
                return False
        elif x != y:
            return False
    return True


def wf(E, tag, at):
    """well-formedness: one entry per atom in every property; the attribute IS the stored array"""
    for k in at.view:
        E.prove('%s.wf.rows[%s]' % (tag, k), at.view[k].shape[0] == at.natoms)
        E.prove('%s.wf.attribute_is_storage[%s]' % (tag, k), getattr(at, k) is at.view[k])


def _replay(stem, vals):
    from pyvc.native import atomman
    import numpy as np
    am = atomman()
    msgs = []
    try:
        a = am.Atoms(atype=[1, 2, 1], pos=np.arange(9.).reshape(3, 3), charge=[0.5, 0.6, 0.7])
        b = am.Atoms(atype=[2], pos=[[9., 9., 9.]], tag=[7])
        e = a.extend(b)
        if e.natoms != 4 or e.charge.tolist() != [0.5, 0.6, 0.7, 0.0] or e.tag.tolist() != [0, 0, 0, 7] or not np.array_equal(e.pos[:3], a.pos):
            msgs.append('extend: charge %r tag %r' % (e.charge.tolist(), e.tag.tolist()))
        e2 = a.extend(2)
        if e2.charge.tolist() != [0.5, 0.6, 0.7, 0.0, 0.0]:
            msgs.append('extend(2): new rows of charge are %r, expected zeros' % e2.charge.tolist()[3:])
        try:
            a.prop('atype', index=0, value=0)
            if a.atype.min() < 1:
                msgs.append("prop('atype', index=0, value=0) stored an atom type below 1: %r" % a.atype.tolist())
        except ValueError:
            pass
        # a refused write stores nothing
        for ix, val in ((1, 0), (-1, -2), ([0, 2], [3, 0]), (slice(0, 2), [0, 4]), ([True, False, True], 0)):
            r_ = am.Atoms(atype=[1, 2, 1], pos=np.arange(9.).reshape(3, 3))
            try:
                r_.prop('atype', index=ix, value=val)
            except ValueError:
                if r_.view['atype'].tolist() != [1, 2, 1]:
                    msgs.append("prop('atype', index=%r, value=%r) is refused but the stored types are now %r (were [1, 2, 1])" % (ix, val, r_.view['atype'].tolist()))
        # the Atoms handed to atoms_extend is an operand: unchanged
        sb = am.System(atoms=am.Atoms(atype=[1], pos=[[0., 0., 0.]]), box=am.Box(vects=[[4., 0, 0], [1., 5., 0], [0.5, -0.5, 6.]], origin=[0.5, -1., 2.]))
        add = am.Atoms(atype=[2], pos=[[0.5, 0.5, 0.5]])
        sb.atoms_extend(add, scale=True)
        if add.pos.tolist() != [[0.5, 0.5, 0.5]]:
            msgs.append('atoms_extend(value, scale=True) changed the positions of the Atoms it was given to %r' % add.pos.tolist())
        s = am.System(atoms=am.Atoms(atype=[1, 1, 1, 1], pos=np.array([[0, 0, 0], [1, 1, 1], [2, 2, 2], [3, 3, 3.]])), box=am.Box.cubic(4.0))
        before = s.atoms.pos.copy()
        s2 = s.atoms_extend(am.Atoms(atype=[1], pos=[[0.5, 0.5, 0.5]]), scale=True)
        if not (np.array_equal(s2.atoms.pos[:4], before) and np.allclose(s2.atoms.pos[4], [2, 2, 2])):
            msgs.append('atoms_extend(1 atom at relative (.5,.5,.5), scale=True) on a 4-atom system: positions %r' % s2.atoms.pos.tolist())
        # copying accessors never alias, whatever the index kind
        c = am.Atoms(atype=[1, 2, 1], pos=np.arange(9.).reshape(3, 3), charge=[0.5, 0.6, 0.7], stress=np.arange(12.).reshape(3, 2, 2))
        for key in ('pos', 'charge', 'stress'):
            for ix in (1, -1, slice(0, 2), [2, 0], [True, False, True]):
                g = c.prop(key, index=ix)
                if isinstance(g, np.ndarray) and np.shares_memory(g, c.view[key]):
                    msgs.append('prop(%r, index=%r) returns an array sharing memory with the internal storage' % (key, ix))
        # whole-atom writes go by property name
        d1 = am.Atoms(atype=[1, 1, 1], pos=np.zeros((3, 3)))
        d1.charge = [1., 2., 3.]
        d1.energy = [10., 20., 30.]
        src = am.Atoms(atype=[2], pos=[[5., 5., 5.]])
        src.energy = [-7.]
        src.charge = [0.25]
        d1[1] = src
        if d1.charge.tolist() != [1., 0.25, 3.] or d1.energy.tolist() != [10., -7., 30.]:
            msgs.append('atoms[1] = source with the same properties acquired in another order: charge %r energy %r (expected [1, 0.25, 3] / [10, -7, 30])' % (d1.charge.tolist(), d1.energy.tolist()))
    except Exception as e:
        msgs.append('raised %s: %s' % (type(e).__name__, e))
    return (len(msgs) > 0, '; '.join(msgs[:3]) if msgs else 'float replay of Atoms contracts found no disagreement')


@group('Atoms.extend', files=[ATF], functions=['Atoms.extend', 'Atoms.__getitem__', 'Atoms.PropertyDict.__setitem__'],
       clause='extend returns a new Atoms: old rows unchanged and first, new rows hold the added atoms\' values, properties missing on either side are zero-filled for the other\'s rows; '
              'both operands are left unchanged and share no storage with the result', replay=_replay)
def extend(E, L):
    mod = L.load(ATF)
    a, va = sym_atoms(E, L, 'a')
    Atoms = mod.Atoms
    bpos = E.reals('bpos', (2, 3))
    btag = E.reals('btag', (2,))
    bq = E.reals('bq', (2,))
    for variant in ('count', 'same_props', 'differing_props'):
        if variant == 'count':
            other, r = 2, a.extend(2)
            nb = 2
        elif variant == 'same_props':
            other = Atoms(atype=[2, 2], pos=bpos.copy(), charge=bq.copy(), stress=snp.zeros((2, 2, 2)))
            r = a.extend(other)
            nb = 2
        else:
            other = Atoms(atype=[2, 1], pos=bpos.copy(), tag=btag.copy())
            r = a.extend(other)
            nb = 2
        tag = 'extend[%s]' % variant
        E.prove('%s.natoms' % tag, r.natoms == 3 + nb)
        wf(E, tag, r)
        for k in ('pos', 'charge', 'stress'):
            E.prove('%s.old_rows_kept[%s]' % (tag, k), same_elems(r.view[k][:3], va[k]))
            E.prove('%s.operand_unchanged[%s]' % (tag, k), same_elems(a.view[k], va[k]))
            E.prove('%s.unshared[%s]' % (tag, k), not _np.shares_memory(_np.asarray(r.view[k]), _np.asarray(a.view[k])))
        E.prove('%s.old_types_kept' % tag, [int(x) for x in r.view['atype'][:3]] == [1, 2, 1])
        zero = lambda arr: all((isinstance(x, Sym) and x.is_concrete() and x.value() == 0) or (not isinstance(x, Sym) and x == 0) for x in _np.asarray(arr, dtype=object).ravel())
        if variant == 'count':
            E.prove('%s.new_rows_zero[charge]' % tag, zero(r.view['charge'][3:]))
            E.prove('%s.new_rows_zero[stress]' % tag, zero(r.view['stress'][3:]))
            E.prove('%s.new_rows_default_type' % tag, [int(x) for x in r.view['atype'][3:]] == [1, 1])
        elif variant == 'same_props':
            E.prove('%s.new_rows[pos]' % tag, same_elems(r.view['pos'][3:], bpos))
            E.prove('%s.new_rows[charge]' % tag, same_elems(r.view['charge'][3:], bq))
            E.prove('%s.new_types' % tag, [int(x) for x in r.view['atype'][3:]] == [2, 2])
        else:
            E.prove('%s.new_rows[pos]' % tag, same_elems(r.view['pos'][3:], bpos))
            E.prove('%s.new_rows[tag]' % tag, same_elems(r.view['tag'][3:], btag))
            E.prove('%s.old_rows_of_new_property_zero' % tag, zero(r.view['tag'][:3]))
            E.prove('%s.new_rows_of_missing_property_zero[charge]' % tag, zero(r.view['charge'][3:]))
            E.prove('%s.new_rows_of_missing_property_zero[stress]' % tag, zero(r.view['stress'][3:]))
            E.prove('%s.added_operand_unchanged' % tag, same_elems(other.view['pos'], bpos) and same_elems(other.view['tag'], btag))
    try:
        a.extend('x')
        E.prove('extend.refuses_other_types', False)
    except TypeError:
        E.prove('extend.refuses_other_types', True)
    E.canary('extend.canary', va['pos'][0, 0] == 0)


@group('Atoms.accessors', files=[ATF], functions=['Atoms.prop', 'Atoms.__deepcopy__', 'Atoms.__setattr__', 'Atoms.prop_atype', 'Atoms.__setitem__'],
       clause='the copying accessors return equal values that share no buffer with the internal storage; indexed writes change exactly the addressed rows (row alignment); per-type assignment '
              'sets exactly the atoms of that type; scalar and length-1 values broadcast to one entry per atom; a wrong leading length is refused', replay=_replay)
def accessors(E, L):
    mod = L.load(ATF)
    Atoms = mod.Atoms
    a, va = sym_atoms(E, L, 'a')
    for k in ('pos', 'charge', 'stress'):
        g = a.prop(k)
        E.prove('prop.get.value[%s]' % k, same_elems(g, va[k]))
        E.prove('prop.get.unaliased[%s]' % k, not _np.shares_memory(_np.asarray(g), _np.asarray(a.view[k])))
        for ix, rows in ((1, [1]), (-1, [2]), (slice(0, 2), [0, 1]), ([2, 0], [2, 0]), ([True, False, True], [0, 2])):
            gi = a.prop(k, index=ix)
            want = va[k][rows[0]] if isinstance(ix, int) else va[k][rows]
            E.prove('prop.get.indexed[%s][%r]' % (k, ix), same_elems(gi, want))
            if isinstance(gi, _np.ndarray):
                E.prove('prop.get.indexed.unaliased[%s][%r]' % (k, ix), not _np.shares_memory(_np.asarray(gi), _np.asarray(a.view[k])))
    d = copy.deepcopy(a)
    for k in ('pos', 'charge', 'stress', 'atype'):
        E.prove('deepcopy.value[%s]' % k, same_elems(d.view[k], a.view[k]))
        E.prove('deepcopy.unaliased[%s]' % k, not _np.shares_memory(_np.asarray(d.view[k]), _np.asarray(a.view[k])))
    sub = a.prop(index=[2, 0])
    E.prove('prop.get.atoms_subset', sub.natoms == 2 and same_elems(sub.view['pos'], va['pos'][[2, 0]]) and not _np.shares_memory(_np.asarray(sub.view['pos']), _np.asarray(a.view['pos'])))
    # indexed writes
    w = E.reals('w', (3,))
    for ix, rows in ((1, [1]), (-1, [2]), ([2, 0], [2, 0]), ([False, True, False], [1])):
        b, vb = sym_atoms(E, L, 'b')
        b.prop('pos', index=ix, value=w)
        for r in range(3):
            want = w if r in rows else vb['pos'][r]
            E.prove('prop.set.indexed[%r].row%d' % (ix, r), same_elems(b.view['pos'][r], want))
        E.prove('prop.set.indexed[%r].other_properties_untouched' % (ix,), same_elems(b.view['charge'], vb['charge']) and same_elems(b.view['stress'], vb['stress']))
        wf(E, 'prop.set.indexed[%r]' % (ix,), b)
    # whole-atom writes: rows are filled property BY NAME from the source (whatever the order in which the two objects acquired their properties), other rows untouched,
    # the source unchanged; differing property sets are refused
    for ix, rows in ((1, [1]), (-1, [2]), (slice(0, 2), [0, 1]), ([2, 0], [2, 0]), ([True, False, True], [0, 2])):
        b, vb = sym_atoms(E, L, 'b')
        en_b = E.reals('ben', (3,))
        b.energy = en_b.copy()                                    # order in b: atype, pos, charge, stress, energy
        nsrc = len(rows)
        spos, sq, sen, sst = E.reals('spos', (nsrc, 3)), E.reals('sq', (nsrc,)), E.reals('sen', (nsrc,)), E.reals('sst', (nsrc, 2, 2))
        src = Atoms(atype=[2] * nsrc, pos=spos.copy())
        src.energy = sen.copy()                                   # order in src: atype, pos, energy, stress, charge
        src.stress = sst.copy()
        src.charge = sq.copy()
        b[ix] = src
        tagw = 'setitem[%r]' % (ix,)
        for r in range(3):
            if r in rows:
                q = rows.index(r)
                E.prove(tagw + '.written_row%d' % r, same_elems(b.view['pos'][r], spos[q]) and b.view['charge'][r].t is sq[q].t and b.view['energy'][r].t is sen[q].t
                        and same_elems(b.view['stress'][r], sst[q]) and int(b.view['atype'][r]) == 2)
            else:
                E.prove(tagw + '.other_row%d_untouched' % r, same_elems(b.view['pos'][r], vb['pos'][r]) and b.view['charge'][r].t is vb['charge'][r].t and b.view['energy'][r].t is en_b[r].t
                        and same_elems(b.view['stress'][r], vb['stress'][r]) and int(b.view['atype'][r]) == vb['atype'][r])
        E.prove(tagw + '.source_unchanged', same_elems(src.view['pos'], spos) and same_elems(src.view['charge'], sq) and same_elems(src.view['energy'], sen))
        wf(E, tagw, b)
    b, vb = sym_atoms(E, L, 'b')
    other = Atoms(atype=[1], pos=E.reals('opos', (1, 3)))
    other.tag = [5]
    try:
        b[0] = other
        E.prove('setitem.refuses_differing_property_sets', False)
    except (ValueError, KeyError):
        E.prove('setitem.refuses_differing_property_sets', True)
    # whole-property assignment: scalar / length-1 / full
    x = E.real('x')
    full = E.reals('f', (3,))
    b, vb = sym_atoms(E, L, 'b')
    b.newscalar = x
    E.prove('setattr.scalar_broadcast', b.view['newscalar'].shape == (3,) and all(e.t is x.t for e in b.view['newscalar']))
    b.newvec = snp.array([[x, x + 1]])
    E.prove('setattr.length1_broadcast', b.view['newvec'].shape == (3, 2))
    b.charge = full
    E.prove('setattr.overwrite_in_place', same_elems(b.view['charge'], full) and b.charge is b.view['charge'])
    wf(E, 'setattr', b)
    try:
        b.bad = E.reals('bad', (2,))
        E.prove('setattr.refuses_wrong_length', False)
    except ValueError:
        E.prove('setattr.refuses_wrong_length', True)
    # per-type assignment
    b, vb = sym_atoms(E, L, 'b')
    b.prop_atype('charge', x, atype=1)
    E.prove('prop_atype.one_type', b.view['charge'][0].t is x.t and b.view['charge'][2].t is x.t and b.view['charge'][1].t is vb['charge'][1].t)
    pv = E.reals('pv', (2,))
    b.prop_atype('mass', pv)
    E.prove('prop_atype.all_types', b.view['mass'][0].t is pv[0].t and b.view['mass'][1].t is pv[1].t and b.view['mass'][2].t is pv[0].t)
    try:
        b.prop_atype('charge', x, atype=5)
        E.prove('prop_atype.refuses_unknown_type', False)
    except ValueError:
        E.prove('prop_atype.refuses_unknown_type', True)
    E.canary('accessors.canary', x == 0)


@group('Atoms.atype_at_least_one', files=[ATF], functions=['Atoms.PropertyDict.__setitem__', 'Atoms.prop', 'Atoms.__setattr__'],
       clause='atom types stay at least 1: every write path that stores an atom type below 1 is refused', replay=_replay)
def atype_ge1(E, L):
    mod = L.load(ATF)
    paths = {
        'setattr': lambda a: setattr(a, 'atype', [1, 0, 1]),
        'view': lambda a: a.view.__setitem__('atype', [0, 1, 1]),
        'prop(key,value)': lambda a: a.prop('atype', value=[1, 1, 0]),
        'prop(key,index,value)': lambda a: a.prop('atype', index=1, value=0),
        'prop(key,index=list,value)': lambda a: a.prop('atype', index=[0, 2], value=[0, 0]),
        'prop(key,index=list,mixed)': lambda a: a.prop('atype', index=[0, 2], value=[3, 0]),
        'prop(key,index=neg,value)': lambda a: a.prop('atype', index=-1, value=-2),
        'prop(key,index=slice,value)': lambda a: a.prop('atype', index=slice(0, 2), value=[0, 4]),
        'constructor': lambda a: mod.Atoms(atype=[1, 0], pos=[[0, 0, 0], [1, 1, 1]]),
    }
    for nm, f in paths.items():
        a, va = sym_atoms(E, L, 'a', extra=False)
        try:
            f(a)
            ok = int(_np.min(_np.asarray(a.view['atype'], dtype=float))) >= 1 and nm != 'constructor'
            E.prove('atype_ge1.refused_or_unchanged[%s]' % nm, ok)
        except ValueError:
            E.prove('atype_ge1.refused_or_unchanged[%s]' % nm, True)
            if nm != 'constructor':
                # a refused write stores nothing: the types (and everything else) read back as before
                E.prove('atype_ge1.refusal_stores_nothing[%s]' % nm, same_elems(_np.asarray(a.view['atype'], dtype=object), va['atype']) and same_elems(a.view['pos'], va['pos']))
    x = E.real('x')
    E.canary('atype_ge1.canary', x == 0)


# ----------------------------------------------------------------------------
# bounded: operation sequences against a record-per-atom model (real dtypes, System book-keeping)

class Model(object):
    """independent model: a list of per-atom records (dict name -> value) + symbols/masses lists"""
    def __init__(self, recs, symbols=(), masses=()):
        self.recs = recs
        self.symbols = list(symbols)
        self.masses = list(masses)

    def natypes(self):
        return max(max(int(r['atype']) for r in self.recs), len(self.symbols))


def _mk(am, np, rng, n, intpos=False):
    pos = rng.uniform(0, 4, (n, 3)).round(3)
    atype = rng.randint(1, 3, n)
    if intpos:
        pos = pos.round(0)          # whole-number coordinates handed over as Python ints
    at = am.Atoms(atype=atype.copy(), pos=[[int(x) for x in row] for row in pos] if intpos else pos.copy(), charge=rng.uniform(-1, 1, n).round(3), tag=np.arange(n) + 10, stress=rng.uniform(-1, 1, (n, 2, 2)).round(3))
    s = am.System(atoms=at, box=am.Box(vects=[[4.0, 0, 0], [1.0, 5.0, 0], [0.5, -0.5, 6.0]], origin=[0.5, -1.0, 2.0]), symbols=['Al', 'Cu'], masses=[26.98, 63.55])
    recs = [dict(atype=int(atype[i]), pos=pos[i].copy(), charge=float(at.charge[i]), tag=int(at.tag[i]), stress=at.stress[i].copy()) for i in range(n)]
    return s, Model(recs, ['Al', 'Cu'], [26.98, 63.55])


def _check(am, np, s, m, msgs, where):
    at = s.atoms
    if at.natoms != len(m.recs):
        msgs.append('%s: natoms %d, model %d' % (where, at.natoms, len(m.recs)))
        return
    names = set().union(*[set(r) for r in m.recs]) if m.recs else set()
    if set(at.view.keys()) != names:
        msgs.append('%s: properties %r, model %r' % (where, sorted(at.view.keys()), sorted(names)))
        return
    for k in at.view:
        v = at.view[k]
        if v.shape[0] != at.natoms:
            msgs.append('%s: property %s has %d entries for %d atoms' % (where, k, v.shape[0], at.natoms))
        if getattr(at, k) is not v:
            msgs.append('%s: attribute %s is not the stored array' % (where, k))
        for i, r in enumerate(m.recs):
            if not np.allclose(np.asarray(v[i], dtype=float), np.asarray(r[k], dtype=float), atol=1e-9):
                msgs.append('%s: atom %d property %s reads %r, model says %r' % (where, i, k, np.asarray(v[i]).tolist(), np.asarray(r[k]).tolist()))
                break
    if at.view['atype'].min() < 1:
        msgs.append('%s: atom type below 1' % where)
    nt = m.natypes()
    if len(s.symbols) < s.natypes or len(s.masses) < s.natypes:
        msgs.append('%s: symbols %r / masses %r shorter than natypes %d' % (where, s.symbols, s.masses, s.natypes))
    if s.natypes < nt:
        msgs.append('%s: natypes %d below the number of types in use / symbols given (%d)' % (where, s.natypes, nt))


def _ops(am, np, rng):
    """(name, apply(system, model) -> (system, model)) ; each returns the possibly new system"""
    V = np.array([[4.0, 0, 0], [1.0, 5.0, 0], [0.5, -0.5, 6.0]])
    o = np.array([0.5, -1.0, 2.0])

    def idx_rows(ix, n):
        if isinstance(ix, (int, np.integer)):
            return [ix % n]
        if isinstance(ix, slice):
            return list(range(n))[ix]
        ix = list(ix)
        if ix and isinstance(ix[0], (bool, np.bool_)):
            return [i for i, b in enumerate(ix) if b]
        return [i % n for i in ix]

    def set_scalar(s, m):
        s.atoms.charge = 0.25
        for r in m.recs:
            r['charge'] = 0.25
        return s, m

    def set_new_len1(s, m):
        s.atoms.flag = [[1, 2]]
        for r in m.recs:
            r['flag'] = np.array([1, 2])
        return s, m

    def set_full_view(s, m):
        vals = rng.uniform(-1, 1, s.natoms).round(3)
        s.atoms.view['charge'] = vals
        for r, v in zip(m.recs, vals):
            r['charge'] = float(v)
        return s, m

    def prop_indexed(kind):
        def f(s, m):
            n = s.natoms
            ix = {'int': 1 % n, 'neg': -1, 'slice': slice(0, 2), 'list': [n - 1, 0], 'bool': [i % 2 == 0 for i in range(n)]}[kind]
            rows = idx_rows(ix, n)
            val = np.array([9.0, 8.0, 7.0])
            s.atoms_prop('pos', index=ix, value=val)
            for i in rows:
                m.recs[i]['pos'] = val.copy()
            got = s.atoms_prop('pos', index=ix)
            got[...] = -1            # must not write through
            return s, m
        return f

    def prop_atype_one(s, m):
        s.atoms.prop_atype('charge', -0.5, atype=1)
        for r in m.recs:
            if r['atype'] == 1:
                r['charge'] = -0.5
        return s, m

    def extend_count(s, m):
        s2 = s.atoms_extend(2)
        keys = set(m.recs[0])
        m2 = Model([dict(r) for r in m.recs], m.symbols, m.masses)
        for _ in range(2):
            z = {k: np.zeros_like(np.asarray(m.recs[0][k])) if np.ndim(m.recs[0][k]) else 0 for k in keys}
            z['atype'] = 1
            m2.recs.append(z)
        return s2, m2

    def extend_atoms(scale):
        def f(s, m):
            rel = np.array([[0.5, 0.5, 0.5], [0.25, 0.0, 0.75]])
            cart = rel.dot(V) + o
            add = am.Atoms(atype=[2, 3], pos=(rel if scale else cart).copy(), extra=[5, 6])
            keep = {k: add.view[k].copy() for k in add.view}
            s2 = s.atoms_extend(add, scale=scale)
            for k in keep:
                if not np.array_equal(add.view[k], keep[k]):
                    raise AssertionError('atoms_extend(scale=%r) changed the %s of the Atoms it was given (operand of an operation that returns a new system)' % (scale, k))
            m2 = Model([dict(r) for r in m.recs], m.symbols, m.masses)
            for r in m2.recs:
                r.setdefault('extra', 0)
            keys = set(m2.recs[0])
            for j in range(2):
                z = {k: np.zeros_like(np.asarray(m2.recs[0][k])) if np.ndim(m2.recs[0][k]) else 0 for k in keys}
                z.update(atype=[2, 3][j], pos=cart[j].copy(), extra=[5, 6][j])
                m2.recs.append(z)
            return s2, m2
        return f

    def sub_system(s, m):
        n = s.natoms
        ix = [n - 1, 0]
        s2 = s.atoms_ix[ix]
        return s2, Model([dict(m.recs[i]) for i in idx_rows(ix, n)], m.symbols, m.masses)

    def setitem_atoms(s, m):
        first = s.atoms[0]
        # a source holding the same properties, acquired in the reverse order
        src = am.Atoms(atype=first.atype.copy(), pos=first.pos.copy())
        for k in reversed([k for k in first.view.keys() if k not in ('atype', 'pos')]):
            src.view[k] = first.view[k].copy()
        s.atoms[-1] = src
        m.recs[-1] = dict(m.recs[0])
        return s, m

    def longer_symbols(s, m):
        nt = m.natypes()
        s.symbols = ['Al', 'Cu', 'Ni', 'Fe', 'Co'][:nt + 1]
        m.symbols = ['Al', 'Cu', 'Ni', 'Fe', 'Co'][:nt + 1]
        _ = s.masses
        return s, m

    def retype(s, m):
        s.atoms.atype[0] = 3
        m.recs[0]['atype'] = 3
        return s, m

    def refused_atype(kind):
        def f(s, m):
            n = s.natoms
            ix, val = {'int': (1 % n, 0), 'neg': (-1, -2), 'list': ([n - 1, 0], [2, 0]), 'slice': (slice(0, 2), [0, 3][:min(2, n)]), 'bool': ([i == 0 for i in range(n)], 0)}[kind]
            try:
                s.atoms_prop('atype', index=ix, value=val)
            except ValueError:
                pass                     # the documented refusal; the model is not changed: nothing may have been stored
            else:
                raise AssertionError('an atom type below 1 was accepted by atoms_prop(index=%r)' % (ix,))
            return s, m
        return f

    def deep(s, m):
        s2 = copy.deepcopy(s)
        s2.atoms.pos[0] = [7.0, 7.0, 7.0]        # must not affect s
        return s, m
    return [('set_scalar', set_scalar), ('set_new_len1', set_new_len1), ('set_full_view', set_full_view)] + [('prop_indexed_%s' % k, prop_indexed(k)) for k in ('int', 'neg', 'slice', 'list', 'bool')] + \
           [('prop_atype', prop_atype_one), ('extend_count', extend_count), ('extend_atoms', extend_atoms(False)), ('extend_atoms_scaled', extend_atoms(True)), ('atoms_ix', sub_system)] + [('refused_atype_%s' % k, refused_atype(k)) for k in ('int', 'neg', 'list', 'slice', 'bool')] + [
            ('setitem', setitem_atoms), ('longer_symbols', longer_symbols), ('retype', retype), ('deepcopy', deep)]


@group('sequences', kind='bounded', files=[ATF, SYSF], functions=['Atoms.*', 'System.atoms_prop', 'System.atoms_extend', 'System.atoms_ix', 'System.symbols', 'System.masses', 'System.natypes'],
       clause='after any sequence of edits every property holds one entry per atom, rows stay aligned with an independent record-per-atom model, atom types stay >= 1, symbols and masses are '
              'never shorter than the number of atom types, copying accessors do not alias and operand systems are left unchanged',
       rule='22 operations (indexed writes of an atom type below 1 (refused: nothing stored), attribute/view assignment with scalar/length-1/full values, indexed writes with int/negative/slice/list/boolean index, per-type assignment, extend by count / by Atoms '
            'with differing properties / with box-scaled positions, atoms_ix, __setitem__, symbols/masses, in-place retype, deepcopy); all sequences of length 1 and 2, seeded sequences of length 3-4; '
            'every 4th sequence starts from positions given as whole Python ints; distinct by sequence; non-trivial = length >= 2')
def sequences(tier, seed):
    from pyvc.native import atomman
    import numpy as np
    am = atomman()
    rng = np.random.RandomState(seed + 17)
    names = [n for n, _ in _ops(am, np, rng)]
    seqs = [(a,) for a in names] + list(itertools.product(names, repeat=2))
    rnd = _random.Random(seed)
    extra = 300 if tier == 'quick' else 4000
    for _ in range(extra):
        seqs.append(tuple(rnd.choice(names) for _ in range(rnd.choice([3, 4]))))
    fails = []
    evals = nontriv = 0
    for seq in seqs:
        evals += 1
        nontriv += len(seq) >= 2
        ops = dict(_ops(am, np, np.random.RandomState(evals)))
        s, m = _mk(am, np, np.random.RandomState(1000 + evals), 4, intpos=(evals % 4 == 0))
        msgs = []
        try:
            _check(am, np, s, m, msgs, 'initial')
            for k, nm in enumerate(seq):
                before = copy.deepcopy(s)
                s_new, m = ops[nm](s, m)
                if s_new is not s:
                    # operation documented as returning a new object: operand unchanged
                    for key in before.atoms.view:
                        if key in s.atoms.view and not np.array_equal(s.atoms.view[key], before.atoms.view[key]):
                            msgs.append('step %d (%s): the operand system\'s %s changed' % (k, nm, key))
                    s = s_new
                _check(am, np, s, m, msgs, 'after step %d (%s)' % (k, nm))
                if msgs:
                    break
        except Exception as e:
            msgs.append('step raised %s: %s' % (type(e).__name__, e))
        if msgs:
            fails.append({'obligation': 'sequences.post', 'key': ' > '.join(seq), 'input': list(seq), 'detail': '; '.join(msgs[:2])})
    # group failures by the last operation that failed first (keeps the report short but specific)
    seen = {}
    for f in fails:
        seen.setdefault(f['key'], f)
    files = {rel: hashlib.sha256(open(os.path.join(REPO, rel), 'rb').read()).hexdigest() for rel in (ATF, SYSF)}
    return {'family': 'Atoms/System operation sequences', 'evaluations': evals, 'distinct_nontrivial': nontriv, 'rule': 'see group rule', 'samples': [{'sequence': list(seqs[40])}],
            'failures': list(seen.values())[:15], 'files': files}
