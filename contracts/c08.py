"""C08 — Loading what was dumped returns the system (LAMMPS data/dump, table, POSCAR)."""
import hashlib
import itertools
import os

import numpy as _np

from pyvc.runner import group, REPO
from .common_io import signature_obligations, sha_files

LEVEL = 'other'
EXPLANATION = ("Static obligations (every third-party call of the readers binds to the installed pandas signature) are decided exactly. Proved on the real source with symbolic "
               "numbers carried through the text as tokens (printf / strtod replaced by the identity on numbers): the POSCAR reader alone on files written by the VASP rules "
               "(scale x lattice, symbols line optional, counts -> types, Cartesian x scale or relative coordinates, trailing flags ignored) and the POSCAR round trip "
               "load(dump(s)) for direct and Cartesian styles and any positive scale; the LAMMPS data header scanner (keywords in any order, comments, masses, section starts, "
               "refusals) and its round trip with the real writer's header for all 7 unit styles; the LAMMPS dump header scan (bounding-box bounds back to lo/hi, pp flags, ATOMS item "
               "handed to the table reader) and its round trip with the real writer's header. The per-atom tables run through pandas' CSV reader/writer and C printf/strtod, which no "
               "verifier available here reaches: those round-trip clauses are BOUNDED run-time contract checks (load(dump(s)) compared field by field with the printed-precision "
               "tolerance, each property in its own unit) over a stated exhaustive family, labelled bounded.")
ASSUMPTIONS = ["token layer: number formatting and parsing are replaced by the identity on numbers in the header/POSCAR proofs (rounding by the format is bounded)",
               "cell entries below 1e-9 of the largest are zeroed by the Box setter (C01 contract): cell equalities are stated as 'equal or zeroed'",
               "pandas.read_csv / to_csv behaviour is not assumed: everything depending on it is bounded", "bounded family stated in the group rule"]
UNCOVERED = ["per-atom table text round trips outside the enumerated family"]

LOADERS = ['atomman/load/atom_data/load.py', 'atomman/load/atom_dump/load.py', 'atomman/load/table/load.py', 'atomman/load/poscar/load.py']


@group('readers.third_party_signatures', kind='static', files=LOADERS, functions=['load.atom_data.load', 'load.table.load', 'load.atom_dump.load'],
       clause='every call from the readers into pandas uses only keywords the installed pandas accepts (otherwise every load raises TypeError)')
def reader_signatures(tier, seed):
    import pandas as pd
    obs, files = signature_obligations(LOADERS, {'read_csv': pd.read_csv, 'to_csv': pd.DataFrame.to_csv})
    return {'obligations': obs, 'files': files}


from . import io_family as F


def _dedupe(fails, cap=12):
    seen = {}
    for f in fails:
        seen.setdefault((f['obligation'], f['key']), f)
    return list(seen.values())[:cap]


def _shuffle_atom_lines(text, start_marker, natoms, rng, comment=True):
    """reorder the atom lines after the marker line (ids make the order irrelevant); add a comment and blank line where the format allows"""
    lines = text.split('\n')
    k = [i for i, l in enumerate(lines) if l.startswith(start_marker)][0]
    j = k + 1
    while not lines[j].strip():
        j += 1
    body = lines[j:j + natoms]
    perm = rng.permutation(natoms)
    body = [body[p] for p in perm]
    return '\n'.join(lines[:j] + body + lines[j + natoms:])


@group('roundtrip.atom_data', kind='bounded', files=['atomman/load/atom_data/load.py', 'atomman/dump/atom_data/dump.py'], functions=['load.atom_data.load', 'dump.atom_data.dump'],
       clause='loading a dumped LAMMPS data file reproduces cell, atom count, types, positions (modulo wrapping with image flags), velocity and charge with units undone, independent of atom '
              'line order, of comments and blank lines, and of how the text is supplied (string, path, stream); a file lacking a required section raises FileFormatError',
       rule='3 cells x atoms inside/outside/on faces x pbc x {atomic, charge} x unit styles x float formats x velocity on/off x {as dumped, shuffled lines + comments} x {str, path, stream}; '
            'non-trivial = wrapping needed, triclinic, or shuffled')
def roundtrip_data(tier, seed):
    from pyvc.native import atomman
    import numpy as np
    import tempfile
    am = atomman()
    rng = np.random.RandomState(seed + 11)
    pbcs = F.PBCS if tier == 'thorough' else [(True, True, True), (True, False, True), (False, False, False)]
    units_l = ['metal', 'real', 'si'] if tier == 'quick' else ['real', 'metal', 'si', 'cgs', 'electron', 'micro', 'nano']
    fails, samples = [], []
    evals = nontriv = 0
    tmpd = tempfile.mkdtemp(prefix='pyvc_io_')
    try:
        for bx, pl, pbc, (style, charge), units, ff, vel in itertools.product(list(F.BOXES), ['inside', 'outside', 'faces'], pbcs, [('atomic', False), ('charge', True)], units_l,
                                                                                 ['%.13f', '%.10e'], [False, True]):
            if units in ('si', 'cgs') and ff.endswith('f'):
                continue
            if tier == 'quick' and (sum(map(ord, repr((bx, pl, pbc, style, units, ff, vel)))) % 3):
                continue
            evals += 1
            variant = evals % 3
            key = 'box=%s,atoms=%s,pbc=%s,style=%s,units=%s,fmt=%s,vel=%s,given_as=%s' % (bx, pl, ''.join('p' if p else 'f' for p in pbc), style, units, ff, vel, ['stream', 'shuffled string', 'path'][variant])
            nontriv += (pl != 'inside' or bx == 'tricl' or variant == 1)
            msgs = []
            try:
                ref = F.make_system(am, bx, pl, pbc, velocity=vel, charge=charge, seed=evals)
                s = F.make_system(am, bx, pl, pbc, velocity=vel, charge=charge, seed=evals)
                text = s.dump('atom_data', atom_style=style, units=units, float_format=ff, return_info=False)
                if variant == 1:
                    text = _shuffle_atom_lines(text, 'Atoms', ref.natoms, rng)
                    text = text.replace('\nAtoms', '\n# a comment line\n\nAtoms', 1)
                    if vel:
                        text = _shuffle_atom_lines(text, 'Velocities', ref.natoms, rng)
                if variant == 2:
                    path = os.path.join(tmpd, 'f%d.dat' % evals)
                    open(path, 'w').write(text)
                    data = path
                elif variant == 0:
                    import io as _io
                    data = _io.BytesIO(text.encode("utf-8"))      # open streams are documented to be in bytes mode
                else:
                    data = text
                back = am.load('atom_data', data, pbc=pbc, symbols=ref.symbols, atom_style=style, units=units)
                tol = F.ftol(ff, 20.0) * (am.unitconvert.parse(am.lammps.style.unit(units)['length']) if ff.endswith('f') else 1.0)
                # documented normalisation: the file holds the wrapped system (cell possibly enlarged along non-periodic directions = s.box);
                # the image flags restore the original positions
                if not (F.close(back.box.vects, s.box.vects, tol * 10) and F.close(back.box.origin, s.box.origin, tol * 10)):
                    msgs.append('cell differs from the written (wrapped) cell')
                ref.box_set(vects=s.box.vects, origin=s.box.origin)
                lu_ = am.lammps.style.unit(units)
                pu_ = {'velocity': am.unitconvert.parse(lu_['velocity']), 'charge': am.unitconvert.parse(lu_['charge'])}     # the file holds each property in its own unit
                msgs += F.same_system(am, ref, back, tol, prop_unit=pu_, float_format=ff)
            except Exception as e:
                msgs.append('raised %s: %s' % (type(e).__name__, e))
            if msgs:
                fails.append({'obligation': 'roundtrip.atom_data.post', 'key': key, 'input': key, 'detail': '; '.join(msgs[:3])})
            elif len(samples) < 1:
                samples.append({'case': key})
        # missing sections
        good = F.make_system(am, 'tricl', 'inside', (True, True, True), seed=1).dump('atom_data', return_info=False)
        for what, bad in (('no atoms count', good.replace('6 atoms\n', '')), ('no box', '\n'.join(l for l in good.split('\n') if 'xlo' not in l)),
                          ('no Atoms section', good.split('Atoms')[0])):
            evals += 1
            try:
                am.load('atom_data', bad)
                fails.append({'obligation': 'roundtrip.atom_data.refusal', 'key': what, 'input': what, 'detail': 'file with %s was loaded instead of raising FileFormatError' % what})
            except am.load.FileFormatError if hasattr(am.load, 'FileFormatError') else Exception as e:
                pass
    finally:
        import shutil
        shutil.rmtree(tmpd, ignore_errors=True)
    return {'family': 'LAMMPS data round trips', 'evaluations': evals, 'distinct_nontrivial': nontriv, 'rule': 'see group rule; quick keeps every third tuple', 'samples': samples,
            'failures': _dedupe(fails), 'files': sha_files(['atomman/load/atom_data/load.py', 'atomman/dump/atom_data/dump.py'])}


@group('roundtrip.atom_dump_table', kind='bounded', files=['atomman/load/atom_dump/load.py', 'atomman/dump/atom_dump/dump.py', 'atomman/load/table/load.py', 'atomman/dump/table/dump.py',
                                                            'atomman/load/table/process_prop_info.py'],
       functions=['load.atom_dump.load', 'dump.atom_dump.dump', 'load.table.load', 'dump.table.dump'],
       clause='loading a dumped LAMMPS dump file or generic table reproduces cell (dump), atom count, types, positions and every carried per-atom property with its shape (using the column table '
              'returned by the writer), independent of atom line order; periodic flags are restored from the dump file',
       rule='3 cells x atoms inside/outside/on faces x pbc x unit styles x float formats x extra properties (3x3 tensor, int) on/off x shuffled lines; non-trivial = triclinic, outside or shuffled')
def roundtrip_dump_table(tier, seed):
    from pyvc.native import atomman
    import numpy as np
    am = atomman()
    rng = np.random.RandomState(seed + 5)
    pbcs = F.PBCS if tier == 'thorough' else [(True, True, True), (True, False, True), (False, False, False)]
    units_l = ['metal', 'nano'] if tier == 'quick' else ['real', 'metal', 'si', 'cgs', 'electron', 'micro', 'nano']
    fails, samples = [], []
    evals = nontriv = 0
    for bx, pl, pbc, units, ff, extra, shuffle in itertools.product(list(F.BOXES), ['inside', 'outside', 'faces'], pbcs, units_l, ['%.13f', '%.10e'], [False, True], [False, True]):
        if units in ('si', 'cgs') and ff.endswith('f'):
            continue
        evals += 1
        key = 'box=%s,atoms=%s,pbc=%s,units=%s,fmt=%s,extra=%s,shuffled=%s,given_as=%s' % (bx, pl, ''.join('p' if p else 'f' for p in pbc), units, ff, extra, shuffle, 'stream' if evals % 3 == 0 else 'string')
        nontriv += (pl != 'inside' or bx == 'tricl' or shuffle)
        msgs = []
        try:
            s = F.make_system(am, bx, pl, pbc, extra=extra, velocity=extra, seed=evals)
            text, info = s.dump('atom_dump', lammps_units=units, float_format=ff, return_prop_info=True)
            if shuffle:
                text = _shuffle_atom_lines(text, 'ITEM: ATOMS', s.natoms, rng)
            import io as _io
            src = _io.BytesIO(text.encode('utf-8')) if evals % 3 == 0 else text          # every third case is given as an open (bytes) stream
            back = am.load('atom_dump', src, symbols=s.symbols, lammps_units=units, prop_info=info)
            L = am.unitconvert.parse(am.lammps.style.unit(units)['length'])
            tol = F.ftol(ff, 20.0) * (L if ff.endswith('f') else 1.0)
            lu_ = am.lammps.style.unit(units)
            msgs = F.same_system(am, s, back, tol, prop_unit={'velocity': am.unitconvert.parse(lu_['velocity'])}, float_format=ff)
            # generic table (no cell in the format: the box is passed in)
            ttext, tinfo = s.dump('table', float_format=ff, return_prop_info=True)
            if shuffle and 'a_id' in ttext[:0]:
                pass
            tback = am.load('table', ttext, box=s.box, symbols=s.symbols, prop_info=tinfo)
            msgs += ['table: ' + m for m in F.same_system(am, s, tback, F.ftol(ff, 20.0), check_pbc=False)]
            # box-scaled position columns (xs ys zs): the column description is passed explicitly to writer and reader
            kw = dict(prop_name=['atom_id', 'atype', 'spos'])
            stext = s.dump('atom_dump', lammps_units=units, float_format='%.13e', **kw)
            sback = am.load('atom_dump', stext, symbols=s.symbols, lammps_units=units, **kw)
            msgs += ['scaled dump columns: ' + m for m in F.same_system(am, s, sback, 1e-9 * 50, props=[])]
            # positions stored box-scaled (unit 'scaled'), read back with the column-conversion table the WRITER returns
            for fmt_, extra_w, extra_r in (('atom_dump', dict(lammps_units=units), dict(symbols=s.symbols, lammps_units=units)), ('table', {}, dict(box=s.box, symbols=s.symbols))):
                pin = ([{'prop_name': 'atom_id', 'table_name': ['id']}] if fmt_ == 'atom_dump' else []) + [{'prop_name': 'atype', 'table_name': ['type']},
                                                                                                         {'prop_name': 'pos', 'table_name': ['xs', 'ys', 'zs'], 'unit': 'scaled'}]
                wtext, winfo = s.dump(fmt_, prop_info=pin, float_format='%.13e', return_prop_info=True, **extra_w)
                wback = am.load(fmt_, wtext, prop_info=winfo, **extra_r)
                msgs += ["%s, positions stored with unit 'scaled', read with the writer's returned column table: %s" % (fmt_, m) for m in F.same_system(am, s, wback, 1e-9 * 50, props=[], check_pbc=(fmt_ != 'table'))]
        except Exception as e:
            msgs.append('raised %s: %s' % (type(e).__name__, e))
        if msgs:
            fails.append({'obligation': 'roundtrip.atom_dump_table.post', 'key': key, 'input': key, 'detail': '; '.join(msgs[:3])})
        elif len(samples) < 1:
            samples.append({'case': key})
    return {'family': 'LAMMPS dump / table round trips', 'evaluations': evals, 'distinct_nontrivial': nontriv, 'rule': 'see group rule', 'samples': samples, 'failures': _dedupe(fails),
            'files': sha_files(['atomman/load/atom_dump/load.py', 'atomman/dump/atom_dump/dump.py', 'atomman/load/table/load.py', 'atomman/dump/table/dump.py'])}


@group('roundtrip.poscar', kind='bounded', files=['atomman/load/poscar/load.py', 'atomman/dump/poscar/dump.py'], functions=['load.poscar.load', 'dump.poscar.dump'],
       clause='loading a dumped POSCAR reproduces the cell, atom count, types (atoms grouped by type), positions and symbols, in direct and Cartesian mode with scale factors other than one; '
              'a POSCAR written independently by the VASP rules (scale factor applied to lattice and Cartesian coordinates) loads to the system it describes',
       rule='3 cells x atoms inside/outside x {direct, cartesian} x scale {1, 2.5} x symbols on/off x type gaps on/off x 2 formats, plus independently written files; non-trivial = scale != 1 or cartesian')
def roundtrip_poscar(tier, seed):
    from pyvc.native import atomman
    import numpy as np
    am = atomman()
    fails, samples = [], []
    evals = nontriv = 0
    for bx, pl, style, scale, sym, gaps, ff in itertools.product(['ortho0', 'tricl0'], ['inside', 'outside'], ['direct', 'cartesian'], [1.0, 2.5], [True, False], [False, True], ['%.13e', '%.8f']):
        key = 'box=%s,atoms=%s,coord=%s,scale=%g,symbols=%s,gaps=%s,fmt=%s' % (bx, pl, style, scale, sym, gaps, ff)
        evals += 1
        nontriv += (scale != 1.0 or style == 'cartesian')
        msgs = []
        try:
            F.BOXES.setdefault('tricl0', dict(vects=F.BOXES['tricl']['vects'], origin=[0, 0, 0]))
            s = F.make_system(am, bx, pl, (True, True, True), symbols=sym, gaps=False, seed=evals)
            if gaps:
                s.atoms.atype = np.array([1, 3, 1, 3, 3, 1])
                s.symbols = ['Al', 'Cu', 'Ni'] if sym else [None, None, None]
            text = s.dump('poscar', coordstyle=style, box_scale=scale, float_format=ff)
            back = am.load('poscar', text)
            order = np.argsort(s.atoms.atype, kind='stable')
            want = s.atoms_ix[order] if hasattr(s, 'atoms_ix') else s
            tol = F.ftol(ff, 20.0)
            if back.natoms != s.natoms:
                msgs.append('atom count %d != %d' % (back.natoms, s.natoms))
            else:
                if not F.close(back.box.vects, s.box.vects, tol * 10):
                    msgs.append('cell differs')
                if not np.array_equal(back.atoms.atype, s.atoms.atype[order]):
                    msgs.append('types %r != %r' % (back.atoms.atype.tolist(), s.atoms.atype[order].tolist()))
                if not F.close(back.atoms.pos, s.atoms.pos[order], tol * 40):
                    msgs.append('positions differ (max %g)' % np.abs(back.atoms.pos - s.atoms.pos[order]).max())
                if sym and tuple(back.symbols) != tuple(s.symbols):
                    msgs.append('symbols %r != %r' % (back.symbols, s.symbols))
            # a file written here by the VASP rules
            V = s.box.vects
            lines = ['independent', '%.12f' % scale] + ['%.12f %.12f %.12f' % tuple(r / scale) for r in V] + ['2 4' if False else ' '.join(str(int((s.atoms.atype == t).sum())) for t in sorted(set(s.atoms.atype.tolist()))),
                                                                                                                  'Cartesian' if style == 'cartesian' else 'Direct']
            P = s.atoms.pos[order]
            coords = P / scale if style == 'cartesian' else P.dot(np.linalg.inv(V))
            lines += ['%.12f %.12f %.12f' % tuple(c) for c in coords]
            ind = am.load('poscar', '\n'.join(lines))
            if not (F.close(ind.box.vects, V, 1e-9) and F.close(ind.atoms.pos, P, 1e-8)):
                msgs.append('a POSCAR written by the VASP rules (scale %g, %s) loads to positions %r instead of %r' % (scale, style, ind.atoms.pos[:2].round(5).tolist(), P[:2].round(5).tolist()))
        except Exception as e:
            msgs.append('raised %s: %s' % (type(e).__name__, e))
        if msgs:
            fails.append({'obligation': 'roundtrip.poscar.post', 'key': key, 'input': key, 'detail': '; '.join(msgs[:3])})
        elif len(samples) < 1:
            samples.append({'case': key})
    return {'family': 'POSCAR round trips', 'evaluations': evals, 'distinct_nontrivial': nontriv, 'rule': 'see group rule', 'samples': samples, 'failures': _dedupe(fails),
            'files': sha_files(['atomman/load/poscar/load.py', 'atomman/dump/poscar/dump.py'])}


# ----------------------------------------------------------------------------
# POSCAR: reader and round trip on symbolic systems, numbers carried through the text as tokens (printf / strtod replaced by the identity on numbers)

import io as _io
from pyvc import symnp as snp
from pyvc.sym import Sym
from .common import And, Or, Not
from .common_io import Tokens
from .c07 import _sym_system, POSCAR_W

POSCAR_R = 'atomman/load/poscar/load.py'


def _replay_poscar(stem, vals):
    from pyvc.native import atomman
    am = atomman()
    msgs = []
    try:
        for bx, style, scale in itertools.product(('ortho0', 'tricl'), ('direct', 'Cartesian'), (1.0, 2.5)):
            s = F.make_system(am, bx, 'inside', (True, True, True), seed=4)
            if style == 'Cartesian':
                s.box_set(vects=s.box.vects, origin=[0, 0, 0])
                s.atoms.pos -= _np.array(F.BOXES[bx]['origin'])
            text = s.dump('poscar', coordstyle=style, box_scale=scale)
            back = am.load('poscar', text)
            order = _np.argsort(s.atoms.atype, kind='stable')
            want = s.atoms.pos[order] - s.box.origin
            if not _np.allclose(back.box.vects, s.box.vects, atol=1e-9) or not _np.allclose(back.atoms.pos, want, atol=1e-8) or list(back.atoms.atype) != sorted(s.atoms.atype):
                msgs.append('POSCAR round trip (%s, %s, scale %g) differs: max position error %.3g' % (bx, style, scale, _np.abs(back.atoms.pos - want).max()))
        for style, want in (('Cartesian', [[0.25, 0.5, 0.75]]), ('Direct', [[0.25, 1.0, 2.25]])):
            text = 'c\n2.5\n1 0 0\n0 2 0\n0 0 3\nCu\n1\n%s\n0.1 0.2 0.3\n' % style
            back = am.load('poscar', text)
            if not _np.allclose(back.atoms.pos, want, atol=1e-12) or not _np.allclose(back.box.vects, _np.diag([2.5, 5.0, 7.5]), atol=1e-12):
                msgs.append('a %s POSCAR with scale 2.5 loads to position %r (expected %r), cell %r' % (style, back.atoms.pos.tolist(), want, back.box.vects.tolist()))
    except Exception as e:
        msgs.append('raised %s: %s' % (type(e).__name__, e))
    return (len(msgs) > 0, '; '.join(msgs[:3]) if msgs else 'float replay of the POSCAR contracts found no disagreement')


def _given_or_zeroed(S, want):
    """entry of a cell built through the Box setter: kept, or zeroed when below 1e-9 of the largest entry (C01 contract of the setter)"""
    return Or(S == want, S == 0)


@group('poscar.reader_and_roundtrip.tokens', files=[POSCAR_R, POSCAR_W, 'atomman/core/System.py', 'atomman/core/Box.py', 'atomman/core/Atoms.py'],
       functions=['load.poscar.load', 'dump.poscar.dump'],
       clause='POSCAR on symbolic systems with numbers carried through the text as tokens: (reader) scale x the three lattice lines become the cell vectors, symbols and counts give the '
              'atom types in file order, coordinate lines are read as relative (direct) or scale x Cartesian positions; (round trip) load(dump(s)) has the cell vectors of s, the atoms '
              'of s grouped by type in their original order with their positions relative to the cell origin (the format stores no origin), the symbols, for direct and Cartesian '
              'styles and any positive scale; files with and without a symbols line are read alike', replay=_replay_poscar, timeout_ms=60000)
def poscar_roundtrip(E, L):
    wmod = L.load(POSCAR_W)
    rmod = L.load(POSCAR_R)
    first = True
    for style, origin, with_symbols in (('direct', True, True), ('Cartesian', False, True), ('direct', False, False)):
        system, V, o, s, pos = _sym_system(E, L, origin=origin)
        scale = E.real('scale')
        E.assume(scale > 0)
        if first:
            E.canary('poscar.roundtrip.canary', s[0, 0] == scale)
            first = False
        E.side_enabled = False
        with Tokens() as tk:
            text = wmod.dump(system, header='h', coordstyle=style, box_scale=scale, float_format='%s', symbols=None if with_symbols else None)
            if not with_symbols:
                lines = text.split('\n')
                del lines[5]
                text = '\n'.join(lines)
            real_np = rmod.np
            rmod.np = tk.np_proxy(snp)
            rmod.float = tk.value               # module-level name shadows the builtin inside the reader only
            try:
                back = rmod.load(_io.BytesIO(text.encode('utf-8')))
            finally:
                rmod.np = real_np
                del rmod.float
        E.side_enabled = True
        tag = 'poscar.roundtrip[%s,%s]' % (style, 'symbols' if with_symbols else 'no_symbols')
        E.prove(tag + '.natoms_types', back.natoms == 3 and [int(x) for x in back.atoms.view['atype']] == [1, 2, 2])
        E.prove(tag + '.symbols', tuple(back.symbols) == (('Al', 'Cu') if with_symbols else (None, None)))
        bv = back.box._Box__vects
        for i in range(3):
            for j in range(3):
                E.prove(tag + '.cell[%d,%d]' % (i, j), _given_or_zeroed(bv[i, j], V[i, j]))
        E.prove(tag + '.origin_not_stored', all(float(x) == 0.0 for x in back.box._Box__origin))
        order = [1, 0, 2]
        bp = back.atoms.view['pos']
        # positions: relative coordinates times the loaded cell (direct) / the Cartesian coordinates (origin zero in that variant)
        for r, k in enumerate(order):
            for j in range(3):
                if style[0] in 'cCkK':
                    E.prove(tag + '.position[%d,%d]' % (r, j), bp[r, j] == pos[k, j])
                else:
                    E.prove(tag + '.position_relative_to_origin[%d,%d]' % (r, j), bp[r, j] == s[k, 0] * bv[0, j] + s[k, 1] * bv[1, j] + s[k, 2] * bv[2, j])


@group('poscar.reader.tokens', files=[POSCAR_R, 'atomman/core/System.py', 'atomman/core/Box.py'], functions=['load.poscar.load'],
       clause='POSCAR reader alone, on a file written by the VASP rules with symbolic numbers (tokens): cell vectors = scale x lattice lines; with a symbols line or without; counts give '
              'the types in file order; coordinate lines are Cartesian positions / scale (cartesian, kartesisch: first letter c, C, k, K) or relative coordinates (anything else); '
              'selective-dynamics flags after the three numbers are ignored', replay=_replay_poscar, timeout_ms=60000)
def poscar_reader(E, L):
    rmod = L.load(POSCAR_R)
    first = True
    for style, with_symbols, flags in (('Cartesian', True, False), ('kartesisch', False, True), ('Direct', True, True), ('direct', False, False)):
        lat = E.reals('lat', (3, 3))
        co = E.reals('co', (3, 3))
        scale = E.real('scale')
        E.assume(scale > 0)
        if first:
            E.canary('poscar.reader.canary', lat[0, 0] == scale)
            first = False
        E.side_enabled = False
        with Tokens() as tk:
            lines = ['comment', str(scale)] + [' '.join(str(lat[i, j]) for j in range(3)) for i in range(3)]
            if with_symbols:
                lines.append('Cu Al')
            lines.append('2 1')
            lines.append(style)
            for k in range(3):
                lines.append(' '.join(str(co[k, j]) for j in range(3)) + (' T T F' if flags else ''))
            text = '\n'.join(lines) + '\n'
            real_np = rmod.np
            rmod.np = tk.np_proxy(snp)
            rmod.float = tk.value
            try:
                back = rmod.load(_io.BytesIO(text.encode('utf-8')))
            finally:
                rmod.np = real_np
                del rmod.float
        E.side_enabled = True
        tag = 'poscar.reader[%s,%s]' % (style, 'symbols' if with_symbols else 'no_symbols')
        E.prove(tag + '.types', back.natoms == 3 and [int(x) for x in back.atoms.view['atype']] == [1, 1, 2])
        E.prove(tag + '.symbols', tuple(back.symbols) == (('Cu', 'Al') if with_symbols else (None, None)))
        bv = back.box._Box__vects
        for i in range(3):
            for j in range(3):
                E.prove(tag + '.cell[%d,%d]' % (i, j), _given_or_zeroed(bv[i, j], scale * lat[i, j]))
        bp = back.atoms.view['pos']
        for k in range(3):
            for j in range(3):
                if style[0] in 'cCkK':
                    E.prove(tag + '.cartesian_times_scale[%d,%d]' % (k, j), bp[k, j] == scale * co[k, j])
                else:
                    E.prove(tag + '.relative_times_cell[%d,%d]' % (k, j), bp[k, j] == co[k, 0] * bv[0, j] + co[k, 1] * bv[1, j] + co[k, 2] * bv[2, j])


DATA_R = 'atomman/load/atom_data/load.py'
DATA_W = 'atomman/dump/atom_data/dump.py'
UNITS7 = ['real', 'metal', 'si', 'cgs', 'electron', 'micro', 'nano']


def _replay_data_header(stem, vals):
    from pyvc.native import atomman
    am = atomman()
    msgs = []
    try:
        for bx, units in itertools.product(('orthoO', 'tricl'), ('metal', 'nano', 'si', 'electron')):
            s = F.make_system(am, bx, 'inside', (True, True, True), seed=2)
            text = s.dump('atom_data', units=units, float_format='%.13e', return_info=False)
            back = am.load('atom_data', text, units=units)
            if not _np.allclose(back.box.vects, s.box.vects, rtol=1e-10, atol=1e-10) or not _np.allclose(back.box.origin, s.box.origin, rtol=1e-10, atol=1e-10):
                msgs.append('%s cell under %s units: loaded %r @ %r, written %r @ %r' % (bx, units, back.box.vects.tolist(), back.box.origin.tolist(), s.box.vects.tolist(), s.box.origin.tolist()))
    except Exception as e:
        msgs.append('raised %s: %s' % (type(e).__name__, e))
    return (len(msgs) > 0, '; '.join(msgs[:3]) if msgs else 'float replay of the data-file header contracts found no disagreement')


@group('data_file.header.tokens', files=[DATA_R, DATA_W, 'atomman/core/Box.py', 'atomman/unitconvert.py'], functions=['load.atom_data.firstpass', 'load.atom_data.read_mass', 'dump.atom_data.box_content'],
       clause='LAMMPS data header with symbolic numbers (tokens), all seven unit styles: the line scanner takes atom count, type count, the three bound lines and the tilt line by their '
              'keywords in any order, ignoring comments; the cell it builds has origin (xlo,ylo,zlo), diagonal (xhi-xlo, yhi-ylo, zhi-zlo) and tilts (xy,xz,yz) in working units; masses '
              'are stored per type; the Atoms/Velocities section starts, column count and atom_style comment are located; missing items are refused; and the header written by the '
              'real writer for a symbolic cell is read back to that cell', replay=_replay_data_header, timeout_ms=60000)
def data_header(E, L):
    rmod = L.load(DATA_R)
    wmod = L.load(DATA_W)
    uc = L.resolve('atomman.unitconvert')
    core = L.resolve('atomman.core')
    from .common import arb_box
    first = True
    for units, tilted in itertools.product(UNITS7, (True, False)):
        box, V, o = arb_box(E, core.Box, lammps=True)
        if not tilted:
            V[1, 0] = V[2, 0] = V[2, 1] = 0.0
        else:
            E.assume(Or(V[1, 0] != 0, V[2, 0] != 0, V[2, 1] != 0))
        m1, m2 = E.real('m1'), E.real('m2')
        E.assume(m1 > 0)
        E.assume(m2 > 0)
        if first:
            E.canary('data_file.header.canary', V[0, 0] == o[0])
            first = False

        class S(object):
            pass
        sysm = S()
        sysm.box = box
        E.side_enabled = False
        with Tokens() as tk:
            head = wmod.box_content(sysm, units, '%s')
            text = ('# a comment\n\n3 atoms\n2 atom types\n' + head + '\nMasses\n\n2 %s # second\n1 %s\n\nAtoms # charge\n\n1 1 0.0 0.0 0.0 0.0\n2 2 0.0 0.0 0.0 0.0\n3 1 0.0 0.0 0.0 0.0\n'
                    '\nVelocities\n\n1 0 0 0\n2 0 0 0\n3 0 0 0\n') % (str(m2), str(m1))
            rmod.float = tk.value
            try:
                system, params = rmod.firstpass(text, (True, False, True), ['Al', 'Cu'], units)
            finally:
                del rmod.float
        E.side_enabled = True
        tag = 'data_file.header[%s,%s]' % (units, 'tilted' if tilted else 'orthogonal')
        bv, bo = system.box._Box__vects, system.box._Box__origin
        for i in range(3):
            E.prove(tag + '.origin[%d]' % i, bo[i] == o[i])
            for j in range(3):
                E.prove(tag + '.cell[%d,%d]' % (i, j), _given_or_zeroed(bv[i, j], V[i, j]))
        E.prove(tag + '.counts', system.natoms == 3 and tuple(bool(x) for x in system.pbc) == (True, False, True) and tuple(system.symbols) == ('Al', 'Cu'))
        ms = system.masses
        E.prove(tag + '.masses', And(ms[0] == m1, ms[1] == m2))
        lines = text.split('\n')
        E.prove(tag + '.sections', lines[params['atomsstart'] - 1].startswith('Atoms') and lines[params['velocitiesstart'] - 1] == 'Velocities' and params['atomscolumns'] == 6
                and params['atom_style'] == 'charge')
    # keyword lines in a different order, with comments, hand-written by the LAMMPS rules
    lo = E.reals('lo', (3,))
    hi = E.reals('hi', (3,))
    tl = E.reals('tl', (3,))
    for k in range(3):
        E.assume(hi[k] > lo[k])
    with Tokens() as tk:
        text = ('title\n%s %s %s xy xz yz # tilt first\n%s %s zlo zhi\n2 atom types\n%s %s ylo yhi\n5 atoms\n%s %s xlo xhi\n\nAtoms\n\n1 1 0 0 0 0 0 0\n'
                % (str(tl[0]), str(tl[1]), str(tl[2]), str(lo[2]), str(hi[2]), str(lo[1]), str(hi[1]), str(lo[0]), str(hi[0])))
        rmod.float = tk.value
        try:
            system, params = rmod.firstpass(text, (True, True, True), None, 'metal')
        finally:
            del rmod.float
    bv, bo = system.box._Box__vects, system.box._Box__origin
    Lu = uc.parse('angstrom')
    want = [[(hi[0] - lo[0]) * Lu, 0, 0], [tl[0] * Lu, (hi[1] - lo[1]) * Lu, 0], [tl[1] * Lu, tl[2] * Lu, (hi[2] - lo[2]) * Lu]]
    for i in range(3):
        E.prove('data_file.header[any_order].origin[%d]' % i, bo[i] == lo[i] * Lu)
        for j in range(3):
            E.prove('data_file.header[any_order].cell[%d,%d]' % (i, j), _given_or_zeroed(bv[i, j], want[i][j]))
    E.prove('data_file.header[any_order].rest', system.natoms == 5 and params['atom_style'] is None and params['atomscolumns'] == 8 and params['velocitiesstart'] is None
            and all(m is None for m in system.masses))
    # refusals
    good = '3 atoms\n1 atom types\n0 1 xlo xhi\n0 1 ylo yhi\n0 1 zlo zhi\n\nAtoms\n\n1 1 0 0 0\n'
    FFE = L.resolve('atomman.load').FileFormatError
    for nm, bad in (('no_atom_count', good.replace('3 atoms\n', '')), ('no_x_bounds', good.replace('0 1 xlo xhi\n', '')), ('no_y_bounds', good.replace('0 1 ylo yhi\n', '')),
                    ('no_z_bounds', good.replace('0 1 zlo zhi\n', '')), ('no_atoms_section', good.split('Atoms')[0]),
                    ('masses_before_types', '3 atoms\nMasses\n\n1 1.0\n' + good), ('mass_twice', good.replace('\nAtoms', '\nMasses\n\n1 2.0\n\nAtoms').replace('1 2.0\n', '1 2.0\n', 1)),
                    ('bad_mass_type', good.replace('\nAtoms', '\nMasses\n\n2 2.0\n\nAtoms')), ('nonpositive_mass', good.replace('\nAtoms', '\nMasses\n\n1 0.0\n\nAtoms'))):
        if nm == 'mass_twice':
            bad = '3 atoms\n2 atom types\n0 1 xlo xhi\n0 1 ylo yhi\n0 1 zlo zhi\n\nMasses\n\n1 2.0\n1 3.0\n\nAtoms\n\n1 1 0 0 0\n'
        try:
            rmod.firstpass(bad, (True, True, True), None, 'metal')
            E.prove('data_file.header.refuses[%s]' % nm, False)
        except FFE:
            E.prove('data_file.header.refuses[%s]' % nm, True)


DUMP_R = 'atomman/load/atom_dump/load.py'
DUMP_W = 'atomman/dump/atom_dump/dump.py'


def _replay_dump_header(stem, vals):
    from pyvc.native import atomman
    am = atomman()
    msgs = []
    try:
        for bx, units, pbc in itertools.product(('orthoO', 'tricl'), ('metal', 'nano', 'si'), ((True, True, True), (False, True, False))):
            s = F.make_system(am, bx, 'inside', pbc, seed=2)
            text = s.dump('atom_dump', lammps_units=units, float_format='%.13e')
            back = am.load('atom_dump', text, lammps_units=units)
            if not _np.allclose(back.box.vects, s.box.vects, rtol=1e-10, atol=1e-10) or not _np.allclose(back.box.origin, s.box.origin, rtol=1e-10, atol=1e-10) \
                    or tuple(bool(x) for x in back.pbc) != tuple(pbc):
                msgs.append('%s cell under %s units, pbc %r: loaded %r @ %r pbc %r' % (bx, units, pbc, back.box.vects.tolist(), back.box.origin.tolist(), tuple(back.pbc)))
        for V in ([[4.0, 0, 0], [1.2, 5.0, 0], [0.7, 0.9, 6.0]], [[4.0, 0, 0], [-1.2, 5.0, 0], [-0.7, -0.9, 6.0]]):          # tilts of equal sign: the xy+xz corner matters
            s = am.System(atoms=am.Atoms(pos=_np.array([[0.1, 0.2, 0.3], [0.6, 0.4, 0.7]]).dot(V) + [0.5, -2.0, 3.0]), box=am.Box(vects=V, origin=[0.5, -2.0, 3.0]))
            back = am.load('atom_dump', s.dump('atom_dump', float_format='%.13e'))
            if not _np.allclose(back.box.vects, s.box.vects, atol=1e-10) or not _np.allclose(back.box.origin, s.box.origin, atol=1e-10):
                msgs.append('cell %r @ %r is loaded back from its dump as %r @ %r' % (V, [0.5, -2.0, 3.0], back.box.vects.tolist(), back.box.origin.tolist()))
    except Exception as e:
        msgs.append('raised %s: %s' % (type(e).__name__, e))
    return (len(msgs) > 0, '; '.join(msgs[:3]) if msgs else 'float replay of the dump header contracts found no disagreement')


@group('dump_file.header.tokens', files=[DUMP_R, DUMP_W, 'atomman/core/Box.py', 'atomman/unitconvert.py'], functions=['load.atom_dump.load (header scan)', 'dump.atom_dump.dump (header)'],
       clause='LAMMPS dump header with symbolic numbers (tokens): the header written by the real writer for a symbolic LAMMPS-normal cell (orthogonal and tilted, four unit styles, three '
              'periodicities) is read back to that cell -- bounding-box bounds are converted back to lo/hi with the tilt factors -- with the atom count, the periodic flags (pp periodic, '
              'anything else not) and the location and column names of the ATOMS item handed to the table reader', replay=_replay_dump_header, timeout_ms=60000)
def dump_header_roundtrip(E, L):
    rmod = L.load(DUMP_R)
    wmod = L.load(DUMP_W)
    first = True
    for units, tilted, pbc in itertools.product(('metal', 'real', 'nano', 'si'), (True, False), ((True, True, True), (True, False, True), (False, False, False))):
        system, V, o, s, pos = _sym_system(E, L, pbc=pbc)
        if not tilted:
            box = system.box
            box._Box__vects[1, 0] = 0.0
            box._Box__vects[2, 0] = 0.0
            box._Box__vects[2, 1] = 0.0
            V = box._Box__vects
        else:
            E.assume(Or(V[1, 0] != 0, V[2, 0] != 0, V[2, 1] != 0))
        if first:
            E.canary('dump_file.header.roundtrip.canary', V[0, 0] == o[0])
            first = False
        calls = []

        def amload_stub(style, data, **kw):
            calls.append((style, kw))
            return kw['system']
        real_td, real_am = wmod.table_dump, rmod.amload
        wmod.table_dump = lambda system, prop_info=None, float_format=None: '1 1 0 0 0\n2 2 0 0 0\n3 2 0 0 0\n'
        rmod.amload = amload_stub
        E.side_enabled = False
        try:
            with Tokens() as tk:
                text = wmod.dump(system, lammps_units=units, float_format='%s')
                rmod.float = tk.value
                try:
                    back = rmod.load(text, lammps_units=units, symbols=['Al', 'Cu'])
                finally:
                    del rmod.float
        finally:
            wmod.table_dump, rmod.amload = real_td, real_am
            E.side_enabled = True
        tag = 'dump_file.header.roundtrip[%s,%s,%s]' % (units, 'tilted' if tilted else 'orthogonal', ''.join('p' if p else 'f' for p in pbc))
        bv, bo = back.box._Box__vects, back.box._Box__origin
        for i in range(3):
            E.prove(tag + '.origin[%d]' % i, bo[i] == o[i])
            for j in range(3):
                E.prove(tag + '.cell[%d,%d]' % (i, j), _given_or_zeroed(bv[i, j], V[i, j]))
        E.prove(tag + '.natoms_pbc', back.natoms == 3 and tuple(bool(x) for x in back.pbc) == tuple(pbc))
        E.prove(tag + '.table_reader_call', len(calls) == 1 and calls[0][0] == 'table' and calls[0][1]['nrows'] == 3 and calls[0][1]['skiprows'] == 9
                and [p['prop_name'] for p in calls[0][1]['prop_info']] == ['atom_id', 'atype', 'pos'] and calls[0][1]['symbols'] == ['Al', 'Cu'])
