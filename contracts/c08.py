"""C08 — Loading what was dumped returns the system (LAMMPS data/dump, table, POSCAR)."""
import hashlib
import itertools
import os

import numpy as _np

from pyvc.runner import group, REPO
from .common_io import signature_obligations, sha_files

LEVEL = 'other'
EXPLANATION = ("Static obligations (every third-party call of the readers binds to the installed pandas signature) are decided exactly; the round-trip clauses run through "
               "pandas' CSV reader/writer and C printf/strtod, which no verifier available here reaches: they are BOUNDED run-time contract checks (load(dump(s)) compared "
               "field by field against the original system with the printed-precision tolerance) over a stated exhaustive family, labelled bounded.")
ASSUMPTIONS = ["pandas.read_csv / to_csv behaviour is not assumed: everything depending on it is bounded", "bounded family stated in the group rule"]
UNCOVERED = ["text round trips outside the enumerated family"]

LOADERS = ['atomman/load/atom_data/load.py', 'atomman/load/atom_dump/load.py', 'atomman/load/table/load.py', 'atomman/load/poscar/load.py']


@group('readers.third_party_signatures', kind='static', files=LOADERS, functions=['load.atom_data.load', 'load.table.load', 'load.atom_dump.load'],
       clause='every call from the readers into pandas uses only keywords the installed pandas accepts (otherwise every load raises TypeError)')
def reader_signatures(tier, seed):
    import pandas as pd
    obs, files = signature_obligations(LOADERS, {'read_csv': pd.read_csv, 'to_csv': pd.DataFrame.to_csv})
    return {'obligations': obs, 'files': files}


from . import io_family as F


def _dedupe(fails, cap=12):
    seen = {}
    for f in fails:
        seen.setdefault((f['obligation'], f['key']), f)
    return list(seen.values())[:cap]


def _shuffle_atom_lines(text, start_marker, natoms, rng, comment=True):
    """reorder the atom lines after the marker line (ids make the order irrelevant); add a comment and blank line where the format allows"""
    lines = text.split('\n')
    k = [i for i, l in enumerate(lines) if l.startswith(start_marker)][0]
    j = k + 1
    while not lines[j].strip():
        j += 1
    body = lines[j:j + natoms]
    perm = rng.permutation(natoms)
    body = [body[p] for p in perm]
    return '\n'.join(lines[:j] + body + lines[j + natoms:])


@group('roundtrip.atom_data', kind='bounded', files=['atomman/load/atom_data/load.py', 'atomman/dump/atom_data/dump.py'], functions=['load.atom_data.load', 'dump.atom_data.dump'],
       clause='loading a dumped LAMMPS data file reproduces cell, atom count, types, positions (modulo wrapping with image flags), velocity and charge with units undone, independent of atom '
              'line order, of comments and blank lines, and of how the text is supplied (string, path, stream); a file lacking a required section raises FileFormatError',
       rule='3 cells x atoms inside/outside/on faces x pbc x {atomic, charge} x unit styles x float formats x velocity on/off x {as dumped, shuffled lines + comments} x {str, path, stream}; '
            'non-trivial = wrapping needed, triclinic, or shuffled')
def roundtrip_data(tier, seed):
    from pyvc.native import atomman
    import numpy as np
    import tempfile
    am = atomman()
    rng = np.random.RandomState(seed + 11)
    pbcs = F.PBCS if tier == 'thorough' else [(True, True, True), (True, False, True), (False, False, False)]
    units_l = ['metal', 'real', 'si'] if tier == 'quick' else ['real', 'metal', 'si', 'cgs', 'electron', 'micro', 'nano']
    fails, samples = [], []
    evals = nontriv = 0
    tmpd = tempfile.mkdtemp(prefix='pyvc_io_')
    try:
        for bx, pl, pbc, (style, charge), units, ff, vel in itertools.product(list(F.BOXES), ['inside', 'outside', 'faces'], pbcs, [('atomic', False), ('charge', True)], units_l,
                                                                                 ['%.13f', '%.10e'], [False, True]):
            if units in ('si', 'cgs') and ff.endswith('f'):
                continue
            if tier == 'quick' and (sum(map(ord, repr((bx, pl, pbc, style, units, ff, vel)))) % 3):
                continue
            evals += 1
            variant = evals % 3
            key = 'box=%s,atoms=%s,pbc=%s,style=%s,units=%s,fmt=%s,vel=%s,given_as=%s' % (bx, pl, ''.join('p' if p else 'f' for p in pbc), style, units, ff, vel, ['stream', 'shuffled string', 'path'][variant])
            nontriv += (pl != 'inside' or bx == 'tricl' or variant == 1)
            msgs = []
            try:
                ref = F.make_system(am, bx, pl, pbc, velocity=vel, charge=charge, seed=evals)
                s = F.make_system(am, bx, pl, pbc, velocity=vel, charge=charge, seed=evals)
                text = s.dump('atom_data', atom_style=style, units=units, float_format=ff, return_info=False)
                if variant == 1:
                    text = _shuffle_atom_lines(text, 'Atoms', ref.natoms, rng)
                    text = text.replace('\nAtoms', '\n# a comment line\n\nAtoms', 1)
                    if vel:
                        text = _shuffle_atom_lines(text, 'Velocities', ref.natoms, rng)
                if variant == 2:
                    path = os.path.join(tmpd, 'f%d.dat' % evals)
                    open(path, 'w').write(text)
                    data = path
                elif variant == 0:
                    import io as _io
                    data = _io.BytesIO(text.encode("utf-8"))      # open streams are documented to be in bytes mode
                else:
                    data = text
                back = am.load('atom_data', data, pbc=pbc, symbols=ref.symbols, atom_style=style, units=units)
                tol = F.ftol(ff, 20.0) * (am.unitconvert.parse(am.lammps.style.unit(units)['length']) if ff.endswith('f') else 1.0)
                # documented normalisation: the file holds the wrapped system (cell possibly enlarged along non-periodic directions = s.box);
                # the image flags restore the original positions
                if not (F.close(back.box.vects, s.box.vects, tol * 10) and F.close(back.box.origin, s.box.origin, tol * 10)):
                    msgs.append('cell differs from the written (wrapped) cell')
                ref.box_set(vects=s.box.vects, origin=s.box.origin)
                lu_ = am.lammps.style.unit(units)
                pu_ = {'velocity': am.unitconvert.parse(lu_['velocity']), 'charge': am.unitconvert.parse(lu_['charge'])}     # the file holds each property in its own unit
                msgs += F.same_system(am, ref, back, tol, prop_unit=pu_, float_format=ff)
            except Exception as e:
                msgs.append('raised %s: %s' % (type(e).__name__, e))
            if msgs:
                fails.append({'obligation': 'roundtrip.atom_data.post', 'key': key, 'input': key, 'detail': '; '.join(msgs[:3])})
            elif len(samples) < 1:
                samples.append({'case': key})
        # missing sections
        good = F.make_system(am, 'tricl', 'inside', (True, True, True), seed=1).dump('atom_data', return_info=False)
        for what, bad in (('no atoms count', good.replace('6 atoms\n', '')), ('no box', '\n'.join(l for l in good.split('\n') if 'xlo' not in l)),
                          ('no Atoms section', good.split('Atoms')[0])):
            evals += 1
            try:
                am.load('atom_data', bad)
                fails.append({'obligation': 'roundtrip.atom_data.refusal', 'key': what, 'input': what, 'detail': 'file with %s was loaded instead of raising FileFormatError' % what})
            except am.load.FileFormatError if hasattr(am.load, 'FileFormatError') else Exception as e:
                pass
    finally:
        import shutil
        shutil.rmtree(tmpd, ignore_errors=True)
    return {'family': 'LAMMPS data round trips', 'evaluations': evals, 'distinct_nontrivial': nontriv, 'rule': 'see group rule; quick keeps every third tuple', 'samples': samples,
            'failures': _dedupe(fails), 'files': sha_files(['atomman/load/atom_data/load.py', 'atomman/dump/atom_data/dump.py'])}


@group('roundtrip.atom_dump_table', kind='bounded', files=['atomman/load/atom_dump/load.py', 'atomman/dump/atom_dump/dump.py', 'atomman/load/table/load.py', 'atomman/dump/table/dump.py',
                                                            'atomman/load/table/process_prop_info.py'],
       functions=['load.atom_dump.load', 'dump.atom_dump.dump', 'load.table.load', 'dump.table.dump'],
       clause='loading a dumped LAMMPS dump file or generic table reproduces cell (dump), atom count, types, positions and every carried per-atom property with its shape (using the column table '
              'returned by the writer), independent of atom line order; periodic flags are restored from the dump file',
       rule='3 cells x atoms inside/outside/on faces x pbc x unit styles x float formats x extra properties (3x3 tensor, int) on/off x shuffled lines; non-trivial = triclinic, outside or shuffled')
def roundtrip_dump_table(tier, seed):
    from pyvc.native import atomman
    import numpy as np
    am = atomman()
    rng = np.random.RandomState(seed + 5)
    pbcs = F.PBCS if tier == 'thorough' else [(True, True, True), (True, False, True), (False, False, False)]
    units_l = ['metal', 'nano'] if tier == 'quick' else ['real', 'metal', 'si', 'cgs', 'electron', 'micro', 'nano']
    fails, samples = [], []
    evals = nontriv = 0
    for bx, pl, pbc, units, ff, extra, shuffle in itertools.product(list(F.BOXES), ['inside', 'outside', 'faces'], pbcs, units_l, ['%.13f', '%.10e'], [False, True], [False, True]):
        if units in ('si', 'cgs') and ff.endswith('f'):
            continue
        evals += 1
        key = 'box=%s,atoms=%s,pbc=%s,units=%s,fmt=%s,extra=%s,shuffled=%s,given_as=%s' % (bx, pl, ''.join('p' if p else 'f' for p in pbc), units, ff, extra, shuffle, 'stream' if evals % 3 == 0 else 'string')
        nontriv += (pl != 'inside' or bx == 'tricl' or shuffle)
        msgs = []
        try:
            s = F.make_system(am, bx, pl, pbc, extra=extra, velocity=extra, seed=evals)
            text, info = s.dump('atom_dump', lammps_units=units, float_format=ff, return_prop_info=True)
            if shuffle:
                text = _shuffle_atom_lines(text, 'ITEM: ATOMS', s.natoms, rng)
            import io as _io
            src = _io.BytesIO(text.encode('utf-8')) if evals % 3 == 0 else text          # every third case is given as an open (bytes) stream
            back = am.load('atom_dump', src, symbols=s.symbols, lammps_units=units, prop_info=info)
            L = am.unitconvert.parse(am.lammps.style.unit(units)['length'])
            tol = F.ftol(ff, 20.0) * (L if ff.endswith('f') else 1.0)
            lu_ = am.lammps.style.unit(units)
            msgs = F.same_system(am, s, back, tol, prop_unit={'velocity': am.unitconvert.parse(lu_['velocity'])}, float_format=ff)
            # generic table (no cell in the format: the box is passed in)
            ttext, tinfo = s.dump('table', float_format=ff, return_prop_info=True)
            if shuffle and 'a_id' in ttext[:0]:
                pass
            tback = am.load('table', ttext, box=s.box, symbols=s.symbols, prop_info=tinfo)
            msgs += ['table: ' + m for m in F.same_system(am, s, tback, F.ftol(ff, 20.0), check_pbc=False)]
            # box-scaled position columns (xs ys zs): the column description is passed explicitly to writer and reader
            kw = dict(prop_name=['atom_id', 'atype', 'spos'])
            stext = s.dump('atom_dump', lammps_units=units, float_format='%.13e', **kw)
            sback = am.load('atom_dump', stext, symbols=s.symbols, lammps_units=units, **kw)
            msgs += ['scaled dump columns: ' + m for m in F.same_system(am, s, sback, 1e-9 * 50, props=[])]
        except Exception as e:
            msgs.append('raised %s: %s' % (type(e).__name__, e))
        if msgs:
            fails.append({'obligation': 'roundtrip.atom_dump_table.post', 'key': key, 'input': key, 'detail': '; '.join(msgs[:3])})
        elif len(samples) < 1:
            samples.append({'case': key})
    return {'family': 'LAMMPS dump / table round trips', 'evaluations': evals, 'distinct_nontrivial': nontriv, 'rule': 'see group rule', 'samples': samples, 'failures': _dedupe(fails),
            'files': sha_files(['atomman/load/atom_dump/load.py', 'atomman/dump/atom_dump/dump.py', 'atomman/load/table/load.py', 'atomman/dump/table/dump.py'])}


@group('roundtrip.poscar', kind='bounded', files=['atomman/load/poscar/load.py', 'atomman/dump/poscar/dump.py'], functions=['load.poscar.load', 'dump.poscar.dump'],
       clause='loading a dumped POSCAR reproduces the cell, atom count, types (atoms grouped by type), positions and symbols, in direct and Cartesian mode with scale factors other than one; '
              'a POSCAR written independently by the VASP rules (scale factor applied to lattice and Cartesian coordinates) loads to the system it describes',
       rule='3 cells x atoms inside/outside x {direct, cartesian} x scale {1, 2.5} x symbols on/off x type gaps on/off x 2 formats, plus independently written files; non-trivial = scale != 1 or cartesian')
def roundtrip_poscar(tier, seed):
    from pyvc.native import atomman
    import numpy as np
    am = atomman()
    fails, samples = [], []
    evals = nontriv = 0
    for bx, pl, style, scale, sym, gaps, ff in itertools.product(['ortho0', 'tricl0'], ['inside', 'outside'], ['direct', 'cartesian'], [1.0, 2.5], [True, False], [False, True], ['%.13e', '%.8f']):
        key = 'box=%s,atoms=%s,coord=%s,scale=%g,symbols=%s,gaps=%s,fmt=%s' % (bx, pl, style, scale, sym, gaps, ff)
        evals += 1
        nontriv += (scale != 1.0 or style == 'cartesian')
        msgs = []
        try:
            F.BOXES.setdefault('tricl0', dict(vects=F.BOXES['tricl']['vects'], origin=[0, 0, 0]))
            s = F.make_system(am, bx, pl, (True, True, True), symbols=sym, gaps=False, seed=evals)
            if gaps:
                s.atoms.atype = np.array([1, 3, 1, 3, 3, 1])
                s.symbols = ['Al', 'Cu', 'Ni'] if sym else [None, None, None]
            text = s.dump('poscar', coordstyle=style, box_scale=scale, float_format=ff)
            back = am.load('poscar', text)
            order = np.argsort(s.atoms.atype, kind='stable')
            want = s.atoms_ix[order] if hasattr(s, 'atoms_ix') else s
            tol = F.ftol(ff, 20.0)
            if back.natoms != s.natoms:
                msgs.append('atom count %d != %d' % (back.natoms, s.natoms))
            else:
                if not F.close(back.box.vects, s.box.vects, tol * 10):
                    msgs.append('cell differs')
                if not np.array_equal(back.atoms.atype, s.atoms.atype[order]):
                    msgs.append('types %r != %r' % (back.atoms.atype.tolist(), s.atoms.atype[order].tolist()))
                if not F.close(back.atoms.pos, s.atoms.pos[order], tol * 40):
                    msgs.append('positions differ (max %g)' % np.abs(back.atoms.pos - s.atoms.pos[order]).max())
                if sym and tuple(back.symbols) != tuple(s.symbols):
                    msgs.append('symbols %r != %r' % (back.symbols, s.symbols))
            # a file written here by the VASP rules
            V = s.box.vects
            lines = ['independent', '%.12f' % scale] + ['%.12f %.12f %.12f' % tuple(r / scale) for r in V] + ['2 4' if False else ' '.join(str(int((s.atoms.atype == t).sum())) for t in sorted(set(s.atoms.atype.tolist()))),
                                                                                                                  'Cartesian' if style == 'cartesian' else 'Direct']
            P = s.atoms.pos[order]
            coords = P / scale if style == 'cartesian' else P.dot(np.linalg.inv(V))
            lines += ['%.12f %.12f %.12f' % tuple(c) for c in coords]
            ind = am.load('poscar', '\n'.join(lines))
            if not (F.close(ind.box.vects, V, 1e-9) and F.close(ind.atoms.pos, P, 1e-8)):
                msgs.append('a POSCAR written by the VASP rules (scale %g, %s) loads to positions %r instead of %r' % (scale, style, ind.atoms.pos[:2].round(5).tolist(), P[:2].round(5).tolist()))
        except Exception as e:
            msgs.append('raised %s: %s' % (type(e).__name__, e))
        if msgs:
            fails.append({'obligation': 'roundtrip.poscar.post', 'key': key, 'input': key, 'detail': '; '.join(msgs[:3])})
        elif len(samples) < 1:
            samples.append({'case': key})
    return {'family': 'POSCAR round trips', 'evaluations': evals, 'distinct_nontrivial': nontriv, 'rule': 'see group rule', 'samples': samples, 'failures': _dedupe(fails),
            'files': sha_files(['atomman/load/poscar/load.py', 'atomman/dump/poscar/dump.py'])}
