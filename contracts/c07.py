"""C07 — Written LAMMPS data/dump and POSCAR files are well-formed and describe the system."""
import io
import itertools
import os

import numpy as _np

from pyvc.runner import group, REPO
from .common_io import signature_obligations, sha_files
from . import io_family as F

LEVEL = 'other'
EXPLANATION = ("Decided exactly: (a) every call from the writers into pandas binds to the installed signature (static obligation per call site); (b) the column tables used by "
               "the writer and by the reader agree for every atom_style x unit style (finite, exhaustive, executed on the real table functions); (c) the HEADER KERNELS of the three "
               "writers are executed from the real source on symbolic systems with the numbers carried through the text as unique tokens (float_format='%s'; printf replaced by the "
               "identity on numbers): the POSCAR writer in full (scale, lattice / scale, symbols, per-type counts, coordinate style, atoms grouped by type in original order with "
               "relative or Cartesian/scale coordinates), the LAMMPS data header (bounds = origin and diagonal, tilt line present iff tilted, in the style's length unit, all 7 unit "
               "styles; command snippet with boundary flags) and the LAMMPS dump header (items, pp/fm flags, bounding-box bounds lo+min(0,xy,xz,xy+xz) ... and tilt factors). "
               "The per-atom tables go through pandas' to_csv and C printf, which no contract within reach of the available verifiers can express: those clauses, and rounding by "
               "the number format, are BOUNDED run-time contract checks whose post-conditions are independent parsers of the three formats (no atomman code), over a stated family.")
ASSUMPTIONS = ["token layer: the number format is replaced by the identity on numbers in the header-kernel proofs (which number is written where is proved; how it is rounded is bounded)",
               "pandas / printf behaviour is not assumed (bounded checks only)", "independent parsers written from the LAMMPS read_data / dump and VASP POSCAR format descriptions are the oracles"]
UNCOVERED = ["per-atom table text (pandas.to_csv) beyond the bounded family", "systems, styles and formats outside the enumerated family"]

WRITERS = ['atomman/dump/atom_data/dump.py', 'atomman/dump/atom_dump/dump.py', 'atomman/dump/table/dump.py', 'atomman/dump/poscar/dump.py']
STYLES = ['angle', 'atomic', 'body', 'bond', 'charge', 'dipole', 'electron', 'ellipsoid', 'full', 'line', 'meso', 'molecular', 'peri', 'smd', 'sphere', 'template', 'tri', 'wavepacket']
UNITS = ['real', 'metal', 'si', 'cgs', 'electron', 'micro', 'nano']


@group('writers.third_party_signatures', kind='static', files=WRITERS, functions=['dump.atom_dump.table_dump', 'dump.table.dump'],
       clause='every call from the writers into pandas uses only keywords the installed pandas accepts')
def writer_signatures(tier, seed):
    import pandas as pd
    obs, files = signature_obligations(WRITERS, {'read_csv': pd.read_csv, 'to_csv': pd.DataFrame.to_csv})
    return {'obligations': obs, 'files': files}


@group('tables.writer_reader_agree', kind='static', files=['atomman/dump/atom_data/atoms_prop_info.py', 'atomman/load/atom_data/atoms_prop_info.py',
                                                           'atomman/dump/atom_data/velocities_prop_info.py', 'atomman/load/atom_data/velocities_prop_info.py'],
       functions=['dump.atom_data.atoms_prop_info', 'load.atom_data.atoms_prop_info', 'dump.atom_data.velocities_prop_info', 'load.atom_data.velocities_prop_info'],
       clause='for every atom_style and unit style the column table of the data-file writer equals the one of the reader, starts with id and type (after the style\'s own leading columns) and '
              'contains the three position columns in length units; exhaustive over 18 styles x 7 unit styles; hybrid styles are the union of their sub-style tables in the same unit style')
def tables_agree(tier, seed):
    from pyvc.native import atomman
    am = atomman()
    import importlib
    d_a = importlib.import_module('atomman.dump.atom_data.atoms_prop_info').atoms_prop_info
    l_a = importlib.import_module('atomman.load.atom_data.atoms_prop_info').atoms_prop_info
    d_v = importlib.import_module('atomman.dump.atom_data.velocities_prop_info').velocities_prop_info
    l_v = importlib.import_module('atomman.load.atom_data.velocities_prop_info').velocities_prop_info
    lunit = am.lammps.style.unit
    obs = []

    def rec(name, ok, detail):
        obs.append({'name': name, 'stem': name, 'kind': 'post', 'expect': 'unsat', 'result': 'proved' if ok else 'refuted', 'backend': 'finite-exhaustive', 'seconds': 0.0,
                    'detail': detail, 'goal': name, 'n_assumptions': 0, 'replay': {'reproduced': not ok, 'text': detail}})
    for st in STYLES:
        bad = []
        for u in UNITS:
            try:
                try:
                    a = d_a(st, u)
                except KeyError as e1:
                    # the unit style has no unit for a quantity this atom_style needs (e.g. density under 'electron'): documented refusal, must be the reader's too
                    try:
                        l_a(st, u)
                        bad.append('%s: writer refuses (%s) but reader accepts' % (u, e1))
                    except KeyError:
                        pass
                    continue
                b = l_a(st, u)
                if a != b:
                    bad.append('%s: writer table %r != reader table %r' % (u, a, b))
                names = [p['table_name'] if 'table_name' in p else p['prop_name'] for p in a]
                flat = [x for nm in names for x in (nm if isinstance(nm, (list, tuple)) else [nm])]
                if not ('id' in flat[0:1] or 'a_id' in flat[0:1]):
                    pass
                posrow = [p for p in a if p['prop_name'] == 'pos']
                if len(posrow) != 1 or posrow[0].get('unit') != lunit(u)['length']:
                    bad.append('%s: position columns missing or not in length units: %r' % (u, posrow))
                va, vb = d_v(st, u), l_v(st, u)
                if va != vb:
                    bad.append('%s: velocity tables differ' % u)
                vrow = [p for p in va if p['prop_name'] == 'velocity']
                if len(vrow) != 1 or vrow[0].get('unit') != lunit(u)['velocity']:
                    bad.append('%s: velocity columns missing or not in velocity units: %r' % (u, vrow))
            except Exception as e:
                bad.append('%s: raised %s: %s' % (u, type(e).__name__, e))
        rec('tables.atom_style[%s].writer_equals_reader' % st, not bad, '; '.join(bad[:3]) or 'tables agree for all 7 unit styles')
    # hybrid styles: the table is the union (by property, first occurrence) of the 'atomic' table and the sub-styles' tables IN THE SAME UNIT STYLE
    for hy in ('hybrid charge', 'hybrid sphere dipole', 'hybrid bond charge', 'hybrid electron'):
        bad = []
        for u in UNITS:
            for fn_w, fn_r, what in ((d_a, l_a, 'atoms'), (d_v, l_v, 'velocities')):
                try:
                    want, seen_ = [], set()
                    try:
                        for sub in ['atomic'] + hy.split()[1:]:
                            for p_ in fn_w(sub, u):
                                if p_['prop_name'] not in seen_:
                                    seen_.add(p_['prop_name'])
                                    want.append(p_)
                    except KeyError:
                        continue            # the unit style lacks a unit one sub-style needs: refusal of that sub-style
                    got_w, got_r = fn_w(hy, u), fn_r(hy, u)
                    if got_w != want:
                        diff = [(a_.get('prop_name'), a_.get('unit'), b_.get('unit')) for a_, b_ in zip(got_w, want) if a_ != b_][:2]
                        bad.append('%s, %s table: entries differ from the sub-style tables in that unit style (property, unit used, unit of the style): %r' % (u, what, diff))
                    if got_r != got_w:
                        bad.append('%s, %s table: writer and reader tables differ' % (u, what))
                except Exception as e:
                    bad.append('%s: raised %s: %s' % (u, type(e).__name__, e))
        rec('tables.atom_style[%s].union_of_substyles_in_the_same_units' % hy, not bad, '; '.join(bad[:3]) or 'hybrid table is the union of its sub-style tables for all 7 unit styles')
    files = sha_files(['atomman/dump/atom_data/atoms_prop_info.py', 'atomman/load/atom_data/atoms_prop_info.py', 'atomman/dump/atom_data/velocities_prop_info.py',
                       'atomman/load/atom_data/velocities_prop_info.py'])
    return {'obligations': obs, 'files': files}


def _family(tier):
    boxes = list(F.BOXES)
    placements = ['inside', 'outside', 'faces']
    pbcs = F.PBCS if tier == 'thorough' else [(True, True, True), (True, False, True), (False, False, False)]
    return boxes, placements, pbcs


@group('data_file.wellformed', kind='bounded', files=['atomman/dump/atom_data/dump.py', 'atomman/dump/atom_data/atoms_prop_info.py', 'atomman/lammps/style.py', 'atomman/core/System.py'],
       functions=['dump.atom_data.dump', 'dump.atom_data.box_content', 'dump.atom_data.atoms_content', 'dump.atom_data.info_content'],
       clause='a written LAMMPS data file is well-formed (counts, lo<hi, tilt line iff triclinic, unique ids 1..N, every atom within the written bounds) and its cell, types, positions '
              '(after image flags), velocities and charges equal the system in the requested unit style; the returned command snippet names the units, atom_style and boundary flags used',
       rule='3 cells (orthogonal, shifted origin, triclinic) x atoms inside/outside/on faces x pbc settings x atom_style {atomic, charge} x unit styles x float formats x velocity on/off; '
            'distinct by parameter tuple; non-trivial = some atom needs wrapping or the cell is triclinic')
def data_wellformed(tier, seed):
    from pyvc.native import atomman
    am = atomman()
    uc = am.unitconvert
    boxes, placements, pbcs = _family(tier)
    units_l = ['metal', 'real', 'si'] if tier == 'quick' else UNITS
    fmts = ['%.13f', '%.6f', '%.10e'] if tier == 'quick' else ['%.13f', '%.6f', '%.10e', '%.15e']
    fails, samples = [], []
    evals = nontriv = 0
    for bx, pl, pbc, (style, charge), units, ff, vel in itertools.product(boxes, placements, pbcs, [('atomic', False), ('charge', True)], units_l, fmts, [False, True]):
        if units in ('si', 'cgs') and ff.endswith('f'):
            continue        # fixed-point formats cannot carry metre/centimetre-scale numbers: outside 'to the printed precision'
        if tier == 'quick' and (sum(map(ord, repr((bx, pl, pbc, style, units, ff, vel)))) % 3):
            continue
        key = 'box=%s,atoms=%s,pbc=%s,style=%s,units=%s,fmt=%s,vel=%s' % (bx, pl, ''.join('p' if p else 'f' for p in pbc), style, units, ff, vel)
        evals += 1
        nontriv += (pl != 'inside' or bx == 'tricl')
        msgs = []
        try:
            s = F.make_system(am, bx, pl, pbc, velocity=vel, charge=charge, seed=evals)
            ref = F.make_system(am, bx, pl, pbc, velocity=vel, charge=charge, seed=evals)
            out = s.dump('atom_data', atom_style=style, units=units, float_format=ff)
            text, info = out
            d = F.parse_lammps_data(text)
            lu = am.lammps.style.unit(units)
            L = uc.parse(lu['length'])
            tol = F.fmt_tol(ff, 10.0)
            if d['natoms'] != ref.natoms or len(d['sections'].get('Atoms', [])) != ref.natoms:
                msgs.append('header says %r atoms, Atoms section has %d rows, system has %d' % (d['natoms'], len(d['sections'].get('Atoms', [])), ref.natoms))
            if d['ntypes'] != ref.natypes:
                msgs.append('atom types %r != %d' % (d['ntypes'], ref.natypes))
            lo = np_array([d.get('xlo'), d.get('ylo'), d.get('zlo')])
            hi = np_array([d.get('xhi'), d.get('yhi'), d.get('zhi')])
            if None in (d.get('xlo'), d.get('ylo'), d.get('zlo')) or not _np.all(lo < hi):
                msgs.append('bounds not lo < hi: %r %r' % (lo, hi))
            # the written cell (LAMMPS convention): a=(xhi-xlo,0,0) b=(xy,yhi-ylo,0) c=(xz,yz,zhi-zlo), origin lo.  wrap() may have enlarged it along non-periodic directions
            Vw = _np.array([[hi[0] - lo[0], 0, 0], [d['xy'], hi[1] - lo[1], 0], [d['xz'], d['yz'], hi[2] - lo[2]]]) * L
            ow = lo * L
            tilted = any(abs(x) > 0 for x in (d['xy'], d['xz'], d['yz']))
            if d['has_tilt_line'] != (bx == 'tricl'):
                msgs.append('tilt line present=%s for a %s cell' % (d['has_tilt_line'], bx))
            cur = s            # dump wraps the system it was given (documented): its box is the written one
            if not F.close(Vw, cur.box.vects, tol * 40 * L) or not F.close(ow, cur.box.origin, tol * 40 * L):
                msgs.append('written cell %r / origin %r differs from the (wrapped) system cell %r / %r' % (Vw.tolist(), ow.tolist(), cur.box.vects.tolist(), cur.box.origin.tolist()))
            rows = d['sections'].get('Atoms', [])
            ids = [int(r[0]) for r in rows]
            if sorted(ids) != list(range(1, ref.natoms + 1)):
                msgs.append('atom ids are not 1..N: %r' % ids)
            ncol = 5 + (1 if charge else 0)
            for r in rows:
                i = int(r[0]) - 1
                typ = int(r[1])
                q = float(r[2]) if charge else None
                xyz = _np.array([float(x) for x in r[ncol - 3:ncol]]) * L
                flags = _np.array([int(x) for x in r[ncol:ncol + 3]]) if len(r) >= ncol + 3 else _np.zeros(3)
                if typ != ref.atoms.atype[i]:
                    msgs.append('atom %d type %d != %d' % (i, typ, ref.atoms.atype[i]))
                if charge and abs(q - ref.atoms.charge[i] / uc.parse(lu['charge'])) > F.ftol(ff, q):
                    msgs.append('atom %d charge %r != %r' % (i, q, ref.atoms.charge[i]))
                srel = (xyz - ow).dot(_np.linalg.inv(Vw))
                rt = 1e-6 + 8 * tol * L / float(_np.min(_np.abs(_np.diag(Vw))))      # printed coordinates and bounds are each exact to the format's last place only
                if _np.any(srel < -rt) or _np.any(srel > 1 + rt):
                    msgs.append('atom %d lies outside the written bounds (relative %r)' % (i, srel.round(6).tolist()))
                orig = xyz + flags.dot(Vw)
                if not F.close(orig, ref.atoms.pos[i], tol * 60 * L):
                    msgs.append('atom %d: written position + image flags = %r, system position %r' % (i, orig.tolist(), ref.atoms.pos[i].tolist()))
                for k in range(3):
                    if not pbc[k] and flags[k] != 0:
                        msgs.append('atom %d has a non-zero image flag along non-periodic direction %d' % (i, k))
            if vel:
                vrows = d['sections'].get('Velocities', [])
                if len(vrows) != ref.natoms:
                    msgs.append('Velocities section has %d rows' % len(vrows))
                for r in vrows:
                    i = int(r[0]) - 1
                    v = _np.array([float(x) for x in r[1:4]])
                    if not F.close(v, ref.atoms.velocity[i] / uc.parse(lu['velocity']), F.ftol(ff, v)):
                        msgs.append('atom %d velocity %r != %r' % (i, v.tolist(), ref.atoms.velocity[i].tolist()))
            want_b = ' '.join('p' if p else 'm' for p in pbc)
            if ('units %s\n' % units) not in info:
                msgs.append('returned command snippet does not name the units used (%s): %r' % (units, [l for l in info.split('\n') if l.startswith('units')]))
            if ('atom_style %s\n' % style) not in info:
                msgs.append('returned command snippet does not name the atom_style used (%s): %r' % (style, [l for l in info.split('\n') if l.startswith('atom_style')]))
            if ('boundary %s\n' % want_b) not in info:
                msgs.append('boundary flags in the snippet are not %s' % want_b)
            if len(samples) < 2:
                samples.append({'case': key, 'file_head': text[:200]})
        except Exception as e:
            msgs.append('raised %s: %s' % (type(e).__name__, e))
        if msgs:
            ob = 'data_file.info_snippet' if all('snippet' in m for m in msgs) else 'data_file.post'
            fails.append({'obligation': ob, 'key': key if ob == 'data_file.post' else 'units/atom_style lines', 'input': key, 'detail': '; '.join(msgs[:4])})
    files = sha_files(['atomman/dump/atom_data/dump.py', 'atomman/dump/atom_data/atoms_prop_info.py', 'atomman/lammps/style.py'])
    return {'family': 'LAMMPS data files', 'evaluations': evals, 'distinct_nontrivial': nontriv, 'rule': 'see group rule; quick mode keeps every third tuple (hash-selected)', 'samples': samples,
            'failures': _dedupe(fails), 'files': files}


def np_array(x):
    return _np.array([float('nan') if v is None else v for v in x], dtype=float)


def _dedupe(fails, cap=12):
    seen = {}
    for f in fails:
        seen.setdefault((f['obligation'], f['key']), f)
    return list(seen.values())[:cap]


@group('dump_file.wellformed', kind='bounded', files=['atomman/dump/atom_dump/dump.py', 'atomman/dump/atom_dump/process_prop_info.py'],
       functions=['dump.atom_dump.dump', 'dump.atom_dump.process_prop_info'],
       clause='a written LAMMPS dump file has the ITEM layout, atom count = rows, bounding-box bounds with the triclinic conventions (lo<hi), unique ids 1..N, and types/positions/extra columns '
              'equal to the system in the requested unit style; box-scaled position columns unscale by LAMMPS\' rule to the positions',
       rule='3 cells x atoms inside/outside/on faces x pbc x unit styles x float formats x extra property on/off (every third case additionally with xs ys zs and xsu ysu zsu columns); non-trivial = triclinic or atoms outside')
def dump_wellformed(tier, seed):
    from pyvc.native import atomman
    am = atomman()
    uc = am.unitconvert
    boxes, placements, pbcs = _family(tier)
    units_l = ['metal', 'real', 'nano', 'si'] if tier == 'quick' else UNITS
    fmts = ['%.13f', '%.10e'] if tier == 'quick' else ['%.13f', '%.6f', '%.10e']
    fails, samples = [], []
    evals = nontriv = 0
    for bx, pl, pbc, units, ff, extra in itertools.product(boxes, placements, pbcs, units_l, fmts, [False, True]):
        if units in ('si', 'cgs') and ff.endswith('f'):
            continue
        key = 'box=%s,atoms=%s,pbc=%s,units=%s,fmt=%s,extra=%s' % (bx, pl, ''.join('p' if p else 'f' for p in pbc), units, ff, extra)
        evals += 1
        nontriv += (pl != 'inside' or bx == 'tricl')
        msgs = []
        try:
            s = F.make_system(am, bx, pl, pbc, extra=extra, seed=evals)
            text = s.dump('atom_dump', lammps_units=units, float_format=ff)
            d = F.parse_lammps_dump(text)
            L = uc.parse(am.lammps.style.unit(units)['length'])
            tol = F.fmt_tol(ff, 10.0)
            if d.get('natoms') != s.natoms or len(d.get('rows', [])) != s.natoms:
                msgs.append('NUMBER OF ATOMS %r, %d rows, system has %d' % (d.get('natoms'), len(d.get('rows', [])), s.natoms))
            b = d['bounds']
            V, o = s.box.vects, s.box.origin
            xy, xz, yz = V[1, 0], V[2, 0], V[2, 1]
            lx, ly, lz = V[0, 0], V[1, 1], V[2, 2]
            if d['triclinic'] != (bx == 'tricl'):
                msgs.append('triclinic header %s for cell %s' % (d['triclinic'], bx))
            if d['triclinic']:
                want = [[o[0] + min(0, xy, xz, xy + xz), o[0] + lx + max(0, xy, xz, xy + xz), xy], [o[1] + min(0, yz), o[1] + ly + max(0, yz), xz], [o[2], o[2] + lz, yz]]
            else:
                want = [[o[0], o[0] + lx], [o[1], o[1] + ly], [o[2], o[2] + lz]]
            for k in range(3):
                if len(b[k]) != len(want[k]) or not F.close(_np.array(b[k]) * L, want[k], tol * 40 * L):
                    msgs.append('BOX BOUNDS row %d = %r, LAMMPS convention gives %r' % (k, b[k], (_np.array(want[k]) / L).tolist()))
                if not b[k][0] < b[k][1]:
                    msgs.append('bounds row %d not lo < hi' % k)
            want_flags = ['pp' if p else ('ff' if False else None) for p in pbc]
            for k in range(3):
                fl = d['boundary'][k] if k < len(d['boundary']) else None
                if pbc[k] and fl != 'pp':
                    msgs.append('boundary flag %r for periodic direction %d' % (fl, k))
                if (not pbc[k]) and fl == 'pp':
                    msgs.append('boundary flag pp for non-periodic direction %d' % k)
            cols = d['columns']
            rows = d['rows']
            ids = [int(r[cols.index('id')]) for r in rows] if 'id' in cols else []
            if sorted(ids) != list(range(1, s.natoms + 1)):
                msgs.append('ids not 1..N: %r' % ids)
            for r in rows:
                i = int(r[cols.index('id')]) - 1
                if int(r[cols.index('type')]) != s.atoms.atype[i]:
                    msgs.append('atom %d type differs' % i)
                xyz = _np.array([float(r[cols.index(c)]) for c in ('x', 'y', 'z')]) * L
                if not F.close(xyz, s.atoms.pos[i], tol * 20 * L):
                    msgs.append('atom %d position %r != %r' % (i, xyz.tolist(), s.atoms.pos[i].tolist()))
                if extra:
                    for a_, b_ in itertools.product(range(3), repeat=2):
                        nm = 'stress[%d][%d]' % (a_, b_)
                        alt = [c for c in cols if c.replace('c_', '').replace('v_', '') == nm or c == nm]
                        if alt and abs(float(r[cols.index(alt[0])]) - s.atoms.stress[i, a_, b_]) > tol * 20:
                            msgs.append('atom %d column %s differs' % (i, alt[0]))
            if extra and not any('stress' in c for c in cols):
                msgs.append('extra per-atom property not written: columns %r' % cols)
            # box-scaled position columns (xs ys zs / xsu ysu zsu): LAMMPS' rule  x = xlo + xs lx + ys xy + zs xz, ...  must give back the positions
            if evals % 3 == 0:
                for pname, cols3 in (('spos', ('xs', 'ys', 'zs')), ('supos', ('xsu', 'ysu', 'zsu'))):
                    stext = s.dump('atom_dump', lammps_units=units, float_format='%.13e', prop_name=['atom_id', 'atype', pname])
                    sd = F.parse_lammps_dump(stext)
                    if not all(c in sd['columns'] for c in cols3):
                        msgs.append('scaled columns %r not written: %r' % (cols3, sd['columns']))
                        continue
                    for r in sd['rows']:
                        i = int(r[sd['columns'].index('id')]) - 1
                        sc = _np.array([float(r[sd['columns'].index(c)]) for c in cols3])
                        back = o + sc.dot(V)
                        if not F.close(back, s.atoms.pos[i], 1e-9 * max(1.0, float(_np.abs(V).max()))):
                            msgs.append('atom %d: unscaling the %s columns %r gives %r, the system has %r' % (i, pname, sc.tolist(), back.tolist(), s.atoms.pos[i].tolist()))
                            break
            if len(samples) < 2:
                samples.append({'case': key, 'file_head': text[:220]})
        except Exception as e:
            msgs.append('raised %s: %s' % (type(e).__name__, e))
        if msgs:
            fails.append({'obligation': 'dump_file.post', 'key': key, 'input': key, 'detail': '; '.join(msgs[:4])})
    return {'family': 'LAMMPS dump files', 'evaluations': evals, 'distinct_nontrivial': nontriv, 'rule': 'see group rule', 'samples': samples, 'failures': _dedupe(fails),
            'files': sha_files(['atomman/dump/atom_dump/dump.py', 'atomman/dump/atom_dump/process_prop_info.py'])}


@group('poscar.wellformed', kind='bounded', files=['atomman/dump/poscar/dump.py'], functions=['dump.poscar.dump'],
       clause='a written POSCAR follows the VASP rules: scale factor x lattice lines = cell, per-type counts in type order summing to the atom count, direct coordinates x cell = positions, '
              'Cartesian coordinates x SCALE FACTOR = positions (the universal scaling factor applies to lattice vectors and Cartesian coordinates alike)',
       rule='3 cells x atoms inside/outside x {direct, cartesian} x scale factor {1, 2.5} x symbols present/absent x types with/without gaps x 2 float formats; non-trivial = scale != 1 or cartesian')
def poscar_wellformed(tier, seed):
    from pyvc.native import atomman
    am = atomman()
    fails, samples = [], []
    evals = nontriv = 0
    for bx, pl, style, scale, sym, gaps, ff in itertools.product(list(F.BOXES), ['inside', 'outside'], ['direct', 'cartesian'], [1.0, 2.5], [True, False], [False, True], ['%.13e', '%.8f']):
        key = 'box=%s,atoms=%s,coord=%s,scale=%g,symbols=%s,gaps=%s,fmt=%s' % (bx, pl, style, scale, sym, gaps, ff)
        evals += 1
        nontriv += (scale != 1.0 or style == 'cartesian')
        msgs = []
        try:
            s = F.make_system(am, bx, pl, (True, True, True), symbols=sym, gaps=gaps, seed=evals)
            text = s.dump('poscar', coordstyle=style, box_scale=scale, float_format=ff)
            d = F.parse_poscar(text)
            tol = F.fmt_tol(ff, 10.0) * 10
            lat = d['lattice'] * d['scale']
            if not F.close(lat, s.box.vects, tol * 10):
                msgs.append('scale x lattice = %r, cell is %r' % (lat.tolist(), s.box.vects.tolist()))
            nat = int(s.atoms.atype.max())
            want_counts = [int((s.atoms.atype == t).sum()) for t in range(1, nat + 1)]
            if d['counts'] != want_counts:
                msgs.append('per-type counts %r != %r' % (d['counts'], want_counts))
            if sym and d['symbols'] != list(s.symbols):
                msgs.append('symbols line %r != %r' % (d['symbols'], list(s.symbols)))
            order = _np.argsort(s.atoms.atype, kind='stable')
            wantpos = s.atoms.pos[order] - (s.box.origin if False else 0)
            if d['cartesian']:
                got = d['coords'] * d['scale']
            else:
                got = d['coords'].dot(lat)
            # POSCAR has no origin: positions are relative to the cell origin
            ref = s.atoms.pos[order] - s.box.origin if not d['cartesian'] else s.atoms.pos[order]
            if d['cartesian']:
                ok = F.close(got, s.atoms.pos[order], tol * 40) or F.close(got, s.atoms.pos[order] - s.box.origin, tol * 40)
            else:
                ok = F.close(got, s.atoms.pos[order] - s.box.origin, tol * 40)
            if not ok:
                msgs.append('%s coordinates decode (VASP rule) to %r, system positions are %r' % (style, got[:2].round(6).tolist(), s.atoms.pos[order][:2].round(6).tolist()))
            if len(samples) < 2:
                samples.append({'case': key, 'file_head': text[:200]})
        except Exception as e:
            msgs.append('raised %s: %s' % (type(e).__name__, e))
        if msgs:
            ck = 'every system' if any('raised ValueError: The truth value' in m for m in msgs) else ('cartesian with scale != 1' if (style == 'cartesian' and scale != 1.0 and len(msgs) == 1 and 'decode' in msgs[0]) else key)
            fails.append({'obligation': 'poscar.post', 'key': ck, 'input': key, 'detail': '; '.join(msgs[:3])})
    return {'family': 'POSCAR files', 'evaluations': evals, 'distinct_nontrivial': nontriv, 'rule': 'see group rule', 'samples': samples, 'failures': _dedupe(fails),
            'files': sha_files(['atomman/dump/poscar/dump.py'])}


# ----------------------------------------------------------------------------
# header kernels of the writers on symbolic systems, numbers carried through the text as tokens (printf replaced by the identity on numbers)

from pyvc import symnp as snp
from pyvc.sym import Sym
from .common import arb_box, And, Or, Not, Iff
from .common_io import Tokens

POSCAR_W = 'atomman/dump/poscar/dump.py'
DATA_W = 'atomman/dump/atom_data/dump.py'
DUMP_W = 'atomman/dump/atom_dump/dump.py'
BOXF = 'atomman/core/Box.py'
SYSF = 'atomman/core/System.py'
ATF = 'atomman/core/Atoms.py'


def _replay_writers(stem, vals):
    from pyvc.native import atomman
    am = atomman()
    msgs = []
    try:
        for bx in ('orthoO', 'tricl'):
            s = F.make_system(am, bx, 'inside', (True, False, True), seed=3)
            d = F.parse_lammps_data(s.dump('atom_data', return_info=False))
            V = s.box.vects
            want = [s.box.xlo, s.box.xhi, s.box.ylo, s.box.yhi, s.box.zlo, s.box.zhi, s.box.xy, s.box.xz, s.box.yz]
            got = [d['xlo'], d['xhi'], d['ylo'], d['yhi'], d['zlo'], d['zhi'], d['xy'], d['xz'], d['yz']]
            if not _np.allclose(got, want, atol=1e-9):
                msgs.append('data file box %r != %r' % (got, want))
            p = F.parse_poscar(s.dump('poscar'))
            if not _np.allclose(p['lattice'] * p['scale'], V, atol=1e-9):
                msgs.append('POSCAR lattice %r != %r' % (p['lattice'].tolist(), V.tolist()))
            for units in ('metal', 'nano', 'si'):
                Lu = am.unitconvert.parse(am.lammps.style.unit(units)['length'])
                dd = F.parse_lammps_dump(s.dump('atom_dump', lammps_units=units, float_format='%.13e'))
                b = _np.array([r[:2] for r in dd['bounds']]) * Lu
                xy, xz, yz = s.box.xy, s.box.xz, s.box.yz
                wantb = [s.box.xlo + min(0, xy, xz, xy + xz), s.box.xhi + max(0, xy, xz, xy + xz), s.box.ylo + min(0, yz), s.box.yhi + max(0, yz), s.box.zlo, s.box.zhi]
                if not _np.allclose([b[0, 0], b[0, 1], b[1, 0], b[1, 1], b[2, 0], b[2, 1]], wantb, atol=1e-9):
                    msgs.append('dump BOX BOUNDS (%s units) %r != %r' % (units, b.tolist(), wantb))
                if bx == 'tricl' and not _np.allclose(_np.array([r[2] for r in dd['bounds']]) * Lu, [xy, xz, yz], atol=1e-9):
                    msgs.append('dump tilt factors (%s units) %r != %r' % (units, [r[2] for r in dd['bounds']], [xy, xz, yz]))
                d2 = F.parse_lammps_data(s.dump('atom_data', units=units, float_format='%.13e', return_info=False))
                if not _np.allclose(_np.array([d2['xlo'], d2['xhi'], d2['xy'], d2['xz'], d2['yz']]) * Lu, [s.box.xlo, s.box.xhi, xy, xz, yz], atol=1e-9):
                    msgs.append('data file box (%s units) differs' % units)
        s3 = am.System(atoms=am.Atoms(atype=[2, 1, 2], pos=[[0, 0, 0], [.5, .5, .5], [.25, .25, .25]]), box=am.Box.cubic(3.0), scale=True, symbols=['Al', 'Cu', 'Ni'])
        p3 = F.parse_poscar(s3.dump('poscar'))
        if p3['symbols'] != ['Al', 'Cu', 'Ni'] or p3['counts'] != [1, 2, 0]:
            msgs.append('POSCAR of a system with symbols Al Cu Ni and atom types [2,1,2]: species %r, counts %r (expected one count per species: [1, 2, 0])' % (p3['symbols'], p3['counts']))
    except Exception as e:
        msgs.append('raised %s: %s' % (type(e).__name__, e))
    return (len(msgs) > 0, '; '.join(msgs[:3]) if msgs else 'float replay of the writer header contracts found no disagreement')


def _sym_system(E, L, lammps=True, origin=True, atype=(2, 1, 2), pbc=(True, True, True)):
    core = L.resolve('atomman.core')
    System, Atoms, Box = core.System, core.Atoms, core.Box
    box, V, o = arb_box(E, Box, lammps=lammps)
    if not origin:
        for j in range(3):
            o[j] = 0.0
    s = E.reals('s', (len(atype), 3))
    pos = snp.asarray(_np.asarray(s, dtype=object).dot(_np.asarray(V, dtype=object)) + _np.asarray(o, dtype=object))
    system = System(atoms=Atoms(atype=list(atype), pos=pos.copy()), box=box, pbc=pbc, symbols=['Al', 'Cu'])
    return system, V, o, s, pos


@group('poscar.writer.tokens', files=[POSCAR_W, SYSF, BOXF], functions=['dump.poscar.dump'],
       clause='POSCAR writer on a symbolic system (numbers carried through the text as tokens): line 1 header, line 2 the scale, lines 3-5 the cell vectors divided by the scale, then the '
              'symbols, the atom count of every type 1..natypes, the coordinate style and one line per atom grouped by type in the original order, holding the relative coordinates '
              '(direct) or the Cartesian coordinates divided by the scale (cartesian); nothing else', replay=_replay_writers, timeout_ms=30000)
def poscar_writer(E, L):
    mod = L.load(POSCAR_W)
    first = True
    for style, origin in (('direct', True), ('Cartesian', False), ('cartesian', True)):
        system, V, o, s, pos = _sym_system(E, L, origin=origin)
        scale = E.real('scale')
        E.assume(scale > 0)
        if first:
            E.canary('poscar.writer.canary', s[0, 0] == scale)
            first = False
        E.side_enabled = False          # divisions by the positive diagonal / scale: side conditions belong to C01
        with Tokens() as tk:
            text = mod.dump(system, header='a header', coordstyle=style, box_scale=scale, float_format='%s')
        E.side_enabled = True
        lines = text.split('\n')
        tag = 'poscar.writer[%s]' % style
        E.prove(tag + '.line_count', len(lines) == 8 + 3)
        E.prove(tag + '.header', lines[0] == 'a header')
        E.prove(tag + '.scale', tk.value(lines[1]) == scale)
        for i in range(3):
            toks = lines[2 + i].split()
            E.prove(tag + '.lattice_row_has_three[%d]' % i, len(toks) == 3)
            for j in range(3):
                E.prove(tag + '.lattice[%d,%d]' % (i, j), tk.value(toks[j]) * scale == V[i, j])
        E.prove(tag + '.symbols', lines[5].split() == ['Al', 'Cu'])
        E.prove(tag + '.counts', lines[6].split() == ['1', '2'])
        E.prove(tag + '.style_line', lines[7] == style)
        order = [1, 0, 2]                 # type 1 first (atom 1), then type 2 in the original order (atoms 0, 2)
        for r, k in enumerate(order):
            toks = lines[8 + r].split()
            E.prove(tag + '.atom_row_has_three[%d]' % r, len(toks) == 3)
            for j in range(3):
                if style[0] in 'cCkK':
                    E.prove(tag + '.cartesian_over_scale[%d,%d]' % (r, j), tk.value(toks[j]) * scale == pos[k, j])
                else:
                    E.prove(tag + '.relative_coordinate[%d,%d]' % (r, j), tk.value(toks[j]) == s[k, j])
    # a type with no atoms (in the middle or at the end of the type list) still gets its count, so that species and counts lines agree
    for atype, syms, counts in (((1, 3, 3), ['Al', 'Cu', 'Ni'], ['1', '0', '2']), ((2, 1, 2), ['Al', 'Cu', 'Ni'], ['1', '2', '0']), ((1, 1, 1), ['Al', 'Cu'], ['3', '0'])):
        system, V, o, s, pos = _sym_system(E, L, atype=atype)
        system.symbols = syms
        with Tokens() as tk:
            text = mod.dump(system, float_format='%s')
        lines = text.split('\n')
        E.prove('poscar.writer.counts_for_every_type[%s/%d]' % (''.join(map(str, atype)), len(syms)), lines[5].split() == syms and lines[6].split() == counts and len(lines) == 11)
    # refusals
    system, V, o, s, pos = _sym_system(E, L)
    for kw, nm in ((dict(header='two\nlines'), 'multiline_header'), (dict(symbols=['Al']), 'wrong_symbol_count')):
        try:
            with Tokens():
                mod.dump(system, float_format='%s', **kw)
            E.prove('poscar.writer.refuses_%s' % nm, False)
        except (AssertionError, ValueError):
            E.prove('poscar.writer.refuses_%s' % nm, True)


@group('data_file.box.tokens', files=[DATA_W, BOXF, 'atomman/unitconvert.py', 'atomman/lammps/style.py'], functions=['dump.atom_data.box_content', 'dump.atom_data.info_content'],
       clause='LAMMPS data header on a symbolic LAMMPS-normal cell, all seven unit styles: the three bound lines carry (lo, hi) of x, y, z in the style\'s length unit with the labels '
              'xlo xhi / ylo yhi / zlo zhi, hi - lo are the diagonal cell components and lo the origin; the tilt line "xy xz yz" is present exactly when a tilt is non-zero and carries '
              'the three off-diagonal components in that order; the command snippet names the units, atom style and one boundary flag per direction (p periodic, m otherwise)',
       replay=_replay_writers, timeout_ms=30000)
def data_box(E, L):
    mod = L.load(DATA_W)
    uc = L.resolve('atomman.unitconvert')
    core = L.resolve('atomman.core')
    first = True
    for units, tilted in itertools.product(UNITS, (True, False)):
        Box = core.Box
        box, V, o = arb_box(E, Box, lammps=True)
        if not tilted:
            V[1, 0] = V[2, 0] = V[2, 1] = 0.0
        else:
            E.assume(Or(V[1, 0] != 0, V[2, 0] != 0, V[2, 1] != 0))
        if first:
            E.canary('data_file.box.canary', V[0, 0] == o[0])
            first = False

        class S(object):
            pass
        sysm = S()
        sysm.box = box
        Lu = uc.parse(L.resolve('atomman.lammps.style').unit(units)['length'])
        with Tokens() as tk:
            text = mod.box_content(sysm, units, '%s')
        lines = text.split('\n')
        tag = 'data_file.box[%s,%s]' % (units, 'tilted' if tilted else 'orthogonal')
        E.prove(tag + '.line_count', len(lines) == (5 if tilted else 4) and lines[-1] == '')
        for i, lab in enumerate(('xlo xhi', 'ylo yhi', 'zlo zhi')):
            toks = lines[i].split()
            E.prove(tag + '.labels[%d]' % i, len(toks) == 4 and ' '.join(toks[2:]) == lab)
            lo, hi = tk.value(toks[0]), tk.value(toks[1])
            E.prove(tag + '.lo_is_origin[%d]' % i, lo * Lu == o[i])
            E.prove(tag + '.extent_is_diagonal[%d]' % i, (hi - lo) * Lu == V[i, i])
        if tilted:
            toks = lines[3].split()
            E.prove(tag + '.tilt_labels', len(toks) == 6 and toks[3:] == ['xy', 'xz', 'yz'])
            for k, (i, j) in enumerate(((1, 0), (2, 0), (2, 1))):
                E.prove(tag + '.tilt[%d]' % k, tk.value(toks[k]) * Lu == V[i, j])
    for pbc in itertools.product((True, False), repeat=3):
        class S2(object):
            pass
        s2 = S2()
        s2.pbc = _np.array(pbc)
        info = mod.info_content(s2, 'file.dat', atom_style='charge', units='real')
        want = 'boundary ' + ' '.join('p' if p else 'm' for p in pbc)
        E.prove('data_file.info[%s]' % ''.join('p' if p else 'f' for p in pbc), want in info.split('\n') and 'units real' in info.split('\n') and 'atom_style charge' in info.split('\n')
                and 'read_data file.dat' in info.split('\n'))


@group('dump_file.header.tokens', files=[DUMP_W, BOXF, SYSF, 'atomman/unitconvert.py'], functions=['dump.atom_dump.dump (header)'],
       clause='LAMMPS dump header on a symbolic LAMMPS-normal cell, all unit styles and periodicities: TIMESTEP and NUMBER OF ATOMS items; "BOX BOUNDS" carries "xy xz yz" exactly for tilted '
              'cells, then one flag per direction (pp periodic, fm otherwise); the three rows are LAMMPS\' bounding-box bounds xlo+min(0,xy,xz,xy+xz), xhi+max(0,xy,xz,xy+xz), '
              'ylo+min(0,yz), yhi+max(0,yz), zlo, zhi in the length unit, followed by xy, xz, yz for tilted cells; the ATOMS item lists the table columns',
       replay=_replay_writers, timeout_ms=60000)
def dump_header(E, L):
    mod = L.load(DUMP_W)
    uc = L.resolve('atomman.unitconvert')
    first = True
    for units, tilted, pbc in itertools.product(('metal', 'real', 'nano', 'si'), (True, False), ((True, True, True), (True, False, True), (False, False, False))):
        system, V, o, s, pos = _sym_system(E, L, pbc=pbc)
        if not tilted:
            # rebuild with an orthogonal symbolic cell
            box = system.box
            box._Box__vects[1, 0] = 0.0
            box._Box__vects[2, 0] = 0.0
            box._Box__vects[2, 1] = 0.0
            V = box._Box__vects
        else:
            E.assume(Or(V[1, 0] != 0, V[2, 0] != 0, V[2, 1] != 0))
        if first:
            E.canary('dump_file.header.canary', V[0, 0] == o[0])
            first = False
        Lu = uc.parse(L.resolve('atomman.lammps.style').unit(units)['length'])
        real_td = mod.table_dump
        mod.table_dump = lambda system, prop_info=None, float_format=None: '<TABLE>'
        try:
            with Tokens() as tk:
                text = mod.dump(system, lammps_units=units, float_format='%s')
        finally:
            mod.table_dump = real_td
        lines = text.split('\n')
        tag = 'dump_file.header[%s,%s,%s]' % (units, 'tilted' if tilted else 'orthogonal', ''.join('p' if p else 'f' for p in pbc))
        E.prove(tag + '.items', lines[0] == 'ITEM: TIMESTEP' and lines[1] == '0' and lines[2] == 'ITEM: NUMBER OF ATOMS' and lines[3] == '3')
        flags = ' '.join('pp' if p else 'fm' for p in pbc)
        E.prove(tag + '.bounds_item', lines[4] == ('ITEM: BOX BOUNDS xy xz yz ' if tilted else 'ITEM: BOX BOUNDS ') + flags)
        xy, xz, yz = V[1, 0], V[2, 0], V[2, 1]
        lo = [o[0] + snp.minimum(snp.minimum(0, xy), snp.minimum(xz, xy + xz)), o[1] + snp.minimum(0, yz), o[2]]
        hi = [o[0] + V[0, 0] + snp.maximum(snp.maximum(0, xy), snp.maximum(xz, xy + xz)), o[1] + V[1, 1] + snp.maximum(0, yz), o[2] + V[2, 2]]
        tilt = [xy, xz, yz]
        for i in range(3):
            toks = lines[5 + i].split()
            E.prove(tag + '.row_width[%d]' % i, len(toks) == (3 if tilted else 2))
            E.prove(tag + '.lo_bound[%d]' % i, tk.value(toks[0]) * Lu == lo[i])
            E.prove(tag + '.hi_bound[%d]' % i, tk.value(toks[1]) * Lu == hi[i])
            if tilted:
                E.prove(tag + '.tilt[%d]' % i, tk.value(toks[2]) * Lu == tilt[i])
        E.prove(tag + '.atoms_item', lines[8].startswith('ITEM: ATOMS id type x y z') and lines[9] == '<TABLE>')
