"""C19 — A LAMMPS log is read back run by run, column by column, value by value."""
import io
import itertools
import os

import numpy as _np

from pyvc.runner import group, REPO
from .common_io import signature_obligations, sha_files

LEVEL = 'exploration'
EXPLANATION = ("The reader is pandas.read_csv driven by line counting; no contract within reach of the available verifiers can express pandas' row semantics, so this property is "
               "decided by exploration: the static obligation that every pandas call binds to the installed signature is exact, everything else is a bounded run-time contract "
               "check of Log.read / flatten against an independent log model over synthesised logs (both memory banners, 0-4 runs, thermo keyword sets with int and float columns, "
               "overlapping/disjoint step ranges, with/without timing breakdown, complete or truncated, text/path/stream input, read sequences with append True/False).")
ASSUMPTIONS = ["logs are synthesised from the documented LAMMPS layout; pandas behaviour is not assumed"]
UNCOVERED = ["log layouts outside the synthesised family (old-version timing blocks, warnings interleaved inside thermo output)"]

LOGF = 'atomman/lammps/Log.py'


@group('log.third_party_signatures', kind='static', files=[LOGF], functions=['lammps.Log.read'],
       clause='every call of the log reader into pandas uses only keywords the installed pandas accepts')
def log_signatures(tier, seed):
    import pandas as pd
    obs, files = signature_obligations([LOGF], {'read_csv': pd.read_csv})
    return {'obligations': obs, 'files': files}


KEYSETS = [['Step', 'Temp', 'PotEng', 'Press'], ['Step', 'Atoms', 'Lx', 'Pxx', 'v_peatom'], ['Step', 'PotEng'], ['Step', 'Temp', 'E_pair', 'E_mol', 'TotEng', 'Press', 'Volume']]
INTKEYS = {'Step', 'Atoms'}


def synth_run(rng, keys, start, nrows, every, banner, timing, truncated):
    rows = []
    for r in range(nrows):
        row = []
        for k in keys:
            if k == 'Step':
                row.append(start + r * every)
            elif k in INTKEYS:
                row.append(int(rng.randint(1, 5000)))
            else:
                row.append(float(_np.round(rng.uniform(-500, 500), 6)))
        rows.append(row)
    txt = 'run %d\n' % (nrows * every)
    txt += ('Per MPI rank memory allocation (min/avg/max) = 3.264 | 3.264 | 3.264 Mbytes\n' if banner == 'new' else 'Memory usage per processor = 2.7 Mbytes\n')
    txt += ' '.join(keys) + ' \n'
    for row in rows:
        txt += ' '.join(('%8d' % v) if isinstance(v, int) else ('%14.6f' % v) for v in row) + '\n'
    perf = None
    if not truncated:
        txt += 'Loop time of 0.0123 on 1 procs for %d steps with 32 atoms\n\n' % (nrows * every)
        txt += 'Performance: 702.1 ns/day, 0.034 hours/ns, 8126.2 timesteps/s\n99.5% CPU use with 1 MPI tasks x no OpenMP threads\n\n'
        if timing:
            perf = {'Pair': (0.0034, 0.0034, 0.0034, 0.0, 27.65), 'Neigh': (0.0, 0.0, 0.0, 0.0, 0.0), 'Comm': (0.0021, 0.0021, 0.0021, 0.0, 17.07),
                    'Output': (0.0060, 0.0060, 0.0060, 0.0, 48.78), 'Modify': (0.0005, 0.0005, 0.0005, 0.0, 4.07), 'Other': (None, 0.0003, None, None, 2.43)}
            txt += 'MPI task timing breakdown:\nSection |  min time  |  avg time  |  max time  |%varavg| %total\n---------------------------------------------------------------\n'
            for nm, (a, b, c, d, e) in perf.items():
                f = lambda v, w: ('%-*s' % (w, '')) if v is None else ('%-*s' % (w, ('%.4g' % v)))
                txt += '%-8s| %s | %s | %s | %s | %5.2f\n' % (nm, f(a, 10), f(b, 10), f(c, 10), f(d, 5), e)
            txt += '\n'
        txt += 'Nlocal:    32 ave 32 max 32 min\nHistogram: 1 0 0 0 0 0 0 0 0 0\nNghost:    777 ave 777 max 777 min\n\nTotal # of neighbors = 1792\n\n'
    return txt, {'keys': keys, 'rows': rows, 'perf': perf}


def synth_log(rng, nruns, banner, overlap, timing, truncated, version='29 Oct 2020'):
    txt = 'LAMMPS (%s)\n  using 1 OpenMP thread(s) per MPI task\nunits metal\n\nCreated orthogonal box = (0 0 0) to (8.1 8.1 8.1)\n  1 by 1 by 1 MPI processor grid\n\n' % version
    model = []
    start = 0
    for r in range(nruns):
        keys = KEYSETS[(r + rng.randint(0, 4)) % len(KEYSETS)] if not overlap else KEYSETS[0]
        nrows = int(rng.randint(2, 6))
        every = int(rng.choice([1, 10, 100]))
        t, m = synth_run(rng, keys, start, nrows, every, banner, timing, truncated and r == nruns - 1)
        txt += t
        model.append(m)
        last = start + (nrows - 1) * every
        start = last - every if (overlap and r % 2 == 0) else (last if overlap else last + every * 3)
    return txt, model


def check_sims(sims, model, msgs, tag=''):
    import numpy as np
    if len(sims) != len(model):
        msgs.append('%s%d simulation records for %d runs' % (tag, len(sims), len(model)))
        return
    for k, (sim, m) in enumerate(zip(sims, model)):
        th = sim.thermo
        if th is None:
            msgs.append('%srun %d: no thermo table' % (tag, k))
            continue
        if list(th.columns) != m['keys']:
            msgs.append('%srun %d: columns %r != printed %r' % (tag, k, list(th.columns), m['keys']))
            continue
        if len(th) != len(m['rows']):
            msgs.append('%srun %d: %d rows read, %d printed' % (tag, k, len(th), len(m['rows'])))
            continue
        got = th.values.astype(float)
        want = np.array(m['rows'], dtype=float)
        if not np.allclose(got, want, rtol=0, atol=1e-9):
            bad = np.argwhere(~np.isclose(got, want, rtol=0, atol=1e-9))[0]
            msgs.append('%srun %d: row %d column %s read as %r, printed %r' % (tag, k, bad[0], m['keys'][bad[1]], got[bad[0], bad[1]], want[bad[0], bad[1]]))
        if m['perf'] is not None:
            pf = sim.performance
            if pf is None:
                msgs.append('%srun %d: timing breakdown not read' % (tag, k))
            else:
                if [str(x).strip() for x in pf.index] != list(m['perf']):
                    msgs.append('%srun %d: timing sections %r != %r' % (tag, k, list(pf.index), list(m['perf'])))
                else:
                    for nm, vals in m['perf'].items():
                        gotv = [float(x) for x in pf.iloc[[str(x).strip() for x in pf.index].index(nm)].values]
                        wantv = [0.0 if v is None else float('%.4g' % v) if i < 4 else v for i, v in enumerate(vals)]
                        if not np.allclose(gotv, wantv, atol=1e-9):
                            msgs.append('%srun %d: timing row %s read as %r, printed %r' % (tag, k, nm, gotv, wantv))
        elif sim.performance is not None:
            msgs.append('%srun %d: a timing table appeared although none was printed' % (tag, k))


def flatten_model(model, style):
    """independent model of flatten: list of (step,row) merged"""
    rows = [list(r) for r in model[0]['rows']]
    for m in model[1:]:
        new = [list(r) for r in m['rows']]
        if style == 'first':
            mx = max(r[0] for r in rows)
            rows = rows + [r for r in new if r[0] > mx]
        elif style == 'last':
            mn = min(r[0] for r in new)
            rows = [r for r in rows if r[0] < mn] + new
        else:
            rows = rows + new
    return rows


@group('log.read.family', kind='bounded', files=[LOGF], functions=['lammps.Log.read', 'lammps.Log.flatten', 'lammps.Simulation'],
       clause='one simulation record per run in order, thermo table with the printed column names and values row for row (also for a truncated final block), version string and date, '
              'timing breakdown per run; a further read appends (append=False resets); flatten keeps every timestep once from the earliest/latest run, or all rows',
       rule='synthesised logs: 2 banners x runs 1..4 x overlapping/disjoint steps x timing on/off x complete/truncated x input {str, path, stream} x seeded values; read sequences of length 2 '
            'with append True/False; distinct by parameter tuple; non-trivial = more than one run or truncated')
def log_family(tier, seed):
    from pyvc.native import atomman
    import numpy as np
    import datetime
    import tempfile
    import shutil
    am = atomman()
    fails, samples = [], []
    evals = nontriv = 0
    tmpd = tempfile.mkdtemp(prefix='pyvc_log_')
    reps = 1 if tier == 'quick' else 4
    try:
        for banner, nruns, overlap, timing, truncated, rep in itertools.product(['new', 'old'], [1, 2, 3, 4], [False, True], [False, True], [False, True], range(reps)):
            rng = np.random.RandomState(1000 * rep + seed + nruns * 7 + (3 if overlap else 0))
            evals += 1
            nontriv += (nruns > 1 or truncated)
            how = ['str', 'path', 'stream'][evals % 3]
            key = 'banner=%s,runs=%d,overlap=%s,timing=%s,truncated=%s,given_as=%s,rep=%d' % (banner, nruns, overlap, timing, truncated, how, rep)
            msgs = []
            try:
                text, model = synth_log(rng, nruns, banner, overlap, timing, truncated)
                if how == 'path':
                    src = os.path.join(tmpd, 'log%d.lammps' % evals)
                    open(src, 'w').write(text)
                elif how == 'stream':
                    src = io.BytesIO(text.encode())
                else:
                    src = text
                log = am.lammps.Log(src)
                check_sims(log.simulations, model, msgs)
                if log.lammps_version != '29 Oct 2020':
                    msgs.append('version string %r' % (log.lammps_version,))
                if log.lammps_date != datetime.date(2020, 10, 29):
                    msgs.append('version date %r' % (log.lammps_date,))
                # second read appends
                text2, model2 = synth_log(np.random.RandomState(seed + evals), 1 + evals % 2, banner, False, timing, False, version='3 Mar 2020')
                log.read(text2)
                check_sims(log.simulations, model + model2, msgs, tag='after append: ')
                log.read(text2, append=False)
                check_sims(log.simulations, model2, msgs, tag='after read(append=False): ')
                if log.lammps_version != '3 Mar 2020':
                    msgs.append('read(append=False) kept the old version string %r' % (log.lammps_version,))
                # flatten (needs the same keys in all runs: overlap family uses one key set)
                if overlap and nruns > 1:
                    log2 = am.lammps.Log(text)
                    for style in ('first', 'last', 'all'):
                        got = log2.flatten(style).thermo
                        want = np.array(flatten_model(model, style), dtype=float)
                        if got.shape != want.shape or not np.allclose(got.values.astype(float), want, atol=1e-9):
                            msgs.append('flatten(%r): %d rows, steps %r; model gives steps %r' % (style, len(got), got.Step.tolist(), want[:, 0].astype(int).tolist()))
                        elif style != 'all' and len(set(got.Step.tolist())) != len(got):
                            msgs.append('flatten(%r) repeats a timestep' % style)
                # a restarted middle run (reset_timestep): steps 0..1000, 0..500, 500..1500 -- the earliest/latest run must win per timestep
                if nruns == 3 and not truncated:
                    parts, mods = [], []
                    for (st, nr) in ((0, 11), (0, 6), (500, 11)):
                        t_, m_ = synth_run(rng, KEYSETS[0], st, nr, 100, banner, timing, False)
                        parts.append(t_)
                        mods.append(m_)
                    log3 = am.lammps.Log('LAMMPS (29 Oct 2020)\n' + ''.join(parts))
                    check_sims(log3.simulations, mods, msgs, tag='restart log: ')
                    for style in ('first', 'last', 'all'):
                        got = log3.flatten(style).thermo
                        want = np.array(flatten_model(mods, style), dtype=float)
                        if got.shape != want.shape or not np.allclose(got.values.astype(float), want, atol=1e-9):
                            msgs.append('restart log: flatten(%r) steps %r; model gives %r' % (style, got.Step.tolist(), want[:, 0].astype(int).tolist()))
                if len(samples) < 1:
                    samples.append({'case': key, 'log_head': text[:300]})
            except Exception as e:
                msgs.append('raised %s: %s' % (type(e).__name__, e))
            if msgs:
                fails.append({'obligation': 'log.read.post', 'key': key, 'input': key, 'detail': '; '.join(msgs[:3])})
    finally:
        shutil.rmtree(tmpd, ignore_errors=True)
    seen = {}
    for f in fails:
        seen.setdefault(f['key'], f)
    return {'family': 'synthesised LAMMPS logs', 'evaluations': evals, 'distinct_nontrivial': nontriv, 'rule': 'see group rule', 'samples': samples, 'failures': list(seen.values())[:12],
            'files': sha_files([LOGF])}
