"""C19 — A LAMMPS log is read back run by run, column by column, value by value."""
import io
import itertools
import os

import numpy as _np

from pyvc.runner import group, REPO
from .common_io import signature_obligations, sha_files

LEVEL = 'exploration'
EXPLANATION = ("The reader is a line scanner that locates tables and hands them to pandas.read_csv. PROVED on the real source (blocks extracted mechanically): the scanner's per-line "
               "transfer contract for every class of line (the loop uses a line only through blankness, the version banner test and membership of six trigger texts -- checked "
               "statically -- so the finite case analysis is exact and, by induction over the lines, the start/end lists hold the positions of the trigger lines of any log), and the "
               "dispatch block (which ranges are read, in which order, which run a timing table is attached to, unterminated tables). pandas' row semantics (how header=/nrows= "
               "select rows, dtype inference) cannot be expressed by any contract within reach, so the end-to-end clause 'run by run, column by column, value by value' is a "
               "bounded run-time contract check of Log.read / flatten against an independent log model over synthesised logs (both memory banners, 0-4 runs, int and float "
               "columns, overlapping/disjoint step ranges, with/without timing breakdown, complete or truncated, text/path/stream input, append True/False): level exploration.")
ASSUMPTIONS = ["pandas.read_csv(header=h, nrows=n, skip_blank_lines=True) reads the h-th non-blank line as column names and the next n as rows: not assumed in proofs, exercised by the bounded family",
               "logs of the bounded family are synthesised from the documented LAMMPS layout"]
UNCOVERED = ["pandas parsing of the located tables beyond the bounded family", "old-version timing blocks (parsed with a pandas API removed from the installed version)"]

LOGF = 'atomman/lammps/Log.py'


@group('log.third_party_signatures', kind='static', files=[LOGF], functions=['lammps.Log.read'],
       clause='every call of the log reader into pandas uses only keywords the installed pandas accepts')
def log_signatures(tier, seed):
    import pandas as pd
    obs, files = signature_obligations([LOGF], {'read_csv': pd.read_csv})
    return {'obligations': obs, 'files': files}


KEYSETS = [['Step', 'Temp', 'PotEng', 'Press'], ['Step', 'Atoms', 'Lx', 'Pxx', 'v_peatom'], ['Step', 'PotEng'], ['Step', 'Temp', 'E_pair', 'E_mol', 'TotEng', 'Press', 'Volume']]
INTKEYS = {'Step', 'Atoms'}


def synth_run(rng, keys, start, nrows, every, banner, timing, truncated):
    rows = []
    for r in range(nrows):
        row = []
        for k in keys:
            if k == 'Step':
                row.append(start + r * every)
            elif k in INTKEYS:
                row.append(int(rng.randint(1, 5000)))
            else:
                row.append(float(_np.round(rng.uniform(-500, 500), 6)))
        rows.append(row)
    txt = 'run %d\n' % (nrows * every)
    txt += ('Per MPI rank memory allocation (min/avg/max) = 3.264 | 3.264 | 3.264 Mbytes\n' if banner == 'new' else 'Memory usage per processor = 2.7 Mbytes\n')
    txt += ' '.join(keys) + ' \n'
    for row in rows:
        txt += ' '.join(('%8d' % v) if isinstance(v, int) else ('%14.6f' % v) for v in row) + '\n'
    perf = None
    if not truncated:
        txt += 'Loop time of 0.0123 on 1 procs for %d steps with 32 atoms\n\n' % (nrows * every)
        txt += 'Performance: 702.1 ns/day, 0.034 hours/ns, 8126.2 timesteps/s\n99.5% CPU use with 1 MPI tasks x no OpenMP threads\n\n'
        if timing:
            perf = {'Pair': (0.0034, 0.0034, 0.0034, 0.0, 27.65), 'Neigh': (0.0, 0.0, 0.0, 0.0, 0.0), 'Comm': (0.0021, 0.0021, 0.0021, 0.0, 17.07),
                    'Output': (0.0060, 0.0060, 0.0060, 0.0, 48.78), 'Modify': (0.0005, 0.0005, 0.0005, 0.0, 4.07), 'Other': (None, 0.0003, None, None, 2.43)}
            txt += 'MPI task timing breakdown:\nSection |  min time  |  avg time  |  max time  |%varavg| %total\n---------------------------------------------------------------\n'
            for nm, (a, b, c, d, e) in perf.items():
                f = lambda v, w: ('%-*s' % (w, '')) if v is None else ('%-*s' % (w, ('%.4g' % v)))
                txt += '%-8s| %s | %s | %s | %s | %5.2f\n' % (nm, f(a, 10), f(b, 10), f(c, 10), f(d, 5), e)
            txt += '\n'
        txt += 'Nlocal:    32 ave 32 max 32 min\nHistogram: 1 0 0 0 0 0 0 0 0 0\nNghost:    777 ave 777 max 777 min\n\nTotal # of neighbors = 1792\n\n'
    return txt, {'keys': keys, 'rows': rows, 'perf': perf}


def synth_log(rng, nruns, banner, overlap, timing, truncated, version='29 Oct 2020'):
    txt = 'LAMMPS (%s)\n  using 1 OpenMP thread(s) per MPI task\nunits metal\n\nCreated orthogonal box = (0 0 0) to (8.1 8.1 8.1)\n  1 by 1 by 1 MPI processor grid\n\n' % version
    model = []
    start = 0
    for r in range(nruns):
        keys = KEYSETS[(r + rng.randint(0, 4)) % len(KEYSETS)] if not overlap else KEYSETS[0]
        nrows = int(rng.randint(2, 6))
        every = int(rng.choice([1, 10, 100]))
        t, m = synth_run(rng, keys, start, nrows, every, banner, timing, truncated and r == nruns - 1)
        txt += t
        model.append(m)
        last = start + (nrows - 1) * every
        start = last - every if (overlap and r % 2 == 0) else (last if overlap else last + every * 3)
    return txt, model


def check_sims(sims, model, msgs, tag=''):
    import numpy as np
    if len(sims) != len(model):
        msgs.append('%s%d simulation records for %d runs' % (tag, len(sims), len(model)))
        return
    for k, (sim, m) in enumerate(zip(sims, model)):
        th = sim.thermo
        if th is None:
            msgs.append('%srun %d: no thermo table' % (tag, k))
            continue
        if list(th.columns) != m['keys']:
            msgs.append('%srun %d: columns %r != printed %r' % (tag, k, list(th.columns), m['keys']))
            continue
        if len(th) != len(m['rows']):
            msgs.append('%srun %d: %d rows read, %d printed' % (tag, k, len(th), len(m['rows'])))
            continue
        got = th.values.astype(float)
        want = np.array(m['rows'], dtype=float)
        if not np.allclose(got, want, rtol=0, atol=1e-9):
            bad = np.argwhere(~np.isclose(got, want, rtol=0, atol=1e-9))[0]
            msgs.append('%srun %d: row %d column %s read as %r, printed %r' % (tag, k, bad[0], m['keys'][bad[1]], got[bad[0], bad[1]], want[bad[0], bad[1]]))
        if m['perf'] is not None:
            pf = sim.performance
            if pf is None:
                msgs.append('%srun %d: timing breakdown not read' % (tag, k))
            else:
                if [str(x).strip() for x in pf.index] != list(m['perf']):
                    msgs.append('%srun %d: timing sections %r != %r' % (tag, k, list(pf.index), list(m['perf'])))
                else:
                    for nm, vals in m['perf'].items():
                        gotv = [float(x) for x in pf.iloc[[str(x).strip() for x in pf.index].index(nm)].values]
                        wantv = [0.0 if v is None else float('%.4g' % v) if i < 4 else v for i, v in enumerate(vals)]
                        if not np.allclose(gotv, wantv, atol=1e-9):
                            msgs.append('%srun %d: timing row %s read as %r, printed %r' % (tag, k, nm, gotv, wantv))
        elif sim.performance is not None:
            msgs.append('%srun %d: a timing table appeared although none was printed' % (tag, k))


def flatten_model(model, style):
    """independent model of flatten: list of (step,row) merged"""
    rows = [list(r) for r in model[0]['rows']]
    for m in model[1:]:
        new = [list(r) for r in m['rows']]
        if style == 'first':
            mx = max(r[0] for r in rows)
            rows = rows + [r for r in new if r[0] > mx]
        elif style == 'last':
            mn = min(r[0] for r in new)
            rows = [r for r in rows if r[0] < mn] + new
        else:
            rows = rows + new
    return rows


@group('log.read.family', kind='bounded', files=[LOGF], functions=['lammps.Log.read', 'lammps.Log.flatten', 'lammps.Simulation'],
       clause='one simulation record per run in order, thermo table with the printed column names and values row for row (also for a truncated final block), version string and date, '
              'timing breakdown per run; a further read appends (append=False resets); flatten keeps every timestep once from the earliest/latest run, or all rows',
       rule='synthesised logs: 2 banners x runs 1..4 x overlapping/disjoint steps x timing on/off x complete/truncated x input {str, path, stream} x seeded values; read sequences of length 2 '
            'with append True/False; distinct by parameter tuple; non-trivial = more than one run or truncated')
def log_family(tier, seed):
    from pyvc.native import atomman
    import numpy as np
    import datetime
    import tempfile
    import shutil
    am = atomman()
    fails, samples = [], []
    evals = nontriv = 0
    tmpd = tempfile.mkdtemp(prefix='pyvc_log_')
    reps = 1 if tier == 'quick' else 4
    try:
        for banner, nruns, overlap, timing, truncated, rep in itertools.product(['new', 'old'], [1, 2, 3, 4], [False, True], [False, True], [False, True], range(reps)):
            rng = np.random.RandomState(1000 * rep + seed + nruns * 7 + (3 if overlap else 0))
            evals += 1
            nontriv += (nruns > 1 or truncated)
            how = ['str', 'path', 'stream'][evals % 3]
            key = 'banner=%s,runs=%d,overlap=%s,timing=%s,truncated=%s,given_as=%s,rep=%d' % (banner, nruns, overlap, timing, truncated, how, rep)
            msgs = []
            try:
                text, model = synth_log(rng, nruns, banner, overlap, timing, truncated)
                if how == 'path':
                    src = os.path.join(tmpd, 'log%d.lammps' % evals)
                    open(src, 'w').write(text)
                elif how == 'stream':
                    src = io.BytesIO(text.encode())
                else:
                    src = text
                log = am.lammps.Log(src)
                check_sims(log.simulations, model, msgs)
                if log.lammps_version != '29 Oct 2020':
                    msgs.append('version string %r' % (log.lammps_version,))
                if log.lammps_date != datetime.date(2020, 10, 29):
                    msgs.append('version date %r' % (log.lammps_date,))
                # second read appends
                text2, model2 = synth_log(np.random.RandomState(seed + evals), 1 + evals % 2, banner, False, timing, False, version='3 Mar 2020')
                log.read(text2)
                check_sims(log.simulations, model + model2, msgs, tag='after append: ')
                log.read(text2, append=False)
                check_sims(log.simulations, model2, msgs, tag='after read(append=False): ')
                if log.lammps_version != '3 Mar 2020':
                    msgs.append('read(append=False) kept the old version string %r' % (log.lammps_version,))
                # flatten (needs the same keys in all runs: overlap family uses one key set)
                if overlap and nruns > 1:
                    log2 = am.lammps.Log(text)
                    for style in ('first', 'last', 'all'):
                        got = log2.flatten(style).thermo
                        want = np.array(flatten_model(model, style), dtype=float)
                        if got.shape != want.shape or not np.allclose(got.values.astype(float), want, atol=1e-9):
                            msgs.append('flatten(%r): %d rows, steps %r; model gives steps %r' % (style, len(got), got.Step.tolist(), want[:, 0].astype(int).tolist()))
                        elif style != 'all' and len(set(got.Step.tolist())) != len(got):
                            msgs.append('flatten(%r) repeats a timestep' % style)
                # a restarted middle run (reset_timestep): steps 0..1000, 0..500, 500..1500 -- the earliest/latest run must win per timestep
                if nruns == 3 and not truncated:
                    parts, mods = [], []
                    for (st, nr) in ((0, 11), (0, 6), (500, 11)):
                        t_, m_ = synth_run(rng, KEYSETS[0], st, nr, 100, banner, timing, False)
                        parts.append(t_)
                        mods.append(m_)
                    log3 = am.lammps.Log('LAMMPS (29 Oct 2020)\n' + ''.join(parts))
                    check_sims(log3.simulations, mods, msgs, tag='restart log: ')
                    for style in ('first', 'last', 'all'):
                        got = log3.flatten(style).thermo
                        want = np.array(flatten_model(mods, style), dtype=float)
                        if got.shape != want.shape or not np.allclose(got.values.astype(float), want, atol=1e-9):
                            msgs.append('restart log: flatten(%r) steps %r; model gives %r' % (style, got.Step.tolist(), want[:, 0].astype(int).tolist()))
                # read, flatten, append a further log, flatten again with the same arguments: the second merge must include the appended runs
                if nruns >= 2 and not truncated:
                    parts, mods = [], []
                    st = 0
                    for nr in (4, 4, 3, 5):
                        t_, m_ = synth_run(rng, KEYSETS[2], st, nr, 100, banner, timing, False)
                        parts.append(t_)
                        mods.append(m_)
                        st += (nr - 1) * 100
                    log4 = am.lammps.Log('LAMMPS (29 Oct 2020)\n' + parts[0] + parts[1])
                    for style in ('last', 'first', 'all'):
                        log4.flatten(style)
                    log4.read('LAMMPS (29 Oct 2020)\n' + parts[2] + parts[3], append=True)
                    for style in ('last', 'first', 'all'):
                        got = log4.flatten(style).thermo
                        want = np.array(flatten_model(mods, style), dtype=float)
                        if got.shape != want.shape or not np.allclose(got.values.astype(float), want, atol=1e-9):
                            msgs.append('flatten(%r) after read / flatten / read(append=True): steps %r; model gives %r' % (style, got.Step.tolist(), want[:, 0].astype(int).tolist()))
                # blank lines of other kinds (CRLF line ends, whitespace-only lines) do not move the tables
                if nruns <= 2 and not truncated:
                    for nm, conv in (('CRLF', lambda t: t.replace('\n', '\r\n')), ('space-only blank lines', lambda t: t.replace('\n\n', '\n   \n')),
                                     ('tab-only blank lines', lambda t: t.replace('\n\n', '\n\t\n'))):
                        logv = am.lammps.Log(io.BytesIO(conv(text).encode()))
                        check_sims(logv.simulations, model, msgs, tag='%s: ' % nm)
                if len(samples) < 1:
                    samples.append({'case': key, 'log_head': text[:300]})
            except Exception as e:
                msgs.append('raised %s: %s' % (type(e).__name__, e))
            if msgs:
                fails.append({'obligation': 'log.read.post', 'key': key, 'input': key, 'detail': '; '.join(msgs[:3])})
        # a float column for which the LAST run happens to print whole numbers only (a thermostat at 0, a counter-like quantity): flattening keeps the printed values of the
        # earlier runs, fractional parts included, whichever run is preferred
        for banner in ('new', 'old'):
            evals += 1
            nontriv += 1
            head = 'Per MPI rank memory allocation (min/avg/max) = 3.1 | 3.1 | 3.1 Mbytes' if banner == 'new' else 'Memory usage per processor = 2.7 Mbytes'
            text = ('LAMMPS (29 Oct 2020)\n' + head + '\nStep Temp PotEng \n       0   300.500000    -4.250000\n     100   310.250000    -4.500000\n     200   320.750000    -4.750000\n'
                    'Loop time of 0.0123 on 1 procs for 200 steps with 4 atoms\n\n' + head + '\nStep Temp PotEng \n     200   0    -4.750000\n     300   0    -5.000000\n'
                    'Loop time of 0.0123 on 1 procs for 100 steps with 4 atoms\n\nTotal wall time: 0:00:00\n')
            want = {'first': [[0, 300.5, -4.25], [100, 310.25, -4.5], [200, 320.75, -4.75], [300, 0.0, -5.0]],
                    'last': [[0, 300.5, -4.25], [100, 310.25, -4.5], [200, 0.0, -4.75], [300, 0.0, -5.0]],
                    'all': [[0, 300.5, -4.25], [100, 310.25, -4.5], [200, 320.75, -4.75], [200, 0.0, -4.75], [300, 0.0, -5.0]]}
            msgs = []
            try:
                lg = am.lammps.Log(text)
                for style in ('first', 'last', 'all'):
                    got = lg.flatten(style).thermo
                    w = np.array(want[style], dtype=float)
                    if list(got.columns) != ['Step', 'Temp', 'PotEng'] or got.shape != w.shape or not np.allclose(got.values.astype(float), w, atol=1e-9):
                        msgs.append("flatten(%r) of a log whose last run prints whole numbers in a float column: Temp %r, printed values %r" % (style, got.Temp.tolist() if 'Temp' in got else None, w[:, 1].tolist()))
            except Exception as e:
                msgs.append('raised %s: %s' % (type(e).__name__, e))
            if msgs:
                fails.append({'obligation': 'log.read.post', 'key': 'whole numbers in the last run,banner=%s' % banner, 'input': text, 'detail': '; '.join(msgs[:2])})
    finally:
        shutil.rmtree(tmpd, ignore_errors=True)
    seen = {}
    for f in fails:
        seen.setdefault(f['key'], f)
    return {'family': 'synthesised LAMMPS logs', 'evaluations': evals, 'distinct_nontrivial': nontriv, 'rule': 'see group rule', 'samples': samples, 'failures': list(seen.values())[:12],
            'files': sha_files([LOGF])}


# ----------------------------------------------------------------------------
# the line scanner of Log.read: per-line transfer contract (finite, exact abstraction) and the dispatch of the table reads

import ast as _ast
from pyvc import symnp as snp
from pyvc.sym import Sym
from pyvc.extract import extract as _extract, extract_range as _extract_range, find_function as _find_function
from .common import And, Or, Not

TRIG = {'ts1': 'Memory usage per processor =', 'ts2': 'Per MPI rank memory allocation (min/avg/max) =', 'te': 'Loop time of', 'ps': 'MPI task timing breakdown',
        'pso': 'Pair  time (%)', 'pe': 'Nlocal:'}


def _is_line_for(n):
    return isinstance(n, _ast.For) and isinstance(n.target, _ast.Name) and n.target.id == 'line'


def _replay_log(stem, vals):
    from pyvc.native import atomman
    import numpy as np
    am = atomman()
    msgs = []
    try:
        rng = np.random.RandomState(3)
        for nruns, banner, timing in ((1, 0, True), (3, 1, True), (2, 0, False)):
            text, model = synth_log(rng, nruns, banner, False, timing, False)
            log = am.lammps.Log(io.BytesIO(text.encode('utf-8')))
            check_sims(log.simulations, model, msgs, 'replay nruns=%d: ' % nruns)
    except Exception as e:
        msgs.append('raised %s: %s' % (type(e).__name__, e))
    return (len(msgs) > 0, '; '.join(msgs[:3]) if msgs else 'float replay of the log-reader contracts found no disagreement')


@group('log.scan.transfer', files=[LOGF], functions=['lammps.Log.read (block: line loop)'],
       clause='the line loop of Log.read, extracted mechanically and executed on one line from an arbitrary scanner state (symbolic line counter, arbitrary lists), for every class of '
              'line (blank; LAMMPS version banner; every subset of the six trigger texts): a blank line changes nothing; any other line advances the counter of non-blank lines by '
              'one; a memory banner appends counter+1 to the thermo starts, otherwise "Loop time of" appends counter-1 to the thermo ends; "MPI task timing breakdown" appends '
              'counter+1 to the performance starts; the old-style "Pair  time (%)" appends the counter and sets the old-version flag, otherwise "Nlocal:" appends counter-1 to the '
              'performance ends; the version is read from the first banner only. The loop uses the line only through these tests (static), so by induction over the lines the four '
              'lists hold exactly the positions, counted in non-blank lines, of the trigger lines of ANY log', replay=_replay_log, timeout_ms=20000)
def scan_transfer(E, L):
    block, info = _extract(L, LOGF, 'read', _is_line_for)
    E.shape('scan.block_found', info['last_line'] > info['first_line'])
    # static: every use of `line` inside the loop is one of the whitelisted tests
    mod = L.load(LOGF)
    import os as _os
    text = L.source_text(_os.path.join(L.repo, LOGF))
    fn = _find_function(_ast.parse(text), 'read')
    loop = [n for n in _ast.walk(fn) if _is_line_for(n)][0]
    uses = []
    parents = {}
    for n in _ast.walk(loop):
        for ch in _ast.iter_child_nodes(n):
            parents[ch] = n
    for n in _ast.walk(loop):
        if isinstance(n, _ast.Name) and n.id == 'line' and isinstance(n.ctx, _ast.Load):
            p = parents[n]
            uses.append(_ast.unparse(parents.get(p, p)) if isinstance(p, (_ast.Attribute, _ast.Subscript)) else _ast.unparse(p))
    allowed = {"line.decode('UTF-8')", 'line.split()', "line[:8] == 'LAMMPS ('", 'trigger in line', 'self.__read_lammps_version(line)'}
    E.prove('scan.line_used_only_through_tests', set(uses) <= allowed and len(uses) >= 8)
    i0 = E.int('i')
    E.assume(i0 >= 0)
    E.canary('scan.canary', i0 == 5)
    names = sorted(TRIG)
    ncase = 0
    for blank, banner, had_version in itertools.product((False, True), (False, True), (False, True)):
        for mask in itertools.product((False, True), repeat=len(names)):
            if blank and (banner or any(mask)):
                continue
            present = [nm for nm, m in zip(names, mask) if m]
            line = '   \n' if blank else ((('LAMMPS (29 Oct 2020)' if banner else 'xx') + ' ' + ' | '.join(TRIG[nm] for nm in present)) + ' tail\n')
            versions = []

            class S(object):
                pass
            self_ = S()
            self_.lammps_version = 'already' if had_version else None
            setattr(self_, '__read_lammps_version', lambda ln, versions=versions: versions.append(ln))
            state = dict(log_info=[line.encode('utf-8')], self=self_, i=i0, thermo_headers=['TH'], thermo_footers=['TF'], performance_headers=['PH'], performance_footers=['PF'],
                         is_old_version='OLD', thermo_start_trigger=[TRIG['ts1'], TRIG['ts2']], thermo_end_trigger=[TRIG['te']], performance_start_trigger=[TRIG['ps']],
                         performance_start_trigger_old_version=[TRIG['pso']], performance_end_trigger=[TRIG['pe']])
            out = block(state)
            tag = 'scan.transfer[%d]' % ncase
            ncase += 1
            ts = 'ts1' in present or 'ts2' in present
            want_th = ['TH'] + ([i0 + 1] if ts else [])
            want_tf = ['TF'] + ([i0 - 1] if (not ts and 'te' in present) else [])
            want_ph = ['PH'] + ([i0 + 1] if 'ps' in present else []) + ([i0] if 'pso' in present else [])
            want_pf = ['PF'] + ([i0 - 1] if ('pso' not in present and 'pe' in present) else [])

            def same(a, b):
                return len(a) == len(b) and all((x is y) or (isinstance(x, Sym) and isinstance(y, Sym) and x.t is y.t) or (not isinstance(x, Sym) and not isinstance(y, Sym) and x == y)
                                                for x, y in zip(a, b))
            if blank:
                E.prove(tag + '.blank_changes_nothing', out['i'] is i0 and same(out['thermo_headers'], ['TH']) and same(out['thermo_footers'], ['TF'])
                        and same(out['performance_headers'], ['PH']) and same(out['performance_footers'], ['PF']) and out.get('is_old_version', 'OLD') == 'OLD' and not versions)
                continue
            E.prove(tag + '.counter_advances', out['i'] == i0 + 1)
            E.prove(tag + '.lists', same(out['thermo_headers'], want_th) and same(out['thermo_footers'], want_tf) and same(out['performance_headers'], want_ph)
                    and same(out['performance_footers'], want_pf))
            E.prove(tag + '.old_version_flag', out.get('is_old_version', 'OLD') == (True if 'pso' in present else 'OLD'))
            E.prove(tag + '.version_from_first_banner_only', len(versions) == (1 if (banner and not had_version) else 0))
    E.prove('scan.cases', ncase == 2 * 2 * 64 + 2)


def _is_append_total(n):
    return (isinstance(n, _ast.Expr) and isinstance(n.value, _ast.Call) and _ast.unparse(n.value) == 'thermo_footers.append(i)')


def _is_perf_for(n):
    return isinstance(n, _ast.For) and isinstance(n.target, _ast.Name) and n.target.id == 'header' and 'performance_headers' in _ast.unparse(n.iter)


@group('log.scan.dispatch', files=[LOGF], functions=['lammps.Log.read (block: table dispatch)'],
       clause='after the scan (block extracted mechanically, lists of symbolic increasing line positions): the end of the file closes an unterminated thermo table; the k-th thermo table '
              'is read with header = k-th start and nrows = k-th end - k-th start, in order, as a new simulation; each timing table is read from its start to the first end at or '
              'after it and attached to the simulation of the last thermo table starting at or before it (counting from the simulations already present when appending)',
       replay=_replay_log, timeout_ms=30000)
def scan_dispatch(E, L):
    block, info = _extract_range(L, LOGF, 'read', _is_append_total, _is_perf_for)
    E.shape('dispatch.block_found', info['last_line'] > info['first_line'])
    first = True
    for nth, ntf, nperf, existing in ((1, 1, 1, 0), (2, 2, 2, 1), (2, 1, 1, 0), (3, 3, 0, 2), (1, 0, 0, 0)):
        th = [E.int('th%d' % k) for k in range(nth)]
        tf = [E.int('tf%d' % k) for k in range(ntf)]
        total = E.int('total')
        # scanner invariants: starts and ends alternate in file order
        seq = []
        for k in range(nth):
            seq.append(th[k])
            if k < ntf:
                seq.append(tf[k])
        E.assume(seq[0] >= 1)
        for a_, b_ in zip(seq, seq[1:]):
            E.assume(a_ < b_)
        E.assume(total > seq[-1])
        # timing tables: the k-th follows the k-th thermo end
        ph = [E.int('ph%d' % k) for k in range(nperf)]
        pf = [E.int('pf%d' % k) for k in range(nperf)]
        for k in range(nperf):
            E.assume(ph[k] > tf[k])
            E.assume(pf[k] > ph[k])
            if k + 1 < nth:
                E.assume(pf[k] < th[k + 1])
            else:
                E.assume(pf[k] < total)
        if first:
            E.canary('dispatch.canary', th[0] == 7)
            first = False
        calls = []

        class Sim(object):
            def __init__(self, tag):
                self.tag = tag
                self.performance = None

        class S(object):
            pass
        self_ = S()
        self_.simulations = [Sim('old%d' % k) for k in range(existing)]

        def read_thermo(log_info, header, footer, self_=self_):
            calls.append(('thermo', header, footer))
            self_.simulations.append(Sim('new%d' % (len(self_.simulations))))

        def read_perf(log_info, header, footer, old, calls=calls):
            calls.append(('perf', header, footer, old))
            return ('PERF', header)
        setattr(self_, '__read_thermo', read_thermo)
        setattr(self_, '__read_performance', read_perf)

        class F(object):
            def seek(self, k):
                calls.append(('seek', k))
        state = dict(self=self_, log_info=F(), i=total, thermo_headers=list(th), thermo_footers=list(tf), performance_headers=list(ph), performance_footers=list(pf),
                     is_old_version=False)
        out = block(state)
        tag = 'dispatch[%d,%d,%d,%d]' % (nth, ntf, nperf, existing)
        tcalls = [c for c in calls if c[0] == 'thermo']
        E.prove(tag + '.one_read_per_thermo_table', len(tcalls) == nth and len(self_.simulations) == existing + nth)
        ends = list(tf) + [total]
        for k in range(nth):
            E.prove(tag + '.thermo_range[%d]' % k, And(tcalls[k][1] == th[k], tcalls[k][2] == ends[k]))
        pcalls = [c for c in calls if c[0] == 'perf']
        E.prove(tag + '.one_read_per_timing_table', len(pcalls) == nperf)
        for k in range(nperf):
            E.prove(tag + '.timing_range[%d]' % k, And(pcalls[k][1] == ph[k], pcalls[k][2] == pf[k]))
            sim = self_.simulations[existing + k]
            E.prove(tag + '.timing_attached_to_its_run[%d]' % k, isinstance(sim.performance, tuple) and sim.performance[1] is pcalls[k][1])
        E.prove(tag + '.earlier_simulations_untouched', all(s.performance is None for s in self_.simulations[:existing]))
        E.prove(tag + '.rewinds_before_reading', calls[0] == ('seek', 0))
    # a timing table that is never closed (truncated log) is skipped without error
    th0, tf0, ph0, total = E.int('u_th'), E.int('u_tf'), E.int('u_ph'), E.int('u_total')
    E.assume(And(th0 >= 1, tf0 > th0, ph0 > tf0, total > ph0))
    calls = []

    class Sim2(object):
        performance = None

    class S2(object):
        pass
    self_ = S2()
    self_.simulations = []
    setattr(self_, '__read_thermo', lambda li, h, f: (calls.append(('thermo', h, f)), self_.simulations.append(Sim2()))[0])
    setattr(self_, '__read_performance', lambda li, h, f, o: calls.append(('perf', h, f)))

    class F2(object):
        def seek(self, k):
            pass
    block(dict(self=self_, log_info=F2(), i=total, thermo_headers=[th0], thermo_footers=[tf0], performance_headers=[ph0], performance_footers=[], is_old_version=False))
    E.prove('dispatch.unterminated_timing_table_skipped', [c[0] for c in calls] == ['thermo'] and self_.simulations[0].performance is None)


# ----------------------------------------------------------------------------
# bounded: lammps.run with automatic restarts, driven with a stand-in executable (no LAMMPS in the sandbox): the returned Log lists every run ever performed, in the order
# in which they were performed, however many numbered logs have accumulated

RUNF = 'atomman/lammps/run.py'

_FAKE_LAMMPS = r'''
import sys
from pathlib import Path


def rows_for(call, block):
    start = 1000 * call + 100 * block
    return [(start + 25 * n, 300.0 + call + 0.125 * n + 0.5, -4.0 - 0.03125 * (start + 25 * n) - 0.25, call * 10 + block) for n in range(4)]


counter = Path('counter.txt')
call = int(counter.read_text()) if counter.is_file() else 0
counter.write_text(str(call + 1))
sys.stdin.read()
out = 'LAMMPS (2 Aug 2023 - Update 1)\n' + 'Reading data file ...\n\n'
for block in range(1 + call % 2):
    out += 'Per MPI rank memory allocation (min/avg/max) = 3.1 | 3.1 | 3.1 Mbytes\n'
    out += '   Step          Temp          PotEng     v_tag \n'
    for r in rows_for(call, block):
        out += '%10d %14.8f %14.8f %6d \n' % r
    out += 'Loop time of 0.0123 on 1 procs for 75 steps with 4 atoms\n\n' + 'Total # of neighbors = 0\n\n'
out += 'Total wall time: 0:00:00\n'
Path('log.lammps').write_text(out)
sys.stdout.write(out)
'''


@group('run.restarts', kind='bounded', files=[RUNF, LOGF], functions=['lammps.run', 'Log.read'],
       clause='lammps.run with a restart script, called again and again in one directory: the existing log is kept as the next numbered log and the returned Log holds one record per run '
              'ever performed, in the order in which they were performed, with the printed values',
       rule='a stand-in executable (a Python script passed through mpi_command; no LAMMPS in the sandbox) prints 1 or 2 thermo blocks of 4 rows with known values per call; 13 calls in a fresh '
            'temporary directory (so 12 numbered logs, past the point where names stop sorting numerically); after every call all records are compared; distinct by call number; '
            'non-trivial = calls after the first')
def run_restarts(tier, seed):
    from pyvc.native import atomman
    import numpy as np
    import hashlib
    import shutil
    import sys
    import tempfile
    am = atomman()

    def rows_for(call, block):
        start = 1000 * call + 100 * block
        return [(start + 25 * n, 300.0 + call + 0.125 * n + 0.5, -4.0 - 0.03125 * (start + 25 * n) - 0.25, call * 10 + block) for n in range(4)]
    fails = []
    evals = 0
    cwd = os.getcwd()
    tmp = tempfile.mkdtemp(prefix='pyvc_c19_')
    try:
        os.chdir(tmp)
        with open('fake_lammps.py', 'w') as f:
            f.write(_FAKE_LAMMPS)
        fake = os.path.join(tmp, 'fake_lammps.py')
        for call in range(13):
            evals += 1
            try:
                log = am.lammps.run(fake, script='run 75\n', restart_script='read_restart x\nrun 75\n', mpi_command=sys.executable, logfile='log.lammps')
                expected = [rows_for(c, b) for c in range(call + 1) for b in range(1 + c % 2)]
                msg = None
                if len(log.simulations) != len(expected):
                    msg = '%d simulation records, %d runs were performed' % (len(log.simulations), len(expected))
                else:
                    for k, (sim, exp) in enumerate(zip(log.simulations, expected)):
                        got = sim.thermo.values.astype(float)
                        exp = np.array(exp, dtype=float)
                        if list(sim.thermo.columns) != ['Step', 'Temp', 'PotEng', 'v_tag'] or got.shape != exp.shape or not np.allclose(got, exp, rtol=0, atol=1e-9):
                            msg = 'record %d does not hold run number %d: steps read %r, steps printed by that run %r' % (k, k, sim.thermo.Step.tolist() if 'Step' in sim.thermo else None, exp[:, 0].astype(int).tolist())
                            break
                    numbered = sorted(p for p in os.listdir('.') if p.startswith('log-'))
                    if msg is None and len(numbered) != call:
                        msg = '%d numbered logs kept after %d restarts: %r' % (len(numbered), call, numbered)
            except Exception as e:
                msg = 'raised %s: %s' % (type(e).__name__, e)
            if msg:
                fails.append({'obligation': 'run.restarts.post', 'key': 'call %d' % call, 'input': {'restarts_before': call}, 'detail': 'after restart number %d: %s' % (call, msg)})
                break
    finally:
        os.chdir(cwd)
        shutil.rmtree(tmp, ignore_errors=True)
    files = {rel: hashlib.sha256(open(os.path.join(REPO, rel), 'rb').read()).hexdigest() for rel in (RUNF, LOGF)}
    return {'family': 'lammps.run restarted 12 times with a stand-in executable', 'evaluations': evals, 'distinct_nontrivial': max(evals - 1, 0), 'rule': 'see group rule',
            'samples': [{'calls': evals}], 'failures': fails, 'files': files}
