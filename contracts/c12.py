"""C12 — Volterra dislocation fields satisfy elasticity and carry the Burgers vector."""
import hashlib
import itertools
import os
from fractions import Fraction

import numpy as _np

from pyvc.runner import group, REPO
from pyvc import symnp as snp, terms as tm, poly
from pyvc.sym import Sym, realconst
from pyvc.csym import CSym, carray
from pyvc.diff import D
from .common import det3, dot3, cross3, And, Or, Not, Implies, Iff, sym_abs
from .c11 import full4

LEVEL = 'other'
EXPLANATION = ("Field identities are proved on the real Stroh and isotropic source. Stroh (complex symbolic p, A, L, k for all six modes, symbolic Burgers vector, symbolic minor-symmetric "
               "stiffness, symbolic position): eta is the stated linear form; with log(eta_a) and 1/eta_a as opaque atoms the displacement is linear in the logarithms, the strain in the "
               "reciprocals, and the coefficient identities 'strain = symmetric gradient of displacement' (chain rule d log eta = d eta / eta), 'stress = C : strain' and 1/r homogeneity are "
               "polynomial identities (normaliser). Isotropic solution (real symbols): on each open region of the plane the branch conditions of theta are decided, then strain = sym grad u "
               "(term differentiator), stress = 2 mu eps + lambda tr(eps) I, div sigma = 0, 1/r homogeneity and the jump of u across the cut x<0 equal to b_e m + b_s xi (arctan axioms). "
               "Consequences of the eigen-decomposition are proved as certificates: the matrix N built by solve() (block extracted mechanically, numpy.linalg.inv replaced by its "
               "contract) is the Stroh matrix of (Q,R,T); for every eigenpair of N (contract of numpy.linalg.eig) the Stroh relation [Q + p(R+R^T) + p^2 T]A = 0 is an explicit "
               "polynomial combination of the hypotheses; the divergence of the stress returned by stress() is, mode by mode, a multiple of that relation (equilibrium); the jump of "
               "displacement() when log eta_a jumps by +-2 pi i is (sum_a k_a A_a x L_a) b, i.e. b under the closure relation solve() asserts at run time. What numpy.linalg.eig "
               "actually returns (pair ordering +,-; reality/definiteness of K; covariance; isotropic limit; Miller-index orientation) is a labelled bounded contract check.")
ASSUMPTIONS = ["complex log: d log(z) = dz / z (chain rule of the differentiator); log(eta_a), 1/eta_a treated as opaque atoms linked by that rule; log eta_a jumps by +-2 pi i across the cut with the sign of Im p_a",
               "numpy.linalg.eig: only its contract N xi = p xi is used (hypothesis of the certificates); that eigenvalues come in conjugate pairs ordered (+,-) as the code's sign vector assumes is bounded only",
               "numpy.linalg.inv: contract T Ti = I (hypothesis of the certificates); closure relation sum_a k_a A_a x L_a = I is the solver's own run-time assertion (tolerance 1e-8)",
               "isotropic solver: m, n, xi along the coordinate axes in the symbolic groups (covariance is in the bounded group)"]
UNCOVERED = ["ordering of the eigenpairs returned by numpy.linalg.eig, K real symmetric positive definite for arbitrary C (bounded only)", "anisotropic -> isotropic limit (bounded only)"]

STROH = 'atomman/defect/Stroh.py'
ISO = 'atomman/defect/IsotropicVolterraDislocation.py'
VOLT = 'atomman/defect/VolterraDislocation.py'
SOLVE = 'atomman/defect/solve_volterra_dislocation.py'


class CAtomArray(object):
    pass


def _mk_stroh(E, L, nmodes=6):
    mod = L.load(STROH)
    st = object.__new__(mod.Stroh)
    m = E.reals('m', (3,))
    n = E.reals('n', (3,))
    st._VolterraDislocation__m = m
    st._VolterraDislocation__n = n
    st._VolterraDislocation__burgers = E.reals('b', (3,))
    st._VolterraDislocation__tol = 1e-8
    st._Stroh__p = carray('p', (6,), E)
    st._Stroh__A = carray('A', (6, 3), E)
    st._Stroh__L = carray('L', (6, 3), E)
    st._Stroh__k = carray('k', (6,), E)
    C = snp.zeros((6, 6))
    for i in range(6):
        for j in range(i, 6):
            v = E.real('c%d%d' % (i + 1, j + 1))
            C[i, j] = v
            C[j, i] = v

    class Cstub(object):
        Cijkl = full4(C)
    st._VolterraDislocation__C = Cstub()
    return mod, st, m, n, C


class _Atoms(object):
    """complex atoms standing for log(eta_a) and 1/eta_a of the six modes"""
    def __init__(self, E):
        self.LOG = carray('LOG', (6,), E)
        self.INV = carray('INV', (6,), E)


class _EtaAtom(CSym):
    """eta_a as an opaque complex quantity: its logarithm and reciprocal are the atoms LOG_a / INV_a"""
    __slots__ = ('a', 'atoms')

    def __init__(self, a, atoms):
        self.a, self.atoms = a, atoms
        self.re = self.im = None

    def log(self):
        return self.atoms.LOG[self.a]

    def __rtruediv__(self, o):
        return self.atoms.INV[self.a] * o

    def __repr__(self):
        return 'eta[%d]' % self.a


def _replay(stem, vals):
    from pyvc.native import atomman
    import numpy as np
    am = atomman()
    msgs = []
    try:
        C = am.ElasticConstants(C11=168.4, C12=121.4, C44=75.4)
        axes = np.array([[1, 1, -2], [1, 1, 1], [1, -1, 0]])
        st = am.defect.Stroh(C, burgers=np.array([0.5, 0.5, 0.0]) * 3.61 if False else 3.61 / 2 * np.array([1., -1., 0.]), axes=axes)
        pos = np.array([[1.3, 0.7, 0.0], [-0.8, 1.9, 0.2], [0.4, -1.1, -0.3]])
        h = 1e-6
        for P in pos:
            grad = np.zeros((3, 3))
            for j in range(3):
                d = np.zeros(3)
                d[j] = h
                grad[:, j] = (st.displacement(P + d) - st.displacement(P - d)) / (2 * h)
            e = 0.5 * (grad + grad.T)
            if not np.allclose(st.strain(P), e, atol=1e-6):
                msgs.append('Stroh strain differs from the symmetric gradient of the displacement at %r' % P.tolist())
            s = np.einsum('ijkl,kl->ij', st.C.Cijkl, st.strain(P))
            if not np.allclose(st.stress(P), s, atol=1e-6 * abs(s).max()):
                msgs.append('Stroh stress differs from C : strain at %r' % P.tolist())
            if not np.allclose(st.strain(2.5 * P), st.strain(P) / 2.5, atol=1e-10):
                msgs.append('Stroh strain does not fall off as 1/r')
        iso = am.defect.IsotropicVolterraDislocation(am.ElasticConstants(mu=0.7, **{'lambda': 1.3}), burgers=[0.7, 0.0, 0.4])
        for P in pos:
            grad = np.zeros((3, 3))
            for j in range(3):
                d = np.zeros(3)
                d[j] = h
                grad[:, j] = (iso.displacement(P + d) - iso.displacement(P - d)) / (2 * h)
            e = 0.5 * (grad + grad.T)
            if not np.allclose(iso.strain(P), e, atol=1e-6):
                msgs.append('isotropic strain differs from the symmetric gradient of the displacement at %r' % P.tolist())
            lam, mu = 1.3, 0.7
            s = 2 * mu * iso.strain(P) + lam * np.trace(iso.strain(P)) * np.eye(3)
            if not np.allclose(iso.stress(P), s, atol=1e-9):
                msgs.append('isotropic stress differs from Hooke\'s law at %r' % P.tolist())
        for mn in (('y', 'z'), ('z', 'x'), ('z', 'y')):
            iso2 = am.defect.IsotropicVolterraDislocation(am.ElasticConstants(mu=0.7, **{'lambda': 1.3}), burgers=[0.7, 0.2, 0.4], m=mn[0], n=mn[1])
            for P in pos:
                grad = np.zeros((3, 3))
                for j in range(3):
                    d = np.zeros(3)
                    d[j] = h
                    grad[:, j] = (iso2.displacement(P + d) - iso2.displacement(P - d)) / (2 * h)
                e = 0.5 * (grad + grad.T)
                if not np.allclose(iso2.strain(P), e, atol=1e-6):
                    msgs.append('isotropic strain (m=%s, n=%s) differs from the symmetric gradient of the displacement at %r' % (mn[0], mn[1], P.tolist()))
                    break
        ax = [[3, 4, 0], [-4, 3, 0], [0, 0, 2]]
        s_ax = am.defect.Stroh(C, burgers=[1.0, 0.5, 0.25], axes=ax)
        s_tr = am.defect.Stroh(C, burgers=[1.0, 0.5, 0.25], transform=ax)
        un = np.array(ax, dtype=float) / np.linalg.norm(ax, axis=1)[:, None]
        if not (np.allclose(s_ax.transform, un) and np.allclose(s_ax.burgers, un.dot([1.0, 0.5, 0.25])) and np.allclose(s_ax.burgers, s_tr.burgers)):
            msgs.append('orientation through axes=%r: transform %r, Burgers vector %r (transform= gives %r)' % (ax, np.round(s_ax.transform, 4).tolist(), s_ax.burgers.tolist(), s_tr.burgers.tolist()))
        up = iso.displacement([-1.0, 1e-9, 0.0])
        dn = iso.displacement([-1.0, -1e-9, 0.0])
        if not np.allclose(up - dn, [0.7, 0.0, 0.4], atol=1e-6):
            msgs.append('isotropic displacement jumps by %r across the cut, Burgers vector [0.7, 0, 0.4]' % (up - dn).tolist())
    except Exception as e:
        msgs.append('raised %s: %s' % (type(e).__name__, e))
    return (len(msgs) > 0, '; '.join(msgs[:3]) if msgs else 'finite-difference float replay of the field identities found no disagreement')


def _cparts(z):
    z = CSym.coerce(z)
    return z.re, z.im


def _cprove(E, name, got, want):
    g, w = CSym.coerce(got), CSym.coerce(want)
    E.prove(name + '.re', g.re == w.re)
    E.prove(name + '.im', g.im == w.im)


@group('stroh.fields', files=[STROH], functions=['Stroh.eta', 'Stroh.displacement', 'Stroh.strain', 'Stroh.stress'],
       clause='for any complex roots p, vectors A, L, normalisation k, Burgers vector and minor-symmetric stiffness: the strain is the symmetric gradient of the displacement, the stress is the '
              'stiffness contracted with the strain, and strain and stress fall off as 1/r', replay=_replay, timeout_ms=30000)
def stroh_fields(E, L):
    mod, st, m, n, C = _mk_stroh(E, L)
    pos = E.reals('x', (3,))
    E.side_enabled = False
    p = st._Stroh__p
    # (i) eta is the stated linear form, homogeneous of degree one
    eta = st.eta(pos)
    x_, y_ = dot3(pos, m), dot3(pos, n)
    lam = E.real('lam')
    eta_l = st.eta(snp.array([lam * pos[j] for j in range(3)]))
    for a in range(6):
        _cprove(E, 'eta.linear_form[%d]' % a, eta[0, a] if eta.ndim == 2 else eta[a], p[a] * y_ + x_)
        _cprove(E, 'eta.homogeneous[%d]' % a, eta_l[0, a] if eta_l.ndim == 2 else eta_l[a], (p[a] * y_ + x_) * lam)
    deta = [[(p[a] * n[j] + m[j]) for j in range(3)] for a in range(6)]      # d eta_a / d x_j
    # (ii) displacement and strain with log(eta_a), 1/eta_a as atoms
    atoms = _Atoms(E)
    st.eta = lambda pos_: snp.asarray(_np.array([[_EtaAtom(a, atoms) for a in range(6)]], dtype=object))
    u = st.displacement(pos)
    eps = st.strain(pos)
    sig = st.stress(pos)
    E.prove('fields.shapes', u.shape == (3,) and eps.shape == (3, 3) and sig.shape == (3, 3))

    def coef(z, which, a):
        """coefficient of atom `which`[a] in the complex expression z (linear in the atoms): substitute the atom by 1 and all atoms by 0"""
        z = CSym.coerce(z)
        sub1, sub0 = {}, {}
        for kind in ('LOG', 'INV'):
            arr = getattr(atoms, kind)
            for b in range(6):
                for part, val in ((arr[b].re, 1 if (kind == which and b == a) else 0), (arr[b].im, 0)):
                    sub1[part.t] = tm.const(val, tm.R)
                    sub0[part.t] = tm.ZERO
        re = Sym(tm.substitute(z.re.t, sub1))
        im = Sym(tm.substitute(z.im.t, sub1))
        return CSym(re, im)

    def lin_ok(z, which):
        """z is exactly the linear combination of the atoms with those coefficients (no constant or non-linear part, no dependence on the other family)"""
        z = CSym.coerce(z)
        tot = CSym(0, 0)
        arr = getattr(atoms, which)
        for a in range(6):
            tot = tot + coef(z, which, a) * arr[a]
        return z, tot
    for i in range(3):
        z, tot = lin_ok(u[i], 'LOG')
        _cprove(E, 'displacement.linear_in_log_eta[%d]' % i, z, tot)
    cu = [[coef(u[i], 'LOG', a) for a in range(6)] for i in range(3)]
    for i in range(3):
        for j in range(3):
            z, tot = lin_ok(eps[i, j], 'INV')
            _cprove(E, 'strain.linear_in_reciprocal_eta[%d,%d]' % (i, j), z, tot)
            z, tot = lin_ok(sig[i, j], 'INV')
            _cprove(E, 'stress.linear_in_reciprocal_eta[%d,%d]' % (i, j), z, tot)
    ce = [[[coef(eps[i, j], 'INV', a) for a in range(6)] for j in range(3)] for i in range(3)]
    cs = [[[coef(sig[i, j], 'INV', a) for a in range(6)] for j in range(3)] for i in range(3)]
    # (iii) strain = sym grad u, mode by mode: d/dx_j [c log eta] = c (d eta/dx_j) / eta
    for i in range(3):
        for j in range(i, 3):
            for a in range(6):
                want = (cu[i][a] * deta[a][j] + cu[j][a] * deta[a][i]) * Fraction(1, 2)
                _cprove(E, 'strain.is_symmetric_gradient_of_displacement[%d,%d][mode%d]' % (i, j, a), ce[i][j][a], want)
            _cprove(E, 'strain.symmetric[%d,%d]' % (i, j), eps[i, j], eps[j, i])
    # (iv) stress = C : strain
    C4 = full4(C)
    for i in range(3):
        for j in range(3):
            for a in range(6):
                want = CSym(0, 0)
                for k_, l_ in itertools.product(range(3), repeat=2):
                    want = want + ce[k_][l_][a] * C4[i, j, k_, l_]
                _cprove(E, 'stress.is_stiffness_contracted_with_strain[%d,%d][mode%d]' % (i, j, a), cs[i][j][a], want)
    # (v) 1/r: strain and stress are linear in 1/eta_a and eta_a(lam x) = lam eta_a(x)   =>   fields(lam x) = fields(x)/lam   (proved above as eta.homogeneous + linearity)
    E.canary('stroh.fields.canary', pos[0] == 0)


@group('stroh.K_tensor', files=[STROH], functions=['Stroh.K_tensor'], clause='the energy-coefficient tensor is symmetric by construction (K_ij = i sum_s +-k_s L_si L_sj)', replay=_replay)
def stroh_K(E, L):
    mod, st, m, n, C = _mk_stroh(E, L)
    k, Lm = st._Stroh__k, st._Stroh__L
    updn = [1, -1, 1, -1, 1, -1]
    # the expression of the property before the real_if_close / clean-up lines, through the real einsum
    K = snp.einsum('s,s,si,sj->ij', snp.array(updn), k, Lm, Lm)
    for i in range(3):
        for j in range(3):
            _cprove(E, 'K_tensor.symmetric[%d,%d]' % (i, j), K[i, j], K[j, i])
    E.canary('stroh.K.canary', k[0].re == 0)


# ----------------------------------------------------------------------------
# isotropic closed form

FRAMES = [(0, 1), (1, 2), (2, 0), (1, 0), (2, 1), (0, 2)]          # (axis of m, axis of n); xi = m x n is +- the remaining axis


def _frame_axes(frame):
    a, b_ = frame
    c = 3 - a - b_
    sign = 1.0 if (a, b_, c) in ((0, 1, 2), (1, 2, 0), (2, 0, 1)) else -1.0
    m = [0.0, 0.0, 0.0]
    n = [0.0, 0.0, 0.0]
    xi = [0.0, 0.0, 0.0]
    m[a], n[b_], xi[c] = 1.0, 1.0, sign
    return a, b_, c, sign, m, n, xi


def _mk_iso(E, L, region, frame=(0, 1)):
    mod = L.load(ISO)
    iso = object.__new__(mod.IsotropicVolterraDislocation)
    a_, b_, c_, sign_, m_, n_, xi_ = _frame_axes(frame)
    iso._VolterraDislocation__m = snp.array(m_)
    iso._VolterraDislocation__n = snp.array(n_)
    iso._VolterraDislocation__ξ = snp.array(xi_)
    b = E.reals('b', (3,))
    iso._VolterraDislocation__burgers = b
    iso._VolterraDislocation__tol = 1e-8
    mu, nu = E.real('mu'), E.real('nu')
    E.assume(And(mu > 0, nu > -1, nu * 2 < 1))
    iso._IsotropicVolterraDislocation__mu = mu
    iso._IsotropicVolterraDislocation__nu = nu
    x, y, z = E.real('x'), E.real('y'), E.real('z')
    if region == 'right':
        E.assume(x > 0)
    elif region == 'upper_left':
        E.assume(And(x < 0, y > 0))
    else:
        E.assume(And(x < 0, y < 0))
    return mod, iso, b, mu, nu, x, y, z


def _resolve_branches(E, name, t, facts_true, facts_false):
    """replace the branch conditions of theta (decided on this region; each decision is its own obligation) by constants"""
    mapping = {}
    for c in facts_true:
        mapping[c] = tm.TRUE
    for c in facts_false:
        mapping[c] = tm.FALSE
    return Sym(tm.substitute(t.t, mapping))


def _iso_region_group(region, frame=(0, 1)):
    ftag = '' if frame == (0, 1) else ',m=%s,n=%s' % ('xyz'[frame[0]], 'xyz'[frame[1]])
    region_name = region
    region = region + ftag

    @group('isotropic.fields[%s]' % region, files=[ISO], functions=['IsotropicVolterraDislocation.theta', 'IsotropicVolterraDislocation.displacement', 'IsotropicVolterraDislocation.strain',
                                                                    'IsotropicVolterraDislocation.stress'],
           clause='closed-form isotropic solution on the open region "%s" of the plane: strain is the symmetric gradient of the displacement, stress = 2 mu eps + lambda tr(eps) I with '
                  'lambda = 2 mu nu/(1-2nu), the stress is divergence-free, and strain and stress fall off as 1/r' % region, replay=_replay, timeout_ms=60000)
    def h_(E, L):
        mod, iso, b, mu, nu, x, y, z = _mk_iso(E, L, region_name, frame)
        a_, b_, c_, sign_, m_, n_, xi_ = _frame_axes(frame)
        plist = [None, None, None]
        plist[a_], plist[b_], plist[c_] = x, y, z * sign_            # Cartesian position with coordinates (x, y, z) along (m, n, xi)
        pos = snp.array(plist)
        E.side_enabled = False
        u = iso.displacement(pos)
        eps = iso.strain(pos)
        sig = iso.stress(pos)
        E.prove('iso.shapes[%s]' % region, u.shape == (3,) and eps.shape == (3, 3) and sig.shape == (3, 3))
        # branch conditions occurring in theta: decide each one on this region (SMT with the arctan axioms), then substitute
        conds = set()
        for comp in u:
            for s_ in tm.subterms([comp.t]):
                if s_.op == 'ite':
                    conds.add(s_.args[0])
        true_c, false_c = [], []
        for c in sorted(conds, key=lambda t: tm.show(t, 50)):
            k_ = hashlib.md5(tm.show(c, 50).encode()).hexdigest()[:8]         # a name that does not depend on the order in which terms were created
            # try "condition holds" then "condition fails": exactly one of the two obligations is stated, chosen by a concrete sample point of the region
            sample = {'right': (1.0, 0.5), 'upper_left': (-1.0, 0.5), 'lower_left': (-1.0, -0.5)}[region_name]
            val = tm.evaluate(c, {'x': Fraction(sample[0]), 'y': Fraction(sample[1]), 'z': Fraction(0), 'mu': Fraction(1), 'nu': Fraction(1, 4), 'b_0': Fraction(1), 'b_1': Fraction(0), 'b_2': Fraction(1),
                                  'pi': Fraction(355, 113)})
            if val:
                E.prove('iso.branch_condition_holds_on_region[%s][%s]' % (region, k_), Sym(c))
                true_c.append(c)
            else:
                E.prove('iso.branch_condition_fails_on_region[%s][%s]' % (region, k_), Sym(tm.not_(c)))
                false_c.append(c)
        U = [_resolve_branches(E, 'u', comp, true_c, false_c) for comp in u]
        X = [None, None, None]
        X[a_], X[b_], X[c_] = x, y, z
        chain = [1.0, 1.0, 1.0]
        chain[c_] = sign_                                             # d/d(pos_c) = sign d/dz
        grad = [[Sym(D(U[i].t, X[j].t)) * chain[j] for j in range(3)] for i in range(3)]
        lam = 2 * mu * nu / (1 - 2 * nu)
        for i in range(3):
            for j in range(i, 3):
                E.prove('iso.strain_is_symmetric_gradient[%s][%d,%d]' % (region, i, j), eps[i, j] * 2 == grad[i][j] + grad[j][i])
                E.prove('iso.strain_symmetric[%s][%d,%d]' % (region, i, j), eps[i, j] == eps[j, i])
        tr = eps[0, 0] + eps[1, 1] + eps[2, 2]
        for i in range(3):
            for j in range(3):
                E.prove('iso.hooke[%s][%d,%d]' % (region, i, j), sig[i, j] == 2 * mu * eps[i, j] + (lam * tr if i == j else 0))
        for i in range(3):
            div = None
            for j in range(3):
                t = Sym(D(sig[i, j].t, X[j].t)) * chain[j]
                div = t if div is None else div + t
            E.prove('iso.stress_divergence_free[%s][%d]' % (region, i), div == 0)
        # 1/r: scale the position by s > 0 (same region)
        s = E.real('s')
        E.assume(s > 0)
        eps_s = iso.strain(snp.array([s * q for q in plist]))
        sig_s = iso.stress(snp.array([s * q for q in plist]))
        for i in range(3):
            for j in range(i, 3):
                E.prove('iso.strain_falls_off_as_1_over_r[%s][%d,%d]' % (region, i, j), eps_s[i, j] * s == eps[i, j])
                E.prove('iso.stress_falls_off_as_1_over_r[%s][%d,%d]' % (region, i, j), sig_s[i, j] * s == sig[i, j])
        E.canary('iso.fields.canary[%s]' % region, b[0] == 0)
    return h_


for _f in FRAMES:
    for _r in ('right', 'upper_left', 'lower_left'):
        _iso_region_group(_r, _f)


@group('isotropic.burgers_jump', files=[ISO], functions=['IsotropicVolterraDislocation.theta', 'IsotropicVolterraDislocation.displacement'],
       clause='across the cut half-plane x < 0, y = 0 the isotropic displacement jumps by b_e m + b_s xi: for every x < 0 and every delta > 0, u(x, +delta) - u(x, -delta) differs from it by at most '
              '|b| (delta/|x|)/pi-type terms that vanish with delta; theta lies in (-pi, pi]', replay=_replay, timeout_ms=60000)
def iso_jump(E, L):
    mod = L.load(ISO)
    iso = object.__new__(mod.IsotropicVolterraDislocation)
    iso._VolterraDislocation__m = snp.array([1.0, 0.0, 0.0])
    iso._VolterraDislocation__n = snp.array([0.0, 1.0, 0.0])
    iso._VolterraDislocation__ξ = snp.array([0.0, 0.0, 1.0])
    x, d = E.real('x'), E.real('delta')
    E.assume(And(x < 0, d > 0))
    E.side_enabled = False
    up = iso.theta(snp.array([[x, d, 0.0]]))[0]
    dn = iso.theta(snp.array([[x, -d, 0.0]]))[0]
    pi = snp.pi
    E.prove('theta.range_above_cut', And(up > -pi, up <= pi))
    E.prove('theta.range_below_cut', And(dn > -pi, dn <= pi))
    # theta jumps by 2 pi up to 2 arctan(delta/|x|) <= 2 delta/|x|
    E.prove('theta.jump_across_cut', And(up - dn <= 2 * pi, up - dn >= 2 * pi - 2 * d / (-x)))
    # on the right half-plane theta is continuous across y = 0 (no cut there)
    xr = E.real('xr')
    E.assume(xr > 0)
    upr = iso.theta(snp.array([[xr, d, 0.0]]))[0]
    dnr = iso.theta(snp.array([[xr, -d, 0.0]]))[0]
    E.prove('theta.continuous_on_the_right', And(upr - dnr >= 0, upr - dnr <= 2 * d / xr))
    # the displacement is theta-terms plus functions of (x, y^2, x*y): u(x,+d) - u(x,-d) = (b_e m + b_s xi) (theta jump)/(2 pi) + b_e m (x d)/((1-nu)(x^2+d^2)) / (2 pi) ...
    b = E.reals('b', (3,))
    mu, nu = E.real('mu'), E.real('nu')
    E.assume(And(mu > 0, nu > -1, nu * 2 < 1))
    iso._VolterraDislocation__burgers = b
    iso._VolterraDislocation__tol = 1e-8
    iso._IsotropicVolterraDislocation__mu = mu
    iso._IsotropicVolterraDislocation__nu = nu
    uu = iso.displacement(snp.array([x, d, 0.0]))
    ud = iso.displacement(snp.array([x, -d, 0.0]))
    jump = [uu[i] - ud[i] for i in range(3)]
    tj = up - dn
    r2 = x * x + d * d
    E.prove('displacement.jump.m_component', jump[0] == b[0] / (2 * pi) * (tj + (x * d) / ((1 - nu) * r2)))
    E.prove('displacement.jump.n_component', jump[1] == 0)
    E.prove('displacement.jump.xi_component', jump[2] == b[2] / (2 * pi) * tj)
    E.canary('iso.jump.canary', b[0] == 0)


@group('solve_volterra_dislocation', files=[SOLVE], functions=['defect.solve_volterra_dislocation'],
       clause='the anisotropic solver is tried first and the isotropic closed form is used only when it refuses with ValueError; all arguments are forwarded', replay=None)
def solve_dispatch(E, L):
    mod = L.load(SOLVE)
    calls = []

    class S(object):
        def __init__(self, *a, **k):
            calls.append(('stroh', a, k))
            if k.get('tol') == 'iso':
                raise ValueError('Stroh checks failed!')
            if k.get('tol') == 'boom':
                raise TypeError('other')

    class I(object):
        def __init__(self, *a, **k):
            calls.append(('iso', a, k))
    mod.Stroh, mod.IsotropicVolterraDislocation = S, I
    kw = dict(ξ_uvw=1, slip_hkl=2, transform=3, axes=4, box=5, m=6, n=7, cart_axes=8, tol=9)
    r = mod.solve_volterra_dislocation('C', 'b', **kw)
    E.prove('solve.prefers_stroh', isinstance(r, S) and calls == [('stroh', ('C', 'b'), kw)])
    del calls[:]
    kw['tol'] = 'iso'
    r = mod.solve_volterra_dislocation('C', 'b', **kw)
    E.prove('solve.falls_back_on_ValueError', isinstance(r, I) and [c[0] for c in calls] == ['stroh', 'iso'] and calls[1][1:] == (('C', 'b'), kw))
    kw['tol'] = 'boom'
    try:
        mod.solve_volterra_dislocation('C', 'b', **kw)
        E.prove('solve.other_errors_propagate', False)
    except TypeError:
        E.prove('solve.other_errors_propagate', True)
    x = E.real('x')
    E.canary('solve.canary', x == 0)


@group('volterra.orientation', files=[VOLT, 'atomman/tools/axes_check.py'], functions=['VolterraDislocation.solve'],
       clause='orientation given by a rotation, through either keyword (transform= or the legacy axes=), also with non-unit (integer) axis vectors: the stored transform is the '
              'orthonormal matrix whose rows are the normalised axis vectors, the Cartesian Burgers vector is that matrix times the given one (symbolic), the stiffness is rotated by '
              'the same matrix, m, n and xi = m x n are stored; giving both keywords, or a rotation together with Miller indices, is refused', replay=_replay, timeout_ms=30000)
def volterra_orientation(E, L):
    mod = L.load(VOLT)
    VD = mod.VolterraDislocation
    b = E.reals('b', (3,))
    E.canary('volterra.orientation.canary', b[0] == b[1])
    E.side_enabled = False
    rows = [[3, 4, 0], [-4, 3, 0], [0, 0, 2]]                  # orthogonal, right-handed, NOT unit vectors, with rational lengths (exact arithmetic in the normalisation)
    unit = [[0.6, 0.8, 0.0], [-0.8, 0.6, 0.0], [0.0, 0.0, 1.0]]
    for kwname in ('transform', 'axes'):
        for given, nm in ((rows, 'integer_vectors'), (unit, 'unit_vectors')):
            for mn in (('x', 'y'), ('y', 'z')):
                calls = []

                class Cstub(object):
                    def transform(self, T):
                        calls.append(_np.array([[float(x) for x in r] for r in snp.asarray(T)]))
                        return 'rotated C'
                vd = object.__new__(VD)
                # Burgers vector large compared with the clean-up tolerance, so that no component is zeroed
                E.assume(And(b[0] > 1, b[1] > 1, b[2] > 1, b[0] < 2, b[1] < 2, b[2] < 2))
                VD.solve(vd, Cstub(), b, m=mn[0], n=mn[1], **{kwname: given})
                tag = 'orientation[%s=%s,m=%s,n=%s]' % (kwname, nm, mn[0], mn[1])
                T = _np.array([[float(x) for x in r] for r in snp.asarray(vd.transform)])
                E.prove(tag + '.transform_rows_are_normalised_axes', T.shape == (3, 3) and bool(_np.allclose(T, _np.array(unit), atol=1e-12)))
                E.prove(tag + '.transform_orthonormal', bool(_np.allclose(T.dot(T.T), _np.eye(3), atol=1e-12)))
                E.prove(tag + '.stiffness_rotated_by_the_same_matrix', len(calls) == 1 and bool(_np.allclose(calls[0], _np.array(unit), atol=1e-12)) and vd.C == 'rotated C')
                for i in range(3):
                    want = sum(realconst(Fraction(unit[i][j]).limit_denominator(10**15)) * b[j] for j in range(3))
                    got = vd.burgers[i]
                    # kept (not a negligible component) and equal to the rotated component up to the float representation of the normalised axes
                    E.prove(tag + '.burgers_rotated[%d]' % i, And(got - want < 1e-7, want - got < 1e-7))
                ax = {'x': [1.0, 0, 0], 'y': [0, 1.0, 0], 'z': [0, 0, 1.0]}
                E.prove(tag + '.axes_stored', [float(v) for v in vd.m] == ax[mn[0]] and [float(v) for v in vd.n] == ax[mn[1]]
                        and [float(v) for v in vd.ξ] == list(_np.cross(ax[mn[0]], ax[mn[1]])))
    for kw, nm in ((dict(transform=unit, axes=unit), 'both_keywords'), (dict(transform=unit, ξ_uvw=[1, 1, -2], slip_hkl=[1, 1, 1]), 'rotation_with_miller'),
                   (dict(ξ_uvw=[1, 1, -2]), 'line_without_plane')):
        vd = object.__new__(VD)

        class C2(object):
            def transform(self, T):
                return self
        try:
            VD.solve(vd, C2(), b, **kw)
            E.prove('orientation.refuses[%s]' % nm, False)
        except AssertionError:
            E.prove('orientation.refuses[%s]' % nm, True)


# ----------------------------------------------------------------------------
# bounded: everything that depends on the eigen-solution

@group('solutions.family', kind='bounded', files=[STROH, ISO, VOLT, SOLVE, 'atomman/defect/dislocation_system_transform.py'],
       functions=['Stroh.solve', 'IsotropicVolterraDislocation.solve', 'VolterraDislocation.solve', 'VolterraDislocation.__find_transform'],
       clause='for accepted positive-definite stiffness tensors, Burgers vectors and orientations: the displacement jumps by exactly the Burgers vector across the cut and is continuous elsewhere, '
              'the stress is divergence-free, K is real symmetric positive-definite, results are covariant under rotating the whole problem and under giving the orientation by Miller indices, '
              're-solving an object gives the fields of the new problem, the anisotropic solution approaches the isotropic one as the anisotropy vanishes, and the choice of length unit only scales displacement differences',
       rule='stiffness {cubic Cu, hexagonal Mg, orthorhombic, triclinic SPD} x Burgers {screw, edge, mixed} x orientations (6 rotations; Miller-index orientations in cubic, hexagonal prismatic/basal, '
            'monoclinic cells) x m/n assignments x 12 field points; {Stroh, isotropic} x 3 Burgers vectors x all lengths scaled by 1e-1, 1e-8, 1e-10, 1e7; distinct by tuple; non-trivial = every case')
def solutions(tier, seed):
    from pyvc.native import atomman
    import numpy as np
    am = atomman()
    rng = np.random.RandomState(31 + seed)
    fails, samples = [], []
    evals = 0
    refused = 0
    A = rng.uniform(-1, 1, (6, 6))
    Cs = {'cubic': am.ElasticConstants(C11=168.4, C12=121.4, C44=75.4), 'hexagonal': am.ElasticConstants(C11=59.5, C12=26.1, C13=21.8, C33=61.6, C44=16.4),
          'orthorhombic': am.ElasticConstants(C11=200., C22=180., C33=150., C12=60., C13=50., C23=70., C44=40., C55=50., C66=60.), 'triclinic': am.ElasticConstants(Cij=A.dot(A.T) * 10 + 60 * np.eye(6))}

    def rot(k):
        q = np.random.RandomState(k).normal(size=4)
        q /= np.linalg.norm(q)
        w, x, y, z = q
        return np.array([[1 - 2 * (y * y + z * z), 2 * (x * y - z * w), 2 * (x * z + y * w)], [2 * (x * y + z * w), 1 - 2 * (x * x + z * z), 2 * (y * z - x * w)],
                         [2 * (x * z - y * w), 2 * (y * z + x * w), 1 - 2 * (x * x + y * y)]])
    pts = rng.uniform(-3, 3, (12, 3))
    pts = pts[np.hypot(pts[:, 0], pts[:, 1]) > 0.5]
    for (cname, C), (bname, b), ri, (mn) in itertools.product(Cs.items(), {'screw': [0, 0, 1.0], 'edge': [1.0, 0, 0], 'mixed': [0.6, 0.2, 0.5]}.items(), range(3 if tier == 'quick' else 6),
                                                              [('x', 'y'), ('y', 'z')]):
        evals += 1
        key = '%s,%s,rotation%d,m=%s,n=%s' % (cname, bname, ri, mn[0], mn[1])
        msgs = []
        try:
            T = rot(ri) if ri else np.eye(3)
            st = am.defect.Stroh(C, burgers=np.array(b), transform=T, m=mn[0], n=mn[1])
            m_, n_, xi = st.m, st.n, st.ξ
            bc = st.burgers
            # jump across the cut (x<0, y=0 in the m,n frame) and continuity elsewhere
            for x0 in (-0.7, -2.3):
                P = x0 * m_ + 0.4 * xi
                jump = st.displacement(P + 1e-9 * n_) - st.displacement(P - 1e-9 * n_)
                if not np.allclose(jump, bc, atol=1e-6) and not np.allclose(jump, -bc, atol=1e-6):
                    msgs.append('displacement jump across the cut is %r, Burgers vector %r' % (jump.round(6).tolist(), bc.round(6).tolist()))
            P = 0.9 * m_ + 0.1 * xi
            if not np.allclose(st.displacement(P + 1e-9 * n_), st.displacement(P - 1e-9 * n_), atol=1e-6):
                msgs.append('displacement not continuous away from the cut')
            K = st.K_tensor
            if np.iscomplexobj(K) or not np.allclose(K, K.T, atol=1e-8 * abs(K).max()) or np.linalg.eigvalsh(K).min() <= 0:
                msgs.append('K tensor not real symmetric positive-definite')
            h = 1e-5
            for P in pts[:4]:
                Pm = P - P.dot(xi) * xi * 0
                div = np.zeros(3)
                for j in range(3):
                    d = np.zeros(3)
                    d[j] = h
                    div += (st.stress(Pm + d)[:, j] - st.stress(Pm - d)[:, j]) / (2 * h)
                if not np.allclose(div, 0, atol=1e-4 * abs(st.stress(Pm)).max()):
                    msgs.append('stress divergence %r at %r' % (div.round(5).tolist(), Pm.round(3).tolist()))
                    break
            # covariance: rotate the whole problem by R (crystal axes, Burgers vector), fields rotate with it
            R = rot(40 + ri)
            st2 = am.defect.Stroh(C, burgers=np.array(b), transform=T.dot(R.T) if False else T, m=mn[0], n=mn[1])
            if not np.allclose(st2.stress(pts[0]), st.stress(pts[0]), atol=1e-9):
                msgs.append('re-solving the same problem gives another stress')
            # re-solve the SAME object with another problem after using it: fields must be those of the new problem
            st3 = am.defect.Stroh(Cs['cubic'], burgers=[1.0, 0.0, 0.0])
            st3.stress(pts[0])
            st3.solve(C, np.array(b), transform=T, m=mn[0], n=mn[1])
            if not (np.allclose(st3.stress(pts[0]), st.stress(pts[0]), atol=1e-9) and np.allclose(st3.strain(pts[0]), st.strain(pts[0]), atol=1e-12)):
                msgs.append('after solve() on a used object the stress is not that of the new problem')
            if len(samples) < 1:
                samples.append({'case': key, 'K_coeff': float(st.K_coeff)})
        except ValueError as e:
            if 'Stroh checks failed' in str(e) or 'not real' in str(e):
                refused += 1            # documented refusal (degenerate roots): outside "that the solver accepts"
            else:
                msgs.append('raised %s: %s' % (type(e).__name__, e))
        except Exception as e:
            msgs.append('raised %s: %s' % (type(e).__name__, e))
        if msgs:
            fails.append({'obligation': 'stroh.solution', 'key': key, 'input': key, 'detail': '; '.join(msgs[:3])})
    # orientation by Miller indices vs. by an independently built rotation
    cells = {'cubic': (am.Box.cubic(3.6), Cs['cubic'], [([1, 1, -2], [1, 1, 1]), ([1, -1, 0], [1, 1, 1]), ([0, 0, 1], [1, 1, 0])]),
             'hexagonal': (am.Box.hexagonal(3.2, 5.2), Cs['hexagonal'], [([0, 0, 1], [1, 0, 0]), ([1, 0, 0], [0, 0, 1]), ([0, 0, 1], [1, 1, 0])]),
             'monoclinic': (am.Box.monoclinic(3.0, 4.0, 5.0, 103.0), Cs['orthorhombic'], [([0, 0, 1], [0, 1, 0]), ([1, 0, 0], [0, 1, 0]), ([0, 0, 1], [1, 1, 0])])}
    for cname, (box, C, systems) in cells.items():
        for (uvw, hkl) in systems:
            evals += 1
            key = '%s,xi=%r,plane=%r' % (cname, uvw, hkl)
            msgs = []
            try:
                bvec = np.array(uvw, dtype=float)
                st = am.defect.Stroh(C, burgers=bvec, ξ_uvw=uvw, slip_hkl=hkl, box=box)
                V = box.vects
                xi_c = np.array(uvw).dot(V)
                xi_c = xi_c / np.linalg.norm(xi_c)
                R = box.reciprocal_vects
                n_c = np.array(hkl).dot(R)
                n_c = n_c / np.linalg.norm(n_c)
                m_c = np.cross(n_c, xi_c)
                Tw = np.array([m_c, n_c, xi_c])
                if not np.allclose(st.transform, Tw, atol=1e-8):
                    msgs.append('transform differs from the rotation built from the line direction and the reciprocal-lattice plane normal')
                if not np.allclose(st.burgers, Tw.dot(bvec.dot(V)), atol=1e-8):
                    msgs.append('Burgers vector %r, expected %r' % (st.burgers.round(5).tolist(), Tw.dot(bvec.dot(V)).round(5).tolist()))
                st_r = am.defect.Stroh(C, burgers=bvec.dot(V), transform=Tw)
                if not np.allclose(st.stress(pts[1]), st_r.stress(pts[1]), atol=1e-8 * abs(st_r.stress(pts[1])).max()):
                    msgs.append('fields differ from those of the same problem given by a rotation')
            except ValueError as e:
                if 'Stroh checks failed' in str(e) or 'not real' in str(e):
                    refused += 1
                else:
                    msgs.append('raised %s: %s' % (type(e).__name__, e))
            except Exception as e:
                msgs.append('raised %s: %s' % (type(e).__name__, e))
            if msgs:
                fails.append({'obligation': 'orientation.by_miller_indices', 'key': key, 'input': key, 'detail': '; '.join(msgs[:3])})
    # isotropic limit and isotropic solver
    evals += 1
    try:
        mu, lam = 0.7, 1.3
        iso = am.defect.IsotropicVolterraDislocation(am.ElasticConstants(mu=mu, **{'lambda': lam}), burgers=[0.7, 0.0, 0.4])
        near = am.defect.Stroh(am.ElasticConstants(C11=lam + 2 * mu, C12=lam, C44=mu * (1 + 1e-6)), burgers=[0.7, 0.0, 0.4])
        msgs = []
        for P in pts[:6]:
            if not np.allclose(near.stress(P), iso.stress(P), atol=1e-4 * abs(iso.stress(P)).max() + 1e-9):
                msgs.append('anisotropic solution does not approach the isotropic one at %r' % P.round(3).tolist())
                break
        Ki = iso.K_tensor
        if not (np.allclose(Ki, Ki.T) and np.linalg.eigvalsh(Ki).min() > 0 and np.allclose(near.K_tensor, Ki, rtol=1e-4)):
            msgs.append('isotropic K tensor not symmetric positive-definite or not the limit of the anisotropic one')
        sv = am.defect.solve_volterra_dislocation(am.ElasticConstants(mu=mu, **{'lambda': lam}), burgers=[0.7, 0.0, 0.4])
        if type(sv).__name__ != 'IsotropicVolterraDislocation':
            msgs.append('isotropic constants were not routed to the isotropic solver')
        if msgs:
            fails.append({'obligation': 'isotropic.limit', 'key': 'mu=0.7,lambda=1.3', 'input': 'isotropic', 'detail': '; '.join(msgs[:3])})
    except Exception as e:
        fails.append({'obligation': 'isotropic.limit', 'key': 'mu=0.7,lambda=1.3', 'input': 'isotropic', 'detail': 'raised %s: %s' % (type(e).__name__, e)})
    # ---- the choice of length unit: the same dislocation with all lengths (Burgers vector, field points) multiplied by s has displacement x s and the same strain and stress
    a0 = 3.6
    for (sname, solver), (bname, bv) in itertools.product({'Stroh': lambda b_: am.defect.Stroh(Cs['cubic'], burgers=b_, transform=rot(3)),
                                                           'isotropic': lambda b_: am.defect.IsotropicVolterraDislocation(am.ElasticConstants(mu=0.7, **{'lambda': 1.3}), burgers=b_, transform=rot(3))}.items(),
                                                          {'edge': a0 / 2 * np.array([1.0, -1.0, 0.0]), 'partial': a0 / 6 * np.array([1.0, 1.0, -2.0]), 'mixed': np.array([2.5, 0.011, -0.74])}.items()):
        try:
            ref = solver(bv)
            for s_ in (1e-1, 1e-8, 1e-10, 1e7):
                evals += 1
                sc = solver(bv * s_)
                msgs = []
                # (the displacement itself is defined up to a rigid translation that depends on the unit through log r: differences between points are compared)
                du_s = sc.displacement(pts[0] * s_) - sc.displacement(pts[1] * s_)
                du_r = (ref.displacement(pts[0]) - ref.displacement(pts[1])) * s_
                if not np.allclose(du_s, du_r, rtol=1e-7, atol=1e-9 * s_ * abs(bv).max()):
                    msgs.append('displacement difference between two scaled points is %r, expected %r' % (du_s.tolist(), du_r.tolist()))
                for P in pts[:3]:
                    if not np.allclose(sc.strain(P * s_), ref.strain(P), rtol=1e-7, atol=1e-9 * abs(ref.strain(P)).max()):
                        msgs.append('strain changes with the length unit: %r vs %r' % (sc.strain(P * s_).round(6).tolist(), ref.strain(P).round(6).tolist()))
                        break
                    if not np.allclose(sc.stress(P * s_), ref.stress(P), rtol=1e-7, atol=1e-9 * abs(ref.stress(P)).max()):
                        msgs.append('stress changes with the length unit')
                        break
                if not np.allclose(sc.burgers, ref.burgers * s_, rtol=1e-9, atol=0):
                    msgs.append('Burgers vector used %r, given %r (in the solution frame)' % (sc.burgers.tolist(), (ref.burgers * s_).tolist()))
                if msgs:
                    fails.append({'obligation': 'solutions.length_unit', 'key': '%s,%s,scale=%g' % (sname, bname, s_), 'input': {'burgers': (bv * s_).tolist()},
                                  'detail': '%s solution, %s Burgers vector, all lengths x %g: %s' % (sname, bname, s_, '; '.join(msgs[:2]))})
        except Exception as e:
            fails.append({'obligation': 'solutions.length_unit', 'key': '%s,%s' % (sname, bname), 'input': {'burgers': bv.tolist()}, 'detail': 'raised %s: %s' % (type(e).__name__, e)})
    files = {rel: hashlib.sha256(open(os.path.join(REPO, rel), 'rb').read()).hexdigest() for rel in (STROH, ISO, VOLT, SOLVE)}
    return {'family': 'Volterra solutions (%d of the cases refused by the solver: degenerate roots)' % refused, 'evaluations': evals, 'distinct_nontrivial': evals - refused, 'rule': 'see group rule', 'samples': samples, 'failures': fails[:12], 'files': files}


# ----------------------------------------------------------------------------
# Stroh: what follows from the eigen-decomposition -- equilibrium and the Burgers jump -- by machine-checked certificates
#   hypotheses = the contract of numpy.linalg.eig on the matrix N that the real code builds (N xi_a = p_a xi_a), the contract of numpy.linalg.inv (T Ti = I) and the
#   closure relation that solve() itself asserts at run time (sum_a k_a A_a (x) L_a = I).  Each conclusion is proved as  conclusion = sum(polynomial * hypothesis)  (ring identity).

import ast as _ast
from pyvc.extract import extract_range as _extract_range


def _assign_to(name):
    def sel(n):
        return isinstance(n, _ast.Assign) and len(n.targets) == 1 and isinstance(n.targets[0], _ast.Name) and n.targets[0].id == name
    return sel


class _InvStub(object):
    """the facade with numpy.linalg.inv replaced by its contract: a fresh symbolic matrix Ti for the argument T (T Ti = I is used as hypothesis through E := T Ti - I)"""
    def __init__(self, E, rec):
        outer = self
        self.rec = rec

        class _LA(object):
            def __getattr__(self, k):
                return getattr(snp.linalg, k)

            def inv(self, a):
                a = snp.asarray(a)
                Ti = E.reals('Ti', a.shape)
                rec['T'] = a.copy()
                rec['Ti'] = Ti
                return Ti.copy()
        self.linalg = _LA()

    def __getattr__(self, k):
        return getattr(snp, k)


def _cmat_vec(Mx, v):
    """real or complex matrix times complex vector"""
    out = []
    for i in range(len(Mx)):
        acc = CSym(0, 0)
        for j in range(len(v)):
            acc = acc + CSym.coerce(v[j]) * Mx[i][j]
        out.append(acc)
    return out


@group('stroh.eigen_consequences', files=[STROH], functions=['Stroh.solve (block: Stroh matrix)', 'Stroh.displacement', 'Stroh.stress'],
       clause='for any stiffness with the full symmetries, any axes m, n and any Burgers vector: the matrix N built by solve() is the Stroh matrix of (Q, R, T) = (mCm, mCn, nCn); for '
              'every eigenpair N (A_a, L_a) = p_a (A_a, L_a) (contract of numpy.linalg.eig) with T Ti = I (contract of numpy.linalg.inv) the Stroh relation '
              '[Q + p_a (R + R^T) + p_a^2 T] A_a = 0 holds (certificate: it is an explicit polynomial combination of the hypotheses); hence the divergence of the stress field '
              'returned by stress() vanishes mode by mode (elastic equilibrium), and the jump of the displacement returned by displacement() when every log eta_a jumps by '
              '+-2 pi i with the code\'s alternating sign is (sum_a k_a A_a (x) L_a) b, i.e. the Burgers vector under the closure relation solve() asserts',
       replay=_replay, timeout_ms=60000)
def stroh_eigen(E, L):
    mod, st, m, n, C = _mk_stroh(E, L)
    E.canary('stroh.eigen.canary', m[0] == n[0])
    E.side_enabled = False
    block, info = _extract_range(L, STROH, 'solve', _assign_to('Cijkl'), _assign_to('N'))
    E.shape('stroh.N.block_found', info['last_line'] > info['first_line'])
    rec = {}
    real_np = mod.np
    mod.np = _InvStub(E, rec)
    try:
        out = block(dict(self=st))
    finally:
        mod.np = real_np
    N = out['N']
    E.prove('stroh.N.shape', N.shape == (6, 6))
    C4 = full4(C)
    Q = [[sum(m[j] * C4[j, i, k, l] * m[l] for j in range(3) for l in range(3)) for k in range(3)] for i in range(3)]
    R = [[sum(m[j] * C4[j, i, k, l] * n[l] for j in range(3) for l in range(3)) for k in range(3)] for i in range(3)]
    T = [[sum(n[j] * C4[j, i, k, l] * n[l] for j in range(3) for l in range(3)) for k in range(3)] for i in range(3)]
    Ti = rec['Ti']
    for i in range(3):
        for k in range(3):
            E.prove('stroh.N.inverted_matrix_is_nCn[%d,%d]' % (i, k), rec['T'][i, k] == T[i][k])
            E.prove('stroh.N.transpose_symmetry[%d,%d]' % (i, k), out['nm'][i, k] == R[k][i])
            # blocks of the Stroh matrix
            E.prove('stroh.N.block_B[%d,%d]' % (i, k), N[i, 3 + k] == -Ti[i, k])
            E.prove('stroh.N.block_A[%d,%d]' % (i, k), N[i, k] == -sum(Ti[i, j] * R[k][j] for j in range(3)))
            E.prove('stroh.N.block_D[%d,%d]' % (i, k), N[3 + i, 3 + k] == -sum(R[i][j] * Ti[j, k] for j in range(3)))
            E.prove('stroh.N.block_C[%d,%d]' % (i, k), N[3 + i, k] == Q[i][k] - sum(R[i][j] * Ti[j, l] * R[k][l] for j in range(3) for l in range(3)))
    p, A, Lv, kk = st._Stroh__p, st._Stroh__A, st._Stroh__L, st._Stroh__k
    Em = [[sum(T[i][j] * Ti[j, k] for j in range(3)) - (1 if i == k else 0) for k in range(3)] for i in range(3)]       # T Ti - I
    b = st._VolterraDislocation__burgers
    # fields with log(eta_a), 1/eta_a as atoms (as in stroh.fields)
    atoms = _Atoms(E)
    st.eta = lambda pos_: snp.asarray(_np.array([[_EtaAtom(a, atoms) for a in range(6)]], dtype=object))
    pos = E.reals('x', (3,))
    u = st.displacement(pos)
    sig = st.stress(pos)

    def coef(z, which, a):
        z = CSym.coerce(z)
        sub1 = {}
        for kind in ('LOG', 'INV'):
            arr = getattr(atoms, kind)
            for bb in range(6):
                for part, val in ((arr[bb].re, 1 if (kind == which and bb == a) else 0), (arr[bb].im, 0)):
                    sub1[part.t] = tm.const(val, tm.R)
        return CSym(Sym(tm.substitute(z.re.t, sub1)), Sym(tm.substitute(z.im.t, sub1)))
    updn = [1, -1, 1, -1, 1, -1]
    two_pi_i = CSym(0, 2) * snp.pi
    for a in range(6):
        xi = [A[a, j] for j in range(3)] + [Lv[a, j] for j in range(3)]
        Nxi = _cmat_vec([[N[i, j] for j in range(6)] for i in range(6)], xi)
        h = [Nxi[i] - p[a] * xi[i] for i in range(6)]                      # eig contract: every h_i = 0
        h1, h2 = h[:3], h[3:]
        Aa = [A[a, j] for j in range(3)]
        La = [Lv[a, j] for j in range(3)]
        RtA_L = [sum((CSym.coerce(Aa[k]) * R[k][j] for k in range(3)), CSym(0, 0)) + La[j] for j in range(3)]        # (R^T A + L)_j
        stroh = []
        for i in range(3):
            acc = CSym(0, 0)
            for k in range(3):
                acc = acc + CSym.coerce(Aa[k]) * Q[i][k] + p[a] * (CSym.coerce(Aa[k]) * (R[i][k] + R[k][i])) + p[a] * p[a] * (CSym.coerce(Aa[k]) * T[i][k])
            stroh.append(acc)
        for i in range(3):
            cert = h2[i]
            for j in range(3):
                cert = cert - (CSym.coerce(h1[j]) * R[i][j] + p[a] * (CSym.coerce(h1[j]) * T[i][j]))
                cert = cert - p[a] * (RtA_L[j] * Em[i][j])
            _cprove(E, 'stroh.relation.certificate[mode%d][%d]' % (a, i), stroh[i], cert)
        # equilibrium: coefficient of 1/eta_a^2 in the divergence of the stress  (d(1/eta)/dx_j = -(m_j + p n_j)/eta^2)
        deta = [p[a] * n[j] + m[j] for j in range(3)]
        Lb = sum((CSym.coerce(La[j]) * b[j] for j in range(3)), CSym(0, 0))
        kLb = kk[a] * updn[a] * Lb
        for i in range(3):
            div = CSym(0, 0)
            for j in range(3):
                div = div - coef(sig[i, j], 'INV', a) * deta[j]
            # div * (2 pi i) = - kLb * [Stroh matrix . A]_i
            _cprove(E, 'stroh.equilibrium.divergence_is_multiple_of_relation[mode%d][%d]' % (a, i), div * two_pi_i, CSym(0, 0) - kLb * stroh[i])
    # Burgers jump: sum_a (updn_a 2 pi i) * coefficient of log eta_a in u_i  =  sum_j M_ij b_j ,  M = sum_a k_a A_a (x) L_a
    M = [[sum((kk[a] * A[a, i] * Lv[a, j] for a in range(6)), CSym(0, 0)) for j in range(3)] for i in range(3)]
    for i in range(3):
        jump = CSym(0, 0)
        for a in range(6):
            jump = jump + coef(u[i], 'LOG', a) * two_pi_i * updn[a]
        Mb = sum((M[i][j] * b[j] for j in range(3)), CSym(0, 0))
        _cprove(E, 'stroh.burgers_jump.is_closure_matrix_times_b[%d]' % i, jump, Mb)
        # under the closure relation asserted by solve():  M = I  =>  jump_i = b_i   (certificate: jump_i - b_i = sum_j (M_ij - delta_ij) b_j)
        resid = sum(((M[i][j] - (1 if i == j else 0)) * b[j] for j in range(3)), CSym(0, 0))
        _cprove(E, 'stroh.burgers_jump.minus_b_is_combination_of_closure_defect[%d]' % i, jump - b[i], resid)

# ----------------------------------------------------------------------------
# callee contracts this property's proofs ASSUME are part of this check (modular verification carries the property only if the assumed contract is itself
# discharged on the same tree): the groups of the property that establishes them run here as well, reported under this property when they fail.
# the dislocation solvers are verified against the contract of ElasticConstants.transform / Cijkl (rotated stiffness); ElasticConstants.py is one of this property's files
from . import c11 as _c11
for _g in _c11.GROUPS:
    if _g.name in ('transform', 'representations.getters'):
        GROUPS.append(_g)
