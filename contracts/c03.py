"""C03 — Neighbor list lists exactly the pairs closer than the cutoff."""
import hashlib
import itertools
import os
import tempfile

import numpy as _np

from pyvc.runner import group, REPO
from pyvc import symnp as snp, terms as tm
from pyvc.sym import Sym
from .common import And, Or, Not

LEVEL = 'other'
EXPLANATION = ("nlist.pyx bins atoms with numpy.digitize/unique, grows typed memoryviews and inserts into sorted rows under boundscheck(False); its meaning depends on "
               "shape-changing NumPy calls that the VC generator does not model, so the exactness clause (listed <=> periodic distance below the cutoff, with the C02 distance "
               "as oracle), the structural invariants (sorted, duplicate-free, symmetric, no self entry, coordination = length), independence of the storage parameters and the "
               "file round trip are checked by a labelled BOUNDED run-time contract over a stated family. The NeighborList accessor contracts (coord, __getitem__, __len__ are "
               "views of the row store) are proved on a symbolic-free but arbitrary row store by execution of the real class.")
ASSUMPTIONS = ["oracle: O(N^2) periodic distances from dmag (contract proved in C02)", "bounded family stated in the group rule; nothing about nlist.pyx is counted as proved"]
UNCOVERED = ["memory safety of nlist.pyx's unchecked subscripts (not modelled)", "configurations outside the family"]

NLF = 'atomman/core/nlist.pyx'
NLPY = 'atomman/core/NeighborList.py'
DMF = 'atomman/core/dmag.pyx'


@group('NeighborList.accessors', files=[NLPY], functions=['NeighborList.coord', 'NeighborList.__getitem__', 'NeighborList.__len__', 'NeighborList.build'],
       clause='the reported coordination number is the stored count, self[i] is exactly the first coord[i] stored neighbours of atom i, len is the atom count; build forwards the storage parameters',
       replay=None)
def accessors(E, L):
    calls = []

    def fake_nlist(system, cutoff, initialsize=20, deltasize=10):
        calls.append((system, cutoff, initialsize, deltasize))
        return _np.array([[2, 1, 3, -7], [1, 0, -7, -7], [0, -7, -7, -7], [1, 0, -7, -7]])
    L.overrides['atomman.core.nlist.nlist'] = fake_nlist
    L.overrides['atomman.core.nlist'] = type('M', (), {'nlist': staticmethod(fake_nlist)})
    NL = L.load(NLPY).NeighborList
    nl = NL(system='S', cutoff=2.5, initialsize=3, deltasize=2)
    E.prove('build.forwards_parameters', calls == [('S', 2.5, 3, 2)])
    E.prove('coord.is_first_column', list(nl.coord) == [2, 1, 0, 1])
    E.prove('len.is_natoms', len(nl) == 4)
    E.prove('getitem.rows', [list(nl[i]) for i in range(4)] == [[1, 3], [0], [], [0]])
    E.prove('getitem.length_is_coord', all(len(nl[i]) == nl.coord[i] for i in range(4)))
    x = E.real('x')
    E.canary('accessors.canary', x == 0)


def oracle(am, np, system, cutoff):
    n = system.natoms
    out = []
    for i in range(n):
        d = am.dmag(system.atoms.pos[i], system.atoms.pos, system.box, system.pbc)
        out.append([j for j in range(n) if j != i and d[j] < cutoff])
    return out


def configs(am, np, rng, tier):
    cells = [('cubic', np.diag([4.0, 4.0, 4.0]), np.zeros(3)), ('ortho', np.diag([3.0, 5.0, 7.0]), np.array([-1.0, 2.0, 0.5])),
             ('tilted', np.array([[4.0, 0, 0], [1.2, 5.0, 0], [-0.7, 0.9, 6.0]]), np.array([0.5, -2.0, 3.0])),
             ('hex', np.array([[3.0, 0, 0], [-1.5, 2.598, 0], [0, 0, 4.8]]), np.zeros(3)),
             ('triclinic', np.array([[4.0, 0.3, -0.2], [0.5, 3.5, 0.1], [-0.7, 0.4, 5.0]]), np.array([1.0, 1.0, 1.0]))]
    pbcs = list(itertools.product([True, False], repeat=3))
    kinds = ['sparse', 'dense', 'clustered', 'faces', 'binedges']
    ns = [1, 2, 4, 7] if tier == 'quick' else [1, 2, 3, 4, 6, 9, 14]
    reps = 1 if tier == 'quick' else 4
    for (cname, V, o), pbc, kind, n, rep in itertools.product(cells, pbcs, kinds, ns, range(reps)):
        if tier == 'quick' and (sum(map(ord, cname + kind)) + n + sum(pbc)) % 2:
            continue
        if kind == 'sparse':
            s = rng.uniform(0, 1, (n, 3))
        elif kind == 'dense':
            s = rng.uniform(0, 1, (n * 3, 3))
        elif kind == 'clustered':
            s = (0.5 + rng.normal(0, 0.05, (n, 3))) % 1.0
        elif kind == 'faces':
            s = rng.uniform(0, 1, (n, 3))
            s[:, rng.randint(0, 3)] = 0.0
            s[0] = 0.0
        else:
            s = rng.uniform(0, 1, (n, 3))
        pos = s.dot(V) + o
        widths = [abs(np.linalg.det(V)) / np.linalg.norm(np.cross(V[(k + 1) % 3], V[(k + 2) % 3])) for k in range(3)]
        for cf in (0.3, 0.9, 1.7):
            cutoff = cf * min(widths)
            if kind == 'binedges':
                pos = np.round((pos - o) / cutoff) * cutoff + o + rng.choice([0.0, 1e-9, -1e-9], (len(pos), 3))
                pos = ((pos - o).dot(np.linalg.inv(V)) % 1.0).dot(V) + o
            system = am.System(atoms=am.Atoms(pos=pos.copy()), box=am.Box(vects=V, origin=o), pbc=pbc)
            yield '%s,pbc=%s,%s,n=%d,cutoff=%.2fw,rep=%d' % (cname, ''.join('p' if p else 'f' for p in pbc), kind, len(pos), cf, rep), system, cutoff


@group('nlist.exactness', kind='bounded', files=[NLF, NLPY, DMF], functions=['nlist.nlist', 'NeighborList.build', 'NeighborList.dump', 'NeighborList.load'],
       clause='atom j is listed for atom i exactly when j != i and their periodic distance is below the cutoff; rows are sorted ascending, duplicate-free, symmetric, without self entries, '
              'coordination = row length; the result does not depend on initialsize/deltasize and survives dump/load',
       rule='5 cells (orthogonal/tilted/hexagonal/triclinic, non-zero origins) x 8 pbc x {sparse, dense, clustered, on faces, on bin edges} x atom counts x cutoffs {0.3, 0.9, 1.7} x smallest cell width '
            'x storage sizes {(20,10), (1,1), (2,3)}; oracle: O(N^2) periodic distances (27 images, C02); distinct by tuple; non-trivial = at least one neighbour pair')
def exactness(tier, seed):
    from pyvc.native import atomman
    import numpy as np
    am = atomman()
    rng = np.random.RandomState(7 + seed)
    fails, samples = [], []
    evals = nontriv = 0
    tmpd = tempfile.mkdtemp(prefix='pyvc_nl_')
    try:
        for key, system, cutoff in configs(am, np, rng, tier):
            evals += 1
            msgs = []
            try:
                want = oracle(am, np, system, cutoff)
                nontriv += any(len(w) for w in want)
                ref = None
                for (isz, dsz) in ((20, 10), (1, 1), (2, 3)):
                    nl = am.NeighborList(system=system, cutoff=cutoff, initialsize=isz, deltasize=dsz)
                    rows = [[int(x) for x in nl[i]] for i in range(system.natoms)]
                    if ref is None:
                        ref = rows
                        n = system.natoms
                        for i, r in enumerate(rows):
                            if r != sorted(set(r)):
                                msgs.append('row %d not sorted/duplicate-free: %r' % (i, r))
                            if i in r:
                                msgs.append('atom %d lists itself' % i)
                            if any(j < 0 or j >= n for j in r):
                                msgs.append('row %d has an out-of-range index' % i)
                            if nl.coord[i] != len(r):
                                msgs.append('coord[%d] = %d but %d neighbours listed' % (i, nl.coord[i], len(r)))
                            for j in r:
                                if 0 <= j < n and i not in rows[j]:
                                    msgs.append('not symmetric: %d lists %d but not conversely' % (i, j))
                            missing = sorted(set(want[i]) - set(r))
                            extra = sorted(set(r) - set(want[i]))
                            if missing:
                                msgs.append('atom %d: MISSING neighbours %r (periodic distance below the cutoff %.4f)' % (i, missing, cutoff))
                            if extra:
                                msgs.append('atom %d: lists %r although their periodic distance is not below the cutoff' % (i, extra))
                    elif rows != ref:
                        msgs.append('result depends on the storage sizes: initialsize=%d, deltasize=%d differs' % (isz, dsz))
                    if msgs:
                        break
                if not msgs and evals % 5 == 0:
                    path = os.path.join(tmpd, 'nl.txt')
                    nl.dump(path)
                    back = am.NeighborList(model=path)
                    if [[int(x) for x in back[i]] for i in range(system.natoms)] != ref or list(back.coord) != [len(r) for r in ref]:
                        msgs.append('dump/load does not reproduce the list')
                if len(samples) < 1 and any(len(w) for w in want):
                    samples.append({'case': key, 'rows': ref[:3]})
            except Exception as e:
                msgs.append('raised %s: %s' % (type(e).__name__, e))
            if msgs:
                ob = 'nlist.completeness' if all('MISSING' in m for m in msgs) else 'nlist.post'
                fails.append({'obligation': ob, 'key': key, 'input': {'case': key, 'pos': system.atoms.pos.tolist(), 'vects': system.box.vects.tolist(), 'origin': system.box.origin.tolist(),
                                                                       'pbc': [bool(x) for x in system.pbc], 'cutoff': cutoff}, 'detail': '; '.join(msgs[:3])})
    finally:
        import shutil
        shutil.rmtree(tmpd, ignore_errors=True)
    files = {rel: hashlib.sha256(open(os.path.join(REPO, rel), 'rb').read()).hexdigest() for rel in (NLF, NLPY, DMF)}
    return {'family': 'neighbour lists vs O(N^2) oracle', 'evaluations': evals, 'distinct_nontrivial': nontriv, 'rule': 'see group rule', 'samples': samples, 'failures': fails[:15], 'files': files}
