"""C03 — Neighbor list lists exactly the pairs closer than the cutoff."""
import hashlib
import itertools
import os
import tempfile

import numpy as _np

from pyvc.runner import group, REPO
from pyvc import symnp as snp, terms as tm
from pyvc.sym import Sym
from .common import And, Or, Not

LEVEL = 'other'
EXPLANATION = ("nlist.pyx bins atoms with numpy.digitize/unique and grows typed memoryviews; the whole kernel depends on shape-changing NumPy calls outside the modelled fragment, so "
               "the end-to-end exactness clause (listed <=> periodic distance below the cutoff, with the C02 distance as oracle), independence of the storage parameters and the file "
               "round trip are a labelled BOUNDED run-time contract over a stated family. Proved are the kernel's three inner blocks, extracted mechanically from the .pyx text on every "
               "run (pyvc/extract.py: located by AST shape, compiled unchanged, executed from an arbitrary symbolic state): (1) the pair-recording block keeps the table symmetric, "
               "rows strictly increasing and duplicate-free, counts exact, all other entries, and re-allocates with all contents when capacity is exceeded (an out-of-bounds store "
               "raises in the facade, so the unchecked subscripts of this block are memory-safe under the stated precondition); (2) the neighbouring-bin loop nest reads exactly the "
               "13 lexicographically negative offsets inside the grid, so every adjacent bin pair is visited from exactly one end; (3) the candidate loop requests the separation of "
               "exactly the pairs (own atom, later atom of own + visited bins) and records a pair iff the squared separation returned by dmag2_c (C02 contract) is below cutoff^2; "
               "plus the binning lemma (closer than the bin size => same or adjacent bin) with bin size = cutoff. The NeighborList accessor contracts are proved on the real class. "
               "Not proved: that ghost images and np.digitize place every atom in the bin the lemma speaks of (bounded only), hence level 'other'.")
ASSUMPTIONS = ["oracle of the bounded family: O(N^2) periodic distances from dmag (contract proved in C02)",
               "block proofs: table rows of capacity 2 with counts 0..2 and growth steps 1, 2 (ids symbolic integers; int64 wrap-around not modelled); grids up to 3x3x3 for the stencil",
               "np.digitize / np.arange / np.unique semantics (binning of atoms and ghosts) are not modelled: composition of the blocks into end-to-end completeness is bounded only"]
UNCOVERED = ["ghost-image generation and binning (np.digitize) -- bounded only", "configurations outside the bounded family"]

NLF = 'atomman/core/nlist.pyx'
NLPY = 'atomman/core/NeighborList.py'
DMF = 'atomman/core/dmag.pyx'


@group('NeighborList.accessors', files=[NLPY], functions=['NeighborList.coord', 'NeighborList.__getitem__', 'NeighborList.__len__', 'NeighborList.build'],
       clause='the reported coordination number is the stored count, self[i] is exactly the first coord[i] stored neighbours of atom i, len is the atom count; build forwards the storage parameters',
       replay=None)
def accessors(E, L):
    calls = []

    def fake_nlist(system, cutoff, initialsize=20, deltasize=10):
        calls.append((system, cutoff, initialsize, deltasize))
        return _np.array([[2, 1, 3, -7], [1, 0, -7, -7], [0, -7, -7, -7], [1, 0, -7, -7]])
    L.overrides['atomman.core.nlist.nlist'] = fake_nlist
    L.overrides['atomman.core.nlist'] = type('M', (), {'nlist': staticmethod(fake_nlist)})
    NL = L.load(NLPY).NeighborList
    nl = NL(system='S', cutoff=2.5, initialsize=3, deltasize=2)
    E.prove('build.forwards_parameters', calls == [('S', 2.5, 3, 2)])
    E.prove('coord.is_first_column', list(nl.coord) == [2, 1, 0, 1])
    E.prove('len.is_natoms', len(nl) == 4)
    E.prove('getitem.rows', [list(nl[i]) for i in range(4)] == [[1, 3], [0], [], [0]])
    E.prove('getitem.length_is_coord', all(len(nl[i]) == nl.coord[i] for i in range(4)))
    x = E.real('x')
    E.canary('accessors.canary', x == 0)


def oracle(am, np, system, cutoff):
    n = system.natoms
    out = []
    for i in range(n):
        d = am.dmag(system.atoms.pos[i], system.atoms.pos, system.box, system.pbc)
        out.append([j for j in range(n) if j != i and d[j] < cutoff])
    return out


def configs(am, np, rng, tier):
    cells = [('cubic', np.diag([4.0, 4.0, 4.0]), np.zeros(3)), ('ortho', np.diag([3.0, 5.0, 7.0]), np.array([-1.0, 2.0, 0.5])),
             ('tilted', np.array([[4.0, 0, 0], [1.2, 5.0, 0], [-0.7, 0.9, 6.0]]), np.array([0.5, -2.0, 3.0])),
             ('hex', np.array([[3.0, 0, 0], [-1.5, 2.598, 0], [0, 0, 4.8]]), np.zeros(3)),
             ('triclinic', np.array([[4.0, 0.3, -0.2], [0.5, 3.5, 0.1], [-0.7, 0.4, 5.0]]), np.array([1.0, 1.0, 1.0]))]
    pbcs = list(itertools.product([True, False], repeat=3))
    kinds = ['sparse', 'dense', 'clustered', 'faces', 'binedges']
    ns = [1, 2, 4, 7] if tier == 'quick' else [1, 2, 3, 4, 6, 9, 14]
    reps = 1 if tier == 'quick' else 4
    for (cname, V, o), pbc, kind, n, rep in itertools.product(cells, pbcs, kinds, ns, range(reps)):
        if tier == 'quick' and (sum(map(ord, cname + kind)) + n + sum(pbc)) % 2:
            continue
        if kind == 'sparse':
            s = rng.uniform(0, 1, (n, 3))
        elif kind == 'dense':
            s = rng.uniform(0, 1, (n * 3, 3))
        elif kind == 'clustered':
            s = (0.5 + rng.normal(0, 0.05, (n, 3))) % 1.0
        elif kind == 'faces':
            s = rng.uniform(0, 1, (n, 3))
            s[:, rng.randint(0, 3)] = 0.0
            s[0] = 0.0
        else:
            s = rng.uniform(0, 1, (n, 3))
        pos = s.dot(V) + o
        widths = [abs(np.linalg.det(V)) / np.linalg.norm(np.cross(V[(k + 1) % 3], V[(k + 2) % 3])) for k in range(3)]
        for cf in (0.3, 0.9, 1.7):
            cutoff = cf * min(widths)
            if kind == 'binedges':
                pos = np.round((pos - o) / cutoff) * cutoff + o + rng.choice([0.0, 1e-9, -1e-9], (len(pos), 3))
                pos = ((pos - o).dot(np.linalg.inv(V)) % 1.0).dot(V) + o
            system = am.System(atoms=am.Atoms(pos=pos.copy()), box=am.Box(vects=V, origin=o), pbc=pbc)
            yield '%s,pbc=%s,%s,n=%d,cutoff=%.2fw,rep=%d' % (cname, ''.join('p' if p else 'f' for p in pbc), kind, len(pos), cf, rep), system, cutoff
    # crowded bins: more atoms in one cutoff-sized bin than the initial bin capacity (40) and than one capacity increment (10), so that the bin table is re-allocated (twice)
    for (cname, V, o), pbc, n in itertools.product(cells[:3], [(False, False, False), (True, False, True), (True, True, True)], [45, 63]):
        s = 0.5 + rng.uniform(-0.04, 0.04, (n, 3))
        pos = s.dot(V) + o
        widths = [abs(np.linalg.det(V)) / np.linalg.norm(np.cross(V[(k + 1) % 3], V[(k + 2) % 3])) for k in range(3)]
        cutoff = 0.45 * min(widths)
        system = am.System(atoms=am.Atoms(pos=pos.copy()), box=am.Box(vects=V, origin=o), pbc=pbc)
        yield '%s,pbc=%s,crowded_bin,n=%d,cutoff=0.45w' % (cname, ''.join('p' if p else 'f' for p in pbc), n), system, cutoff


@group('nlist.exactness', kind='bounded', files=[NLF, NLPY, DMF], functions=['nlist.nlist', 'NeighborList.build', 'NeighborList.dump', 'NeighborList.load'],
       clause='atom j is listed for atom i exactly when j != i and their periodic distance is below the cutoff; rows are sorted ascending, duplicate-free, symmetric, without self entries, '
              'coordination = row length; the result does not depend on initialsize/deltasize and survives dump/load',
       rule='5 cells (orthogonal/tilted/hexagonal/triclinic, non-zero origins) x 8 pbc x {sparse, dense, clustered, on faces, on bin edges, crowded bins (45 and 63 atoms in one bin: bin-table re-allocation)} x atom counts x cutoffs {0.3, 0.9, 1.7} x smallest cell width '
            'x storage sizes {(20,10), (1,1), (2,3)}; oracle: O(N^2) periodic distances (27 images, C02); distinct by tuple; non-trivial = at least one neighbour pair')
def exactness(tier, seed):
    from pyvc.native import atomman
    import numpy as np
    am = atomman()
    rng = np.random.RandomState(7 + seed)
    fails, samples = [], []
    evals = nontriv = 0
    tmpd = tempfile.mkdtemp(prefix='pyvc_nl_')
    try:
        for key, system, cutoff in configs(am, np, rng, tier):
            evals += 1
            msgs = []
            try:
                want = oracle(am, np, system, cutoff)
                nontriv += any(len(w) for w in want)
                ref = None
                for (isz, dsz) in ((20, 10), (1, 1), (2, 3)):
                    nl = am.NeighborList(system=system, cutoff=cutoff, initialsize=isz, deltasize=dsz)
                    rows = [[int(x) for x in nl[i]] for i in range(system.natoms)]
                    if ref is None:
                        ref = rows
                        n = system.natoms
                        for i, r in enumerate(rows):
                            if r != sorted(set(r)):
                                msgs.append('row %d not sorted/duplicate-free: %r' % (i, r))
                            if i in r:
                                msgs.append('atom %d lists itself' % i)
                            if any(j < 0 or j >= n for j in r):
                                msgs.append('row %d has an out-of-range index' % i)
                            if nl.coord[i] != len(r):
                                msgs.append('coord[%d] = %d but %d neighbours listed' % (i, nl.coord[i], len(r)))
                            for j in r:
                                if 0 <= j < n and i not in rows[j]:
                                    msgs.append('not symmetric: %d lists %d but not conversely' % (i, j))
                            missing = sorted(set(want[i]) - set(r))
                            extra = sorted(set(r) - set(want[i]))
                            if missing:
                                msgs.append('atom %d: MISSING neighbours %r (periodic distance below the cutoff %.4f)' % (i, missing, cutoff))
                            if extra:
                                msgs.append('atom %d: lists %r although their periodic distance is not below the cutoff' % (i, extra))
                    elif rows != ref:
                        msgs.append('result depends on the storage sizes: initialsize=%d, deltasize=%d differs' % (isz, dsz))
                    if msgs:
                        break
                if not msgs and evals % 5 == 0:
                    path = os.path.join(tmpd, 'nl.txt')
                    nl.dump(path)
                    back = am.NeighborList(model=path)
                    if [[int(x) for x in back[i]] for i in range(system.natoms)] != ref or list(back.coord) != [len(r) for r in ref]:
                        msgs.append('dump/load does not reproduce the list')
                if len(samples) < 1 and any(len(w) for w in want):
                    samples.append({'case': key, 'rows': ref[:3]})
            except Exception as e:
                msgs.append('raised %s: %s' % (type(e).__name__, e))
            if msgs:
                ob = 'nlist.completeness' if all('MISSING' in m for m in msgs) else 'nlist.post'
                fails.append({'obligation': ob, 'key': key, 'input': {'case': key, 'pos': system.atoms.pos.tolist(), 'vects': system.box.vects.tolist(), 'origin': system.box.origin.tolist(),
                                                                       'pbc': [bool(x) for x in system.pbc], 'cutoff': cutoff}, 'detail': '; '.join(msgs[:3])})
    finally:
        import shutil
        shutil.rmtree(tmpd, ignore_errors=True)
    files = {rel: hashlib.sha256(open(os.path.join(REPO, rel), 'rb').read()).hexdigest() for rel in (NLF, NLPY, DMF)}
    return {'family': 'neighbour lists vs O(N^2) oracle', 'evaluations': evals, 'distinct_nontrivial': nontriv, 'rule': 'see group rule', 'samples': samples, 'failures': fails[:15], 'files': files}


# ----------------------------------------------------------------------------
# blocks of the Cython kernel, extracted mechanically on every run (pyvc/extract.py) and executed from an arbitrary symbolic state

import ast as _ast
from pyvc.extract import extract as _extract, extract_between as _extract_between


def _is_insert_if(n):
    return (isinstance(n, _ast.If) and isinstance(n.test, _ast.Compare) and isinstance(n.test.left, _ast.Name) and n.test.left.id == 'uindex'
            and len(n.test.ops) == 1 and isinstance(n.test.ops[0], _ast.NotEq) and getattr(n.test.comparators[0], 'id', None) == 'vindex')


def _is_stencil_for(n):
    return isinstance(n, _ast.For) and isinstance(n.target, _ast.Name) and n.target.id == 'dz'


def _is_own_atoms_fill(n):
    """the loop that copies the bin's own atoms: for j in range(c): shortlist[j] = ..."""
    return (isinstance(n, _ast.For) and any(isinstance(t, _ast.Assign) and isinstance(t.targets[0], _ast.Subscript) and getattr(t.targets[0].value, 'id', '') == 'shortlist'
                                            for t in n.body))


def _is_longlist_assign(n):
    return isinstance(n, _ast.Assign) and isinstance(n.targets[0], _ast.Name) and n.targets[0].id == 'longlist'


def _is_pair_for(n):
    return isinstance(n, _ast.For) and isinstance(n.target, _ast.Name) and n.target.id == 'u'


def _replay_nlist(stem, vals):
    """native replay: the structural invariants and exactness on a small family (rebuilt extension when nlist.pyx differs from the pinned text)"""
    from pyvc.native import atomman
    import numpy as np
    am = atomman()
    msgs = []
    try:
        rng = np.random.RandomState(5)
        for pbc in ((True, True, True), (True, False, True), (False, False, False)):
            box = am.Box(vects=[[6.0, 0, 0], [1.5, 5.5, 0], [-0.8, 1.1, 6.5]])
            pos = rng.uniform(0, 1, (60, 3)).dot(box.vects)
            s = am.System(atoms=am.Atoms(pos=pos), box=box, pbc=pbc)
            for init, delta in ((20, 10), (1, 1), (2, 3)):
                nl = am.NeighborList(system=s, cutoff=2.7, initialsize=init, deltasize=delta)
                want = oracle(am, np, s, 2.7)
                for i in range(s.natoms):
                    row = list(nl[i])
                    if row != sorted(set(row)) or i in row:
                        msgs.append('row %d not sorted/duplicate-free/self-free: %r' % (i, row))
                    if row != want[i]:
                        msgs.append('row %d is %r, brute force gives %r (pbc %r, initialsize %d, deltasize %d)' % (i, row, want[i], pbc, init, delta))
                if msgs:
                    break
        # a crowded bin (more atoms than the initial bin capacity)
        box = am.Box.cubic(10.0)
        pos = 5.0 + rng.uniform(-0.4, 0.4, (60, 3))
        s = am.System(atoms=am.Atoms(pos=pos), box=box, pbc=(False, False, False))
        nl = am.NeighborList(system=s, cutoff=4.0)
        want = oracle(am, np, s, 4.0)
        bad = [i for i in range(60) if list(nl[i]) != want[i]]
        if bad:
            msgs.append('60 atoms in one bin: rows %r differ from brute force (atom %d lists %d neighbours, expected %d)' % (bad[:5], bad[0], len(nl[bad[0]]), len(want[bad[0]])))
    except Exception as e:
        msgs.append('raised %s: %s' % (type(e).__name__, e))
    return (len(msgs) > 0, '; '.join(msgs[:3]) if msgs else 'float replay of the neighbour-list contracts found no disagreement')


def _table(E, name, natoms, cap, counts):
    """neighbour table as the kernel keeps it: column 0 = count (concrete), then that many symbolic integer ids; the rest uninitialised storage (symbolic garbage)"""
    t = _np.empty((natoms, cap + 1), dtype=object)
    ids = {}
    for r in range(natoms):
        t[r, 0] = counts[r]
        for j in range(1, cap + 1):
            t[r, j] = E.int('%s_%d_%d' % (name, r, j))
        ids[r] = [t[r, j] for j in range(1, counts[r] + 1)]
    return t.view(snp.SymArray), ids


class _ObjAlloc(object):
    """the facade, except that np.empty of an integer dtype allocates symbolic-capable storage (ids are mathematical integers; int64 wrap-around is not modelled)"""
    def __getattr__(self, k):
        return getattr(snp, k)

    def empty(self, shape, dtype=None, **kw):
        return snp.empty(shape, dtype=object)


def _insertion_group(order, cu, cv, delta):
    u0, v0 = (0, 2) if order == 'uv' else (2, 0)

    @group('nlist.insertion_block[%s,cu=%d,cv=%d,delta=%d]' % (order, cu, cv, delta), files=[NLF], functions=['nlist.nlist (block: insertion of one pair)'],
           clause='the block of nlist.pyx that records one pair (u,v), executed from an arbitrary symmetric table state with strictly increasing rows of symbolic ids (counts 0..2, '
                  'capacity 2, growth step 1 and 2): if v is already listed nothing changes; otherwise both counts grow by one, both rows stay strictly increasing, row u gains '
                  'exactly v and row v exactly u, every other entry and every other row is kept, and when the capacity is exceeded the table is re-allocated with the documented '
                  'growth and all contents preserved', replay=_replay_nlist, timeout_ms=20000)
    def h_(E, L):
        block, info = _extract(L, NLF, 'nlist', _is_insert_if)
        E.shape('insertion.block_found[%s,%d,%d,%d]' % (order, cu, cv, delta), info['last_line'] > info['first_line'] and 'neighbors' in info['free_variables'])
        first = True
        natoms, cap = 3, 2
        for _once in (0,):
            tab, ids = _table(E, 'n%d%d%d' % (cu, cv, delta), natoms, cap, {u0: cu, v0: cv, 1: 1})
            tag = 'insertion[%s][cu=%d,cv=%d,delta=%d]' % (order, cu, cv, delta)
            pre = []
            for r in (u0, v0):
                row = ids[r]
                for a_, b_ in zip(row, row[1:]):
                    pre.append(a_ < b_)
                for a_ in row:
                    pre.append(a_ != r)           # no self entries
            v_in_u = Or(*[x == v0 for x in ids[u0]]) if ids[u0] else False
            u_in_v = Or(*[x == u0 for x in ids[v0]]) if ids[v0] else False
            if ids[u0] or ids[v0]:
                pre.append(And(Or(Not(v_in_u), u_in_v), Or(Not(u_in_v), v_in_u)) if (ids[u0] and ids[v0]) else (Not(v_in_u) if ids[u0] else Not(u_in_v)))
            for c_ in pre:
                E.assume(c_)
            if first:
                E.canary('insertion.canary[%s,%d,%d,%d]' % (order, cu, cv, delta), tab[1, 1] == 0)
                first = False
            before = tab.copy()
            mod = L.load(NLF)
            real_np = mod.np
            mod.np = _ObjAlloc()
            try:
                out = block(dict(neighbors=tab, uindex=u0, vindex=v0, maxneighbors=cap, deltasize=delta, natoms=natoms))
            finally:
                mod.np = real_np
            new_tab = out['neighbors']
            dup = v_in_u
            grew = (cu + 1 > cap) or (cv + 1 > cap)
            ncu, ncv = int(new_tab[u0, 0]), int(new_tab[v0, 0])
            was_new = bool(out['new'])
            # which path are we on?  `new` False <=> v was listed
            E.prove(tag + '.duplicate_detected_iff_listed', dup if not was_new else Not(dup) if not isinstance(dup, bool) else (dup is False))
            if not was_new:
                E.prove(tag + '.unchanged_when_listed', new_tab is tab and all((a_ is b_) or (isinstance(a_, Sym) and isinstance(b_, Sym) and a_.t is b_.t) or
                                                                              (not isinstance(a_, Sym) and not isinstance(b_, Sym) and a_ == b_)
                                                                              for a_, b_ in zip(new_tab.ravel(), before.ravel())))
                continue
            E.prove(tag + '.counts', ncu == cu + 1 and ncv == cv + 1)
            E.prove(tag + '.capacity', (new_tab.shape == (natoms, cap + delta + 1) and out['maxneighbors'] == cap + delta) if grew
                    else (new_tab is tab and out['maxneighbors'] == cap))
            for r, other, cnt in ((u0, v0, ncu), (v0, u0, ncv)):
                row = [new_tab[r, j] for j in range(1, cnt + 1)]
                for k_, (a_, b_) in enumerate(zip(row, row[1:])):
                    E.prove(tag + '.row%d_strictly_increasing[%d]' % (r, k_), a_ < b_)
                E.prove(tag + '.row%d_gains_partner' % r, Or(*[x == other for x in row]))
                for k_, old in enumerate(ids[r]):
                    E.prove(tag + '.row%d_keeps_entry[%d]' % (r, k_), Or(*[x == old for x in row]))
                # nothing else appears: every new entry is the partner or an old entry
                for k_, x in enumerate(row):
                    E.prove(tag + '.row%d_nothing_else[%d]' % (r, k_), Or(x == other, *[x == old for old in ids[r]]))
            E.prove(tag + '.other_row_kept', int(new_tab[1, 0]) == 1 and new_tab[1, 1] == before[1, 1])
    return h_


for _o, _cu, _cv, _d in itertools.product(('uv', 'vu'), range(3), range(3), (1, 2)):
    _insertion_group(_o, _cu, _cv, _d)


class _BinRecorder(object):
    """stands for the 4-D bin table: bin (i,j,k) holds exactly one atom whose id encodes the bin; records every access"""
    def __init__(self, n):
        self.n = n
        self.log = []

    def __getitem__(self, key):
        i, j, k, l = key
        self.log.append((int(i), int(j), int(k), int(l)))
        if not (0 <= i < self.n and 0 <= j < self.n and 0 <= k < self.n):
            raise IndexError('bin index out of range: %r' % (key,))
        return 1 if l == 0 else 100 * int(i) + 10 * int(j) + int(k)


@group('nlist.stencil_block', files=[NLF], functions=['nlist.nlist (block: neighbouring-bin loop nest)'],
       clause='the loop nest over neighbouring bins, executed for every bin position of a 3x3x3 and a 1x1x1..2x2x2 grid: it reads exactly the 13 bins whose offset is lexicographically '
              'negative (z, then y, then x) and inside the grid, never an index outside the grid, and appends their atoms after the bin\'s own atoms; hence every unordered pair of '
              'distinct adjacent bins is visited from exactly one of its two ends', replay=_replay_nlist)
def stencil_block(E, L):
    # the statements between "copy the bin's own atoms" and "longlist = superlonglist[:c]", whatever their arrangement
    block, info = _extract_between(L, NLF, 'nlist', _is_own_atoms_fill, _is_longlist_assign)
    E.shape('stencil.block_found', info['last_line'] > info['first_line'])
    x_ = E.int('canary_x')
    E.canary('stencil.canary', x_ == x_ + 1)
    half = [(dx, dy, dz) for dz in (-1, 0, 1) for dy in (-1, 0, 1) for dx in (-1, 0, 1) if (dz, dy, dx) < (0, 0, 0)]
    E.prove('stencil.spec_half_space', len(half) == 13 and all(((-a, -b, -c) in half) != ((a, b, c) in half) for a in (-1, 0, 1) for b in (-1, 0, 1) for c in (-1, 0, 1) if (a, b, c) != (0, 0, 0)))
    for n in (1, 2, 3):
        seen_pairs = {}
        for x, y, z in itertools.product(range(n), repeat=3):
            rec = _BinRecorder(n)
            sl = _np.full(14 * 1, -1, dtype=object)
            sl[0] = 100 * x + 10 * y + z
            out = block(dict(x=x, y=y, z=z, numxbins=n, numybins=n, numzbins=n, xyzbins=rec, superlonglist=sl, c=1, end=False))
            visited = sorted(set((i - x, j - y, k - z) for (i, j, k, l) in rec.log))
            want = sorted(d for d in half if 0 <= x + d[0] < n and 0 <= y + d[1] < n and 0 <= z + d[2] < n)
            E.prove('stencil.visits_half_space[n=%d][%d,%d,%d]' % (n, x, y, z), visited == want)
            E.prove('stencil.count_and_order[n=%d][%d,%d,%d]' % (n, x, y, z), out['c'] == 1 + len(want)
                    and sorted(int(v) for v in sl[1:out['c']]) == sorted(100 * (x + d[0]) + 10 * (y + d[1]) + (z + d[2]) for d in want) and int(sl[0]) == 100 * x + 10 * y + z)
            for d in want:
                a_, b_ = (x, y, z), (x + d[0], y + d[1], z + d[2])
                key = tuple(sorted([a_, b_]))
                seen_pairs[key] = seen_pairs.get(key, 0) + 1
        allpairs = set()
        for a_ in itertools.product(range(n), repeat=3):
            for d in itertools.product((-1, 0, 1), repeat=3):
                b_ = (a_[0] + d[0], a_[1] + d[1], a_[2] + d[2])
                if d != (0, 0, 0) and all(0 <= q < n for q in b_):
                    allpairs.add(tuple(sorted([a_, b_])))
        E.prove('stencil.every_adjacent_pair_once[n=%d]' % n, set(seen_pairs) == allpairs and all(v == 1 for v in seen_pairs.values()))


@group('nlist.pair_block', files=[NLF], functions=['nlist.nlist (block: candidate pairs of one bin)'],
       clause='the candidate loop of one bin: for own atoms s_0..s_{c-1} followed by the atoms of the visited neighbouring bins, the separation is requested from dmag2_c for exactly the '
              'pairs (s_i, l_j) with j > i in the concatenated list -- each pair of own atoms once, each (own, neighbouring-bin) pair once -- with the positions of those two atoms, '
              'and a pair is recorded only if that squared separation is below cutoff^2 and the ids differ', replay=_replay_nlist, timeout_ms=20000)
def pair_block(E, L):
    block, info = _extract(L, NLF, 'nlist', _is_pair_for)
    E.shape('pairs.block_found', info['last_line'] > info['first_line'])
    mod = L.load(NLF)
    natoms = 5
    posv = E.reals('pos', (natoms, 3))
    E.canary('pairs.canary', posv[0, 0] == posv[1, 0])
    for shortlist, rest in (([3, 0], [4, 1]), ([2], []), ([1, 4, 0], [2])):
        longlist = shortlist + rest
        calls = []
        d2 = {}

        def dmag2_stub(upos, vpos, vects, a, b, c, calls=calls, d2=d2):
            calls.append((snp.asarray(upos).copy(), snp.asarray(vpos).copy()))
            out = snp.zeros(len(upos), dtype=object)
            for w in range(len(upos)):
                out[w] = E.real('d2_%d_%d' % (len(calls), w))
                E.assume(out[w] >= 0)
            d2[len(calls)] = out
            return out
        real = mod.dmag2_c
        mod.dmag2_c = dmag2_stub
        cutoff2 = E.real('cutoff2')
        E.assume(cutoff2 > 0)
        tab, ids = _table(E, 'p%d' % len(shortlist), natoms, 4, {r: 0 for r in range(natoms)})
        tagp = 'pairs[%s|%s]' % (','.join(map(str, shortlist)), ','.join(map(str, rest)))
        try:
            out = block(dict(shortlist=_np.array(shortlist), longlist=_np.array(longlist), posv=posv, vects=_np.eye(3), pbc_a=True, pbc_b=True, pbc_c=True, cutoff2=cutoff2,
                             neighbors=tab, maxneighbors=4, deltasize=2, natoms=natoms))
        finally:
            mod.dmag2_c = real
        E.shape(tagp + '.one_request_per_own_atom', len(calls) == len(shortlist))
        nt = out['neighbors']
        for u, (upos, vpos) in enumerate(calls):
            want_v = longlist[u + 1:]
            E.prove(tagp + '.partners_of_own_atom[%d]' % u, upos.shape == (len(want_v), 3) and vpos.shape == (len(want_v), 3))
            for w, v in enumerate(want_v):
                for j in range(3):
                    E.prove(tagp + '.positions[%d,%d,%d]' % (u, w, j), And(upos[w, j] == posv[shortlist[u], j], vpos[w, j] == posv[v, j]))
        # recorded <=> separation below the cutoff (ids all distinct here), on the current path
        for u, s_u in enumerate(shortlist):
            for w, v in enumerate(longlist[u + 1:]):
                listed = Or(*[nt[s_u, j] == v for j in range(1, int(nt[s_u, 0]) + 1)]) if int(nt[s_u, 0]) else False
                close = d2[u + 1][w] < cutoff2
                E.prove(tagp + '.recorded_iff_close[%d,%d]' % (s_u, v), And(Or(Not(close), listed), Or(close, Not(listed))) if not isinstance(listed, bool) else Not(close))
    return None


@group('nlist.binning_lemma', files=[NLF], functions=['spec lemma: atoms closer than the bin size lie in the same or adjacent bins'],
       clause='with bins of size s starting at m, two coordinates closer than s fall into bins whose indices differ by at most one (per axis); with s = cutoff a pair closer than the '
              'cutoff therefore lies in the same or adjacent bins -- the candidate set of the stencil and pair blocks', replay=_replay_nlist)
def binning_lemma(E, L):
    a, b, m, s = E.real('a'), E.real('b'), E.real('m'), E.real('s')
    E.assume(s > 0)
    E.assume(a - b < s)
    E.assume(b - a < s)
    E.canary('binning.canary', a == b)
    ia, ib = snp.floor((a - m) / s), snp.floor((b - m) / s)
    E.prove('binning.adjacent', And(ia - ib <= 1, ib - ia <= 1))
    # the kernel's bin size is the cutoff itself (static: the assignment `binsize = cutoff` is the only definition)
    import os as _os
    text = open(_os.path.join(REPO, NLF), encoding='utf-8').read()
    defs = [l.strip() for l in text.split('\n') if l.strip().startswith('binsize =') or l.strip().startswith('binsize=')]
    E.prove('binning.binsize_is_cutoff', defs == ['binsize = cutoff'])


def _is_binfill_for(n):
    return isinstance(n, _ast.For) and isinstance(n.target, _ast.Name) and n.target.id == 'n' and 'atomindex' in _ast.unparse(n.iter)


@group('nlist.bin_filling_block', files=[NLF], functions=['nlist.nlist (block: filling the bin table)'],
       clause='the loop that files atoms and ghost images into the bin table, extracted mechanically and executed with symbolic atom ids and a small initial bin capacity (3, so that the '
              'table is re-allocated, also twice): afterwards every bin holds its count and exactly the ids assigned to it, in the order of assignment, the largest count is reported, '
              'and each re-allocation raises the capacity by 10 keeping every count and id of every bin', replay=_replay_nlist, timeout_ms=20000)
def bin_filling(E, L):
    block, info = _extract(L, NLF, 'nlist', _is_binfill_for)
    E.shape('binfill.block_found', info['last_line'] > info['first_line'])
    mod = L.load(NLF)
    first = True
    for assign in ([0, 1, 0, 0, 1, 0], [0] * 14, [1, 0, 1, 1], [0, 0, 1]):
        natoms = len(assign)
        ids = [E.int('id%d_%d' % (natoms, k)) for k in range(natoms)]
        if first:
            E.canary('binfill.canary', ids[0] == ids[1])
            first = False
        cap = 3
        bins = _np.zeros((2, 1, 1, cap + 1), dtype=object)
        xyz = _np.array([[a, 0, 0] for a in assign])
        real_np = mod.np

        class _NPz(_ObjAlloc):
            def zeros(self, shape, dtype=None, **kw):
                r = _np.zeros(shape, dtype=object)
                return r.view(snp.SymArray)
        mod.np = _NPz()
        try:
            out = block(dict(atomindex=snp.asarray(_np.array(ids, dtype=object)), xyzindex=xyz, xyzbins=bins.view(snp.SymArray), maxatomsperbin=cap, maxc=0,
                             numxbins=2, numybins=1, numzbins=1))
        finally:
            mod.np = real_np
        tb = out['xyzbins']
        tag = 'binfill[%s]' % ''.join(map(str, assign))
        want = {0: [ids[k] for k in range(natoms) if assign[k] == 0], 1: [ids[k] for k in range(natoms) if assign[k] == 1]}
        big = max(len(want[0]), len(want[1]))
        grows = 0
        c_ = cap
        while big >= c_:
            c_ += 10
            grows += 1
        E.prove(tag + '.capacity', out['maxatomsperbin'] == cap + 10 * grows and tb.shape == (2, 1, 1, cap + 10 * grows + 1))
        E.prove(tag + '.largest_count', int(out['maxc']) == big)
        for bq in (0, 1):
            E.prove(tag + '.count[%d]' % bq, int(tb[bq, 0, 0, 0]) == len(want[bq]))
            for j, idv in enumerate(want[bq]):
                E.prove(tag + '.entry[%d,%d]' % (bq, j), tb[bq, 0, 0, j + 1] == idv)

# ----------------------------------------------------------------------------
# callee contracts this property's proofs ASSUME are part of this check (modular verification carries the property only if the assumed contract is itself
# discharged on the same tree): the groups of the property that establishes them run here as well, reported under this property when they fail.
# nlist's pair block is verified against the contract of dmag2_c (squared periodic distance = least candidate length); dmag.pyx is one of this property's files
from . import c02 as _c02
for _g in _c02.GROUPS:
    if _g.name in ('kernels[ppp]', 'kernels[ppf]', 'kernels[pfp]', 'kernels[pff]', 'kernels[fpp]', 'kernels[fpf]', 'kernels[ffp]', 'kernels[fff]'):
        GROUPS.append(_g)
