"""Helpers shared by the contract files: arbitrary well-formed objects and small spec functions.
Spec functions are written from the property statements, independently of atomman."""
import numpy as _np
from pyvc import symnp as snp, terms as tm
from pyvc.sym import Sym, realconst, lift


def det3(V):
    return (V[0, 0] * (V[1, 1] * V[2, 2] - V[1, 2] * V[2, 1])
            - V[0, 1] * (V[1, 0] * V[2, 2] - V[1, 2] * V[2, 0])
            + V[0, 2] * (V[1, 0] * V[2, 1] - V[1, 1] * V[2, 0]))


def dot3(a, b):
    return a[0] * b[0] + a[1] * b[1] + a[2] * b[2]


def cross3(a, b):
    return [a[1] * b[2] - a[2] * b[1], a[2] * b[0] - a[0] * b[2], a[0] * b[1] - a[1] * b[0]]


def sym_abs(x):
    x = x if isinstance(x, Sym) else Sym(lift(x))
    return Sym(tm.abs_(x.t))


def sym_max(xs):
    xs = [x if isinstance(x, Sym) else Sym(lift(x)) for x in xs]
    r = xs[0]
    for x in xs[1:]:
        r = Sym(tm.max_(r.t, x.t))
    return r


def And(*xs):
    ts = []
    for x in xs:
        ts.append(x._b() if isinstance(x, Sym) else tm.const(bool(x)))
    return Sym(tm.and_(*ts))


def Or(*xs):
    ts = []
    for x in xs:
        ts.append(x._b() if isinstance(x, Sym) else tm.const(bool(x)))
    return Sym(tm.or_(*ts))


def Not(x):
    return Sym(tm.not_(x._b())) if isinstance(x, Sym) else (not x)


def Implies(a, b):
    return Or(Not(a), b)


def Iff(a, b):
    return And(Implies(a, b), Implies(b, a))


def arb_box(E, Box, name='b', righthanded=True, lammps=False, nonzero_det=True):
    """An arbitrary well-formed Box state: the private fields hold symbolic reals.
    (Every reachable Box has *some* real 3x3 matrix and 3-vector there; the setter's own
    contract is verified separately in Box.vects.setter.)"""
    box = Box()
    V = E.reals(name + 'v', (3, 3))
    o = E.reals(name + 'o', (3,))
    if lammps:
        for (i, j) in ((0, 1), (0, 2), (1, 2)):
            V[i, j] = realconst(0)
        E.assume(V[0, 0] > 0)
        E.assume(V[1, 1] > 0)
        E.assume(V[2, 2] > 0)
    elif righthanded:
        E.assume(det3(V) > 0)
    elif nonzero_det:
        E.assume(det3(V) != 0)
    box._Box__vects = V
    box._Box__origin = o
    box._Box__reciprocal_vects = None
    return box, V, o


def file_sha(loader):
    return dict(loader.files)


def to_float(x):
    """numeric value of a closed symbolic term (constants + opaque functions of constants), or of a Python number"""
    if isinstance(x, Sym):
        return float(tm.evaluate(x.t, {}))
    return float(x)


def to_float_array(a):
    a = _np.asarray(a, dtype=object)
    out = _np.empty(a.shape, dtype=float)
    for idx in _np.ndindex(*a.shape):
        out[idx] = to_float(a[idx])
    return out
