"""C09 — Unit conversion is invertible, precedence-correct and working-unit independent.

Contracts on atomman/unitconvert.py and atomman/lammps/style.py.  numericalunits is re-instantiated from its own installed source
with SYMBOLIC positive base units (m, kg, s, C, K), so one symbolic run covers every working-unit configuration and every seed.
"""
from fractions import Fraction
import itertools
import os
import random as _random

import numpy as _np

from pyvc.runner import group, REPO
from pyvc import symnp as snp, terms as tm, poly
from pyvc.sym import Sym, realconst
from .common import And, Or, Not, Implies, Iff, sym_abs

LEVEL = 'proof'
EXPLANATION = ("The real unitconvert source is executed with the base units of numericalunits as positive real SYMBOLS (every derived unit is the "
               "monomial that numericalunits' own source computes from them), so each obligation holds for every working-unit configuration and every "
               "random seed at once. Round trips and working-unit independence are rational-function identities decided by the normaliser; parse() is "
               "compared with an independent recursive-descent evaluator (ordinary precedence) on every expression string of a stated grammar bound "
               "(values symbolic, strings enumerated); reset_units(**names) is executed exactly (rationals + sqrt) for every non-over-determined choice "
               "of the enumerated unit names; LAMMPS style tables are checked by reading the exponent vector of each entry off its normal form.")
ASSUMPTIONS = [
    "numericalunits: its installed source text is executed (set_derived_units_and_constants) on symbolic base units; reset_units(seed) is modelled as 'five arbitrary positive reals', reset_units('SI') as all ones",
    "expression strings are enumerated up to a stated grammar bound (depth 2, <= 7 tokens; seed-selected subset in quick mode): bounded in the string, unbounded in values and working units",
    "over-determined choice {length, mass, time, energy} is outside the property's quantifier and is not checked",
]
UNCOVERED = ["IEEE rounding ('numerical value one to rounding' is proved as exactly one over the reals)", "unit expressions beyond the grammar bound"]

UCF = 'atomman/unitconvert.py'
STYLEF = 'atomman/lammps/style.py'
BASE = ('m', 'kg', 's', 'C', 'K')


def _nu_path():
    import numericalunits
    return numericalunits.__file__


def load_uc(E, L, mode='symbolic'):
    """unitconvert re-instantiated over a re-instantiated numericalunits whose base units are symbols"""
    nu = L.load_file('numericalunits', _nu_path())
    state = {'n': 0}

    def reset_units(seed=None):
        if seed == 'SI':
            for b in BASE:
                setattr(nu, b, realconst(1))
        else:
            state['n'] += 1
            for b in BASE:
                v = E.real('%s%s' % (b, '' if state['n'] == 1 else "'%d" % state['n']))
                E.assume(v > 0)
                setattr(nu, b, v)
        nu.set_derived_units_and_constants()
    nu.reset_units = reset_units
    L.overrides['numericalunits'] = nu
    uc = L.load(UCF)
    return uc, nu


# ----------------------------------------------------------------------------
# independent evaluator of unit expressions (ordinary precedence)

def tokenize(s):
    toks = []
    i = 0
    while i < len(s):
        ch = s[i]
        if ch in ' \t\n\r':
            i += 1
        elif ch in '()*/^':
            toks.append(ch)
            i += 1
        else:
            j = i
            while j < len(s) and s[j] not in ' \t\n\r()*/^':
                j += 1
            toks.append(s[i:j])
            i = j
    return toks


def spec_eval(s, units):
    """expr := term (('*'|'/') term)* ; term := atom ('^' atom)? ; atom := name | number | '(' expr ')'"""
    toks = tokenize(s)
    pos = [0]

    def atom():
        t = toks[pos[0]]
        pos[0] += 1
        if t == '(':
            v = expr()
            assert toks[pos[0]] == ')'
            pos[0] += 1
            return v
        if t[0].isalpha():
            return units[t]
        return realconst(Fraction(t))

    def term():
        v = atom()
        if pos[0] < len(toks) and toks[pos[0]] == '^':
            pos[0] += 1
            e = atom()
            ev = e.value() if isinstance(e, Sym) else Fraction(e)
            assert Fraction(ev).denominator == 1
            n = int(ev)
            r = realconst(1)
            for _ in range(abs(n)):
                r = r * v
            v = r if n >= 0 else 1 / r
        return v

    def expr():
        v = term()
        while pos[0] < len(toks) and toks[pos[0]] in '*/':
            op = toks[pos[0]]
            pos[0] += 1
            w = term()
            v = v * w if op == '*' else v / w
        return v
    v = expr()
    assert pos[0] == len(toks)
    return v


def spec_eval_float(s, units):
    class F(float):
        def value(self):
            return Fraction(float(self))
    import pyvc.sym as _s
    saved = globals()['realconst']
    globals()['realconst'] = lambda q: float(Fraction(q))
    try:
        return spec_eval_plain(s, units)
    finally:
        globals()['realconst'] = saved


def spec_eval_plain(s, units):
    toks = tokenize(s)
    pos = [0]

    def atom():
        t = toks[pos[0]]
        pos[0] += 1
        if t == '(':
            v = expr()
            pos[0] += 1
            return v
        if t[0].isalpha():
            return float(units[t])
        return float(Fraction(t))

    def term():
        v = atom()
        if pos[0] < len(toks) and toks[pos[0]] == '^':
            pos[0] += 1
            v = v ** atom()
        return v

    def expr():
        v = term()
        while pos[0] < len(toks) and toks[pos[0]] in '*/':
            op = toks[pos[0]]
            pos[0] += 1
            w = term()
            v = v * w if op == '*' else v / w
        return v
    return expr()


NAMES = ['m', 'kg', 's', 'eV', 'angstrom', 'ps', 'GPa', 'amu', 'J', 'C', 'K', 'nm', 'g', 'mol', 'fs', 'bar', 'e', 'N', 'Pa', 'hbar', 'c0']
NUMS = ['2', '10', '0.5', '1e-3', '1e-21']
EXPS = ['2', '3', '-1', '-2']


def gen_expressions(rnd, limit):
    """all strings of the grammar up to depth 2 / 7 tokens are too many to list: deterministic enumeration of shapes,
    names drawn round-robin; whitespace variants included"""
    out = []
    atoms = NAMES + NUMS
    shapes = ['A', 'A*A', 'A/A', 'A^X', 'A*A/A', 'A/A*A', 'A/A/A', 'A*A^X', 'A^X/A', 'A/A^X*A', '(A*A)/A', 'A/(A*A)', 'A/(A*A)^X', '(A/A)^X*A',
              'A*(A/A)', 'A/(A/A)', '((A*A)/A)*A', 'A*A*A/A/A', 'A/A*A/A', '(A)', '(A^X)*A', 'A/(A^X)', 'N*A/A', 'N/A*A*A', 'A^X*A^X', 'A / A * A', ' A*A ', 'A\t/\tA^X',
              'A/(A*(A/A))', 'A^(X)', '(A*A)^X/(A/A)']
    k = 0
    while len(out) < limit:
        shape = shapes[k % len(shapes)]
        s = ''
        for ch in shape:
            if ch == 'A':
                s += rnd.choice(NAMES) if rnd.random() < 0.8 else rnd.choice(NUMS)
            elif ch == 'N':
                s += rnd.choice(NUMS)
            elif ch == 'X':
                s += rnd.choice(EXPS)
            else:
                s += ch
        if s not in out:
            out.append(s)
        k += 1
        if k > limit * 20:
            break
    return out


# ----------------------------------------------------------------------------
# replay

def _replay_uc(stem, vals):
    from pyvc.native import atomman
    import numpy as np
    am = atomman()
    uc = am.unitconvert
    msgs = []
    want_rt = stem.startswith(('roundtrip', 'parse.positive', 'set_in_units'))
    want_prec = stem.startswith('parse.')
    want_ind = stem.startswith(('independence', 'reset.'))
    want_reset = stem.startswith('reset_units')
    try:
        uc.reset_units()
        for u in ('eV', 'GPa', 'eV/angstrom^3', 'kg*m/s^2', 'kg/s*m', 'amu*angstrom^2/ps^2', 'J/(mol*K)'):
            v = np.array([1.5, -2.0, 3.25])
            if want_rt and not np.allclose(uc.get_in_units(uc.set_in_units(v, u), u), v, rtol=1e-12):
                msgs.append('get_in_units(set_in_units(v, %r), %r) != v' % (u, u))
        import numericalunits as nu
        checks = [('kg*m/s', nu.kg * nu.m / nu.s), ('kg/s*m', nu.kg / nu.s * nu.m), ('m/s/s', nu.m / nu.s / nu.s), ('m/s^2*kg', nu.m / nu.s ** 2 * nu.kg),
                  ('2*m^2/(s*kg)', 2 * nu.m ** 2 / (nu.s * nu.kg)), ('m^-1', 1 / nu.m), ('(m/s)^2', (nu.m / nu.s) ** 2)]
        for s, want in checks:
            got = uc.parse(s)
            if want_prec and not np.isclose(got, want, rtol=1e-12):
                msgs.append('parse(%r) = %r, ordinary precedence gives %r' % (s, got, want))
        if want_prec:
            for name in sorted(k for k in uc.unit if isinstance(k, str) and k and not any(ch in k for ch in ' ()*/^')):
                try:
                    got = uc.parse(name)
                    if not np.isclose(got, uc.unit[name], rtol=1e-12, atol=0):
                        msgs.append('parse(%r) = %r but the unit table holds %r' % (name, got, uc.unit[name]))
                except Exception as e:
                    msgs.append('parse(%r) raised %s: %s' % (name, type(e).__name__, e))
        if stem.startswith('parse.precedence') and '[' in stem:
            expr = stem[stem.index('[') + 1:stem.rindex(']')]
            if stem.startswith('parse.precedence.seeded['):
                seed_ = int(os.environ.get('VERIF_SEED', '0') or 0)
                tier_ = os.environ.get('VERIF_TIER', 'quick')
                expr = gen_expressions(_random.Random(1000 + seed_), 400 if tier_ != 'thorough' else 4000)[int(expr)]
            try:
                got = uc.parse(expr)
                want = float(spec_eval_float(expr, uc.unit))
                if not np.isclose(got, want, rtol=1e-12):
                    msgs.append('parse(%r) = %r, ordinary precedence gives %r' % (expr, got, want))
            except Exception as e:
                msgs.append('parse(%r) raised %s: %s' % (expr, type(e).__name__, e))
        if want_reset and '[' in stem:
            spec = stem[stem.index('[') + 1:stem.index(']')]
            kw = dict(kv.split('=') for kv in spec.split(','))
            uc.reset_units(**kw)
            for name in kw.values():
                if not np.isclose(uc.unit[name], 1.0, rtol=1e-9):
                    msgs.append('after reset_units(%s): unit[%r] = %r (should be 1)' % (', '.join('%s=%r' % kv for kv in kw.items()), name, uc.unit[name]))
            uc.reset_units()
        for seed in (1, 2):
            uc.reset_units(seed=seed)
            a = uc.get_in_units(uc.set_in_units(1.0, 'eV'), 'J')
            if want_ind and not np.isclose(a, 1.602176634e-19, rtol=1e-6, atol=0.0):
                msgs.append('1 eV in J under seed %d = %r' % (seed, a))
        for kw in (dict(length='angstrom', mass='amu', energy='eV', charge='e'), dict(mass='amu', time='ps', energy='eV'), dict(length='nm', time='ps', energy='eV'),
                   dict(length='angstrom', energy='eV'), dict(length='angstrom', mass='amu', time='ps')):
            uc.reset_units(**kw)
            for name in kw.values():
                if want_reset and not np.isclose(uc.unit[name], 1.0, rtol=1e-9):
                    msgs.append('after reset_units(%s): unit[%r] = %r (should be 1)' % (', '.join('%s=%r' % kv for kv in kw.items()), name, uc.unit[name]))
        # a re-seed leaves no stale state: names parsed before are evaluated with the new table; fresh expressions convert correctly
        uc.reset_units(seed=4)
        uc.parse('eV')
        uc.parse('eV/angstrom')
        for sd in (5, None, 'SI', 6):
            uc.reset_units(**({} if sd is None else {'seed': sd}))
            if not np.isclose(uc.parse('eV'), uc.unit['eV'], rtol=1e-12, atol=0.0):
                msgs.append("after reset_units(seed=%r): parse('eV') = %r but unit['eV'] = %r" % (sd, uc.parse('eV'), uc.unit['eV']))
            got = uc.get_in_units(uc.set_in_units(1.0, 'eV/angstrom'), 'kg*m/s^2')
            if not np.isclose(got, 1.602176634e-9, rtol=1e-9, atol=0.0):
                msgs.append('after reset_units(seed=%r): 1 eV/angstrom = %r kg*m/s^2 (expected 1.602176634e-09)' % (sd, got))
        # dimension of every mechanical entry of the LAMMPS unit styles: the value in SI units must not depend on the working units
        if stem.startswith('style['):
            only = (stem[stem.index('[') + 1:stem.index(']')], stem[stem.rindex('[') + 1:stem.rindex(']')])          # (unit style, quantity) of the failed obligation
            vals_by_seed = []
            for sd in (11, 12):
                uc.reset_units(seed=sd)
                row = {}
                for st in ('real', 'metal', 'si', 'cgs', 'electron', 'micro', 'nano'):
                    for q, expr in am.lammps.style.unit(st).items():
                        if expr is None:
                            continue
                        dims = {'length': 'm', 'mass': 'kg', 'time': 's', 'energy': 'J', 'velocity': 'm/s', 'force': 'N', 'torque': 'N*m', 'temperature': 'K', 'pressure': 'Pa',
                                'dynamic viscosity': 'Pa*s', 'charge': 'C', 'dipole': 'C*m', 'electric field': 'V/m', 'density': 'kg/m^3', 'ang-mom': 'kg*m^2/s', 'ang-vel': '1/s'}
                        if q in dims and (st, q) == only:
                            row[(st, q)] = uc.get_in_units(uc.parse(expr), dims[q])
                vals_by_seed.append(row)
            for key in vals_by_seed[0]:
                a_, b_ = vals_by_seed[0][key], vals_by_seed[1][key]
                if not np.isclose(a_, b_, rtol=1e-9, atol=0.0):
                    msgs.append('LAMMPS style %r: %r does not have the dimension of %s (its value in SI units changes with the working units: %r vs %r)' % (key[0], key[1], key[1], a_, b_))
    except Exception as e:
        msgs.append('raised %s: %s' % (type(e).__name__, e))
    finally:
        try:
            uc.reset_units(length='angstrom', mass='amu', energy='eV', charge='e')
        except Exception:
            pass
    return (len(msgs) > 0, '; '.join(msgs[:5]) if msgs else 'float replay of round trips, precedence, seeds and named working units found no disagreement')


# ----------------------------------------------------------------------------

@group('uc.roundtrip', files=[UCF], functions=['unitconvert.set_in_units', 'unitconvert.get_in_units', 'unitconvert.parse', 'unitconvert.build_unit'],
       clause='converting a value into working units and back with the same unit expression is the identity (scalars and arrays, every working-unit configuration); parse(None) = parse("scaled") = 1',
       replay=_replay_uc)
def roundtrip(E, L):
    uc, nu = load_uc(E, L)
    v = E.real('v')
    arr = E.reals('a', (2, 3))
    for u in ('eV', 'GPa', 'eV/angstrom^3', 'kg*m/s^2', 'amu*angstrom^2/ps^2', 'J/(mol*K)', '1e-21/c0*C*m', '(m/s)^2', 'm^-1'):
        w = uc.set_in_units(v, u)
        E.prove('roundtrip.scalar[%s]' % u, uc.get_in_units(w, u) == v)
        E.prove('roundtrip.converse[%s]' % u, uc.set_in_units(uc.get_in_units(v, u), u) == v)
        wa = uc.set_in_units(arr, u)
        E.prove('roundtrip.array.shape[%s]' % u, wa.shape == (2, 3))
        E.prove_eq('roundtrip.array[%s]' % u, uc.get_in_units(wa, u), arr)
        E.prove('parse.positive[%s]' % u, uc.parse(u) > 0)
    E.prove('parse.None_is_one', uc.parse(None) == 1 and uc.parse('scaled') == 1)
    E.prove('set_in_units.None_is_identity', uc.set_in_units(v, None) == v)
    E.prove('parse.number_passthrough', uc.parse(v) is v)
    E.prove('build_unit.has_base_and_derived', all(k in uc.unit for k in ('m', 'kg', 's', 'C', 'K', 'eV', 'angstrom', 'GPa', 'amu')))
    E.canary('roundtrip.canary', uc.set_in_units(v, 'eV') == v)


@group('uc.parse.precedence', files=[UCF], functions=['unitconvert.parse'],
       clause='a unit expression is evaluated with ordinary precedence (parentheses, powers, then * and / left to right) over unit names and numeric literals, with arbitrary whitespace; malformed strings raise ValueError',
       replay=_replay_uc, timeout_ms=20000)
def parse_precedence(E, L):
    uc, nu = load_uc(E, L)
    rnd = _random.Random(1000 + getattr(E, 'seed', 0))
    n = 400 if E.tier == 'quick' else 4000
    fixed = ['kg*m/s', 'kg/s*m', 'm/s/s', 'm/s^2*kg', 'angstrom*angstrom/fs*g/mol', '1e-21/c0*C*m', '2*Ry*aBohr/hbar', 'kcal/(mol*angstrom)', 'Pa*s/10', 'pg/(um*us^2)',
             '1e-18*g*nm^2/ns^2', '10*c0*C*cm', 'm^2/s^2', '(m/s)^2', 'm^-1', ' eV / angstrom ^ 3 ', '((m))', 'm/(s*(kg/N))']
    generated = gen_expressions(rnd, n)
    E.side_enabled = False      # unit values are positive (assumed at reset); numeric literals are non-zero by construction
    # obligation names: the fixed expressions by their text; the seed-selected ones by their position (the text depends on VERIF_SEED and is recorded in the notes / replay)
    for nm, s in [('parse.precedence[%s]' % s, s) for s in fixed] + [('parse.precedence.seeded[%d]' % k, s) for k, s in enumerate(generated)]:
        try:
            got = uc.parse(s)
        except Exception as e:
            E.prove(nm.replace('precedence', 'accepts'), False)
            E.note('parse(%r) raised %s: %s' % (s, type(e).__name__, e))
            continue
        want = spec_eval(s, uc.unit)
        E.prove(nm, got == want)
    # every name of the unit table, alone and inside a product, means its table entry (names that end in digits -- g0, c0, mu0, eps0, ... -- included)
    for name in sorted(uc.unit):
        if not isinstance(name, str) or not name or any(ch in name for ch in ' ()*/^'):
            continue
        try:
            E.prove('parse.name_is_its_table_entry[%s]' % name, uc.parse(name) == uc.unit[name])
            E.prove('parse.name_in_product[%s]' % name, uc.parse('kg*' + name + '/s') == uc.unit['kg'] * uc.unit[name] / uc.unit['s'])
        except Exception as e:
            E.prove('parse.accepts_name[%s]' % name, False)
            E.note('parse(%r) raised %s: %s' % (name, type(e).__name__, e))
    for bad in ('(m', 'm)', 'm*/s', 'm $ s'):
        try:
            uc.parse(bad)
            E.prove('parse.refuses[%s]' % bad, False)
        except (ValueError, KeyError, IndexError, TypeError):
            E.prove('parse.refuses[%s]' % bad, True)
    E.canary('parse.precedence.canary', uc.parse('kg/s*m') == uc.parse('kg/(s*m)'))


@group('uc.working_unit_independence', files=[UCF], functions=['unitconvert.set_in_units', 'unitconvert.get_in_units', 'unitconvert.reset_units'],
       clause='a conversion between two expressions of the same physical dimension yields the same number whichever working units are in force (symbolic base units = every configuration and seed)',
       replay=_replay_uc)
def independence(E, L):
    uc, nu = load_uc(E, L)
    pairs = [('eV', 'J'), ('angstrom', 'nm'), ('GPa', 'eV/angstrom^3'), ('amu*angstrom^2/ps^2', 'eV'), ('kcal/mol', 'eV'), ('bar', 'Pa'), ('g/cm^3', 'amu/angstrom^3'),
             ('angstrom/ps', 'm/s'), ('eV/angstrom', 'N'), ('e', 'C'), ('V/angstrom', 'N/C'), ('hbar', 'J*s'), ('kB*K', 'eV'), ('2*Ry', 'Hartree')]
    v = E.real('v')
    E.side_enabled = False
    for a, b in pairs:
        conv = uc.get_in_units(uc.set_in_units(v, a), b)        # v in units a expressed in units b
        env = {bname: Fraction(1) for bname in BASE}
        c = Fraction(tm.evaluate(uc.parse(a).t, env)) / Fraction(tm.evaluate(uc.parse(b).t, env))      # the SI number
        E.prove('independence.conversion_is_the_SI_number[%s->%s]' % (a, b), conv == v * realconst(c))
    # a second reset (another seed) gives other base symbols: same numbers
    r1 = uc.parse('eV') / uc.parse('J')
    uc.reset_units(seed=7)
    r2 = uc.parse('eV') / uc.parse('J')
    E.prove('independence.across_resets', r1 == r2)
    # after a re-seed every expression is evaluated with the NEW unit table, also expressions that were parsed before the re-seed (no stale state of any kind)
    seen_before = ['eV', 'J', 'eV/angstrom', 'GPa', 'amu*angstrom^2/ps^2', 'kcal/mol', 'N']
    for k_, how in enumerate((dict(seed=5), dict(), dict(seed='SI'), dict(seed=9))):
        uc.reset_units(**how)
        for name in seen_before + ['N/C', 'Pa*s']:
            E.prove('parse.uses_current_units_after_reseed[%d][%s]' % (k_, name), uc.parse(name) == spec_eval(name, uc.unit))
        if how.get('seed') == 'SI':
            for name in ('m', 'kg', 's', 'C', 'K', 'J', 'N', 'Pa', 'kg*m/s^2', 'J/m^3'):
                E.prove('parse.SI_expression_is_one_under_SI_seed[%s]' % name, uc.parse(name) == 1)
        v2 = E.real('v_after%d' % k_)
        E.prove('independence.fresh_pair_after_reseed[%d]' % k_, uc.get_in_units(uc.set_in_units(v2, 'eV/angstrom'), 'N') * realconst(Fraction(10 ** 19, 1)) == v2 * realconst(Fraction('1.602176634') * 10 ** 10))
    E.prove('reset.changes_working_units', uc.unit['m'] is not None and str(uc.unit['m']) != 'Sym(m)')
    try:
        uc.reset_units(seed=3, length='nm')
        E.prove('reset.refuses_seed_with_names', False)
    except ValueError:
        E.prove('reset.refuses_seed_with_names', True)
    E.canary('independence.canary', uc.parse('eV') == uc.parse('J'))


DIM_NAMES = {'length': ['angstrom', 'nm', 'm', 'cm'], 'mass': ['amu', 'g', 'kg'], 'time': ['ps', 'fs', 's'], 'energy': ['eV', 'J', 'kcal'], 'charge': ['e', 'C']}


def _reset_group(dims):
    tag = '+'.join(dims)

    @group('uc.reset_units[%s]' % tag, files=[UCF], functions=['unitconvert.reset_units'],
           clause='after working units are chosen by name for (%s), each chosen unit has the numerical value one; every enumerated choice of names' % tag,
           replay=_replay_uc, timeout_ms=20000)
    def h_(E, L):
        uc, nu = load_uc(E, L)
        for names in itertools.product(*[DIM_NAMES[d] for d in dims]):
            kw = dict(zip(dims, names))
            uc.reset_units(**kw)
            for d, nm in kw.items():
                E.prove('reset_units[%s].%s=%s.is_one' % (','.join('%s=%s' % kv for kv in kw.items()), d, nm), uc.unit[nm] == 1)
            # still self-consistent: 1 eV is the same number of joules
            E.prove('reset_units[%s].consistent' % ','.join('%s=%s' % kv for kv in kw.items()), uc.unit['J'] == uc.unit['kg'] * uc.unit['m'] ** 2 / uc.unit['s'] ** 2)
        x = E.real('x')
        E.canary('reset_units.canary[%s]' % tag, x == 1)
    return h_


_ALLDIMS = ['length', 'mass', 'time', 'energy', 'charge']
for _k in (1, 2, 3, 4):
    for _dims in itertools.combinations(_ALLDIMS, _k):
        if set(_dims) == {'length', 'mass', 'time', 'energy'}:
            continue            # over-determined: outside the quantifier
        _reset_group(_dims)


@group('uc.reset_units.refusal', files=[UCF], functions=['unitconvert.reset_units'], clause='more than four named working units are refused', replay=_replay_uc)
def reset_refusal(E, L):
    uc, nu = load_uc(E, L)
    try:
        uc.reset_units(length='nm', mass='g', time='s', energy='J', charge='C')
        E.prove('reset_units.refuses_five', False)
    except ValueError:
        E.prove('reset_units.refuses_five', True)
    x = E.real('x')
    E.canary('reset_units.refusal.canary', x == 1)


# exponent vectors (m, kg, s, C, K) of the mechanical quantities
DIMS = {'mass': (0, 1, 0, 0, 0), 'length': (1, 0, 0, 0, 0), 'time': (0, 0, 1, 0, 0), 'energy': (2, 1, -2, 0, 0), 'velocity': (1, 0, -1, 0, 0), 'force': (1, 1, -2, 0, 0),
        'torque': (2, 1, -2, 0, 0), 'temperature': (0, 0, 0, 0, 1), 'pressure': (-1, 1, -2, 0, 0), 'dynamic viscosity': (-1, 1, -1, 0, 0), 'density': (-3, 1, 0, 0, 0),
        'ang-mom': (2, 1, -1, 0, 0), 'ang-vel': (0, 0, -1, 0, 0)}
STYLES = ['real', 'metal', 'si', 'cgs', 'electron', 'micro', 'nano']


def exponents(t, base_terms):
    """exponent vector of a term that normalises to (constant) * monomial in the base symbols; None otherwise"""
    n, d = poly.ratfun(t)
    if len(n) != 1 or len(d) != 1:
        return None
    (mn, cn), = n.items()
    (md, cd), = d.items()
    ex = {}
    for (u, e) in mn:
        ex[u] = ex.get(u, 0) + e
    for (u, e) in md:
        ex[u] = ex.get(u, 0) - e
    vec = []
    for b in base_terms:
        vec.append(ex.pop(b.uid, 0))
    if any(v != 0 for v in ex.values()):
        return None
    return tuple(vec)


@group('lammps.style.dimensions', files=[STYLEF, UCF], functions=['lammps.style.unit', 'unitconvert.parse'],
       clause='every mechanical LAMMPS unit-style table entry (7 styles) has the dimension of the quantity it labels, including the derived ang-mom and ang-vel; unknown styles are refused',
       replay=_replay_uc)
def style_dimensions(E, L):
    uc, nu = load_uc(E, L)
    style = L.load(STYLEF)
    base = [getattr(nu, b).t for b in BASE]
    E.side_enabled = False
    for st in STYLES:
        table = style.unit(st)
        for q, dim in DIMS.items():
            if q not in table:
                E.prove('style[%s].has[%s]' % (st, q), q == 'dynamic viscosity' or q == 'density')     # electron style has no viscosity/density entry in LAMMPS either
                continue
            val = uc.parse(table[q])
            got = exponents(val.t, base)
            E.prove('style[%s].dimension[%s]' % (st, q), got == dim)
    lj = style.unit('lj')
    E.prove('style[lj].unitless', all(lj[q] is None for q in ('mass', 'length', 'time', 'energy')))
    try:
        style.unit('nonsense')
        E.prove('style.refuses_unknown', False)
    except ValueError:
        E.prove('style.refuses_unknown', True)
    x = E.real('x')
    E.canary('style.canary', x == 1)
