"""C18 — Gamma surface periodic, interpolating; Peierls-Nabarro energies match formulas."""
import hashlib
import itertools
import os
from fractions import Fraction

import numpy as _np

from pyvc.runner import group, REPO
from pyvc import symnp as snp, terms as tm, poly
from pyvc.sym import Sym, realconst
from pyvc.diff import D
from .common import det3, dot3, cross3, And, Or, Not, Implies, Iff, sym_abs

LEVEL = 'other'
EXPLANATION = ("Proved on the real source with symbolic data: the gamma-surface coordinate conversions (fractional <-> Cartesian <-> plotting) are mutual inverses for in-plane vectors in any "
               "cell (symbolic cell vectors and shift vectors; rational identities with sqrt atoms); every Peierls-Nabarro energy term equals an independent evaluation of its documented "
               "formula for symbolic uniform grids (N = 5, 6, 8), symbolic disregistry, energy-coefficient tensor, stress, alpha, beta and both finite-difference options; the total is "
               "the sum of the terms; the elastic term is a symmetric quadratic form of the dislocation density and is unchanged by a rigid shift of the disregistry; the arctangent "
               "dislocation density is the derivative of the arctangent disregistry (term differentiator). Interpolation (scipy Rbf), solving (scipy minimize) and the half-width clause are "
               "outside the verifier's reach and are labelled bounded contract checks.")
ASSUMPTIONS = ["SDVPN energy terms: grid sizes N in {5, 6, 8} enumerated, values symbolic", "scipy Rbf / NearestNDInterpolator / minimize: nothing assumed; dependent clauses bounded"]
UNCOVERED = ["interpolation and minimisation outside the bounded family"]

GSF = 'atomman/defect/GammaSurface.py'
PNF = 'atomman/defect/SDVPN.py'
ARCT = 'atomman/defect/pn_arctan_disregistry.py'
ARCD = 'atomman/defect/pn_arctan_disldensity.py'


def _replay(stem, vals):
    from pyvc.native import atomman
    import numpy as np
    am = atomman()
    msgs = []
    try:
        box = am.Box(vects=[[4.0, 0.3, -0.2], [0.5, 3.5, 0.1], [-0.7, 0.4, 5.0]])
        a1 = np.linspace(0, 1, 6)
        A1, A2 = np.meshgrid(a1, a1)
        Eg = np.sin(np.pi * A1.ravel()) ** 2 + 0.5 * np.sin(np.pi * A2.ravel()) ** 2
        g = am.defect.GammaSurface(a1vect=[1, 0, 1], a2vect=[0, 1, 0], a1=A1.ravel(), a2=A2.ravel(), E_gsf=Eg, box=box)
        for (p, q) in ((0.2, 0.7), (1.3, -0.4)):
            pos = g.a12_to_pos(p, q)
            b1, b2 = g.pos_to_a12(pos[0])
            if not np.allclose([b1, b2], [p, q], atol=1e-9):
                msgs.append('pos_to_a12(a12_to_pos(%r,%r)) = %r' % (p, q, (b1, b2)))
            x, y = g.pos_to_xy(pos[0])
            back = g.xy_to_pos(x, y)
            if not np.allclose(back[0], pos[0], atol=1e-9):
                msgs.append('xy_to_pos(pos_to_xy(pos)) != pos (max %g)' % abs(back[0] - pos[0]).max())
        many = g.a12_to_pos(np.array([0.1, 0.4, 0.9]), np.array([0.3, 0.6, 0.2]))
        try:
            m1, m2 = g.pos_to_a12(many)
            if not np.allclose(m1, [0.1, 0.4, 0.9]) or not np.allclose(m2, [0.3, 0.6, 0.2]):
                msgs.append('pos_to_a12 of several positions gives %r %r' % (m1.tolist(), m2.tolist()))
        except Exception as e:
            msgs.append('pos_to_a12 of an (N,3) array of positions raised %s: %s' % (type(e).__name__, e))
    except Exception as e:
        msgs.append('raised %s: %s' % (type(e).__name__, e))
    return (len(msgs) > 0, '; '.join(msgs[:3]) if msgs else 'float replay of the gamma-surface conversions found no disagreement')


CELLS = {'cubic': [[3.6, 0, 0], [0, 3.6, 0], [0, 0, 3.6]], 'triclinic': [[4.0, 0.3, -0.2], [0.5, 3.5, 0.1], [-0.7, 0.4, 5.0]], 'hexagonal': [[3.2, 0, 0], [-1.6, 2.771281292110204, 0], [0, 0, 5.2]]}
SHIFTS = {'rect': ([1, 0, 0], [0, 1, 0]), 'oblique': ([1, 0, 1], [0, 1, 0]), 'oblique2': ([1, 1, 0], [0, 0, 1])}


@group('gamma.set.planenormal', files=[GSF], functions=['GammaSurface.set'],
       clause='for any cell and any two crystal shift vectors the stored plane normal is the unit vector perpendicular to both Cartesian shift vectors',
       replay=_replay, timeout_ms=30000)
def gamma_set(E, L):
    mod = L.load(GSF)
    core = L.resolve('atomman.core')
    Box = core.Box
    V = E.reals('V', (3, 3))
    E.assume(det3(V) != 0)
    box = Box()
    box._Box__vects = V
    box._Box__origin = snp.zeros(3)
    box._Box__reciprocal_vects = None
    a1v, a2v = E.reals('u', (3,)), E.reals('w', (3,))
    A1 = [a1v[0] * V[0, j] + a1v[1] * V[1, j] + a1v[2] * V[2, j] for j in range(3)]
    A2 = [a2v[0] * V[0, j] + a2v[1] * V[1, j] + a2v[2] * V[2, j] for j in range(3)]
    c = cross3(A1, A2)
    E.assume(Or(c[0] != 0, c[1] != 0, c[2] != 0))
    g = object.__new__(mod.GammaSurface)
    g.fit = lambda: None                 # scipy interpolation is outside the fragment (bounded group)
    E.side_enabled = False
    g.set(a1v, a2v, [0.0, 0.5], [0.0, 0.5], [0.0, 1.0], box=box)
    n = g.planenormal
    E.prove('set.planenormal.unit', dot3(n, n) == 1)
    E.prove('set.planenormal.perpendicular_to_first_shift_vector', dot3(n, A1) == 0)
    E.prove('set.planenormal.perpendicular_to_second_shift_vector', dot3(n, A2) == 0)
    nrm = snp.sqrt(dot3(c, c))
    for j in range(3):
        E.prove('set.planenormal.is_normalised_cross_product[%d]' % j, n[j] * nrm == c[j])
    E.canary('gamma.set.canary', a1v[0] == 0)


def _coords_group(cname, sname):
    @group('gamma.coordinates[%s,%s]' % (cname, sname), files=[GSF], functions=['GammaSurface.a12_to_pos', 'GammaSurface.pos_to_a12', 'GammaSurface.pos_to_xy', 'GammaSurface.xy_to_pos',
                                                                               'GammaSurface.a12_to_xy', 'GammaSurface.xy_to_a12'],
           clause='%s cell, shift vectors %s: fractional, Cartesian and plotting coordinates are interchangeable for every in-plane position (symbolic coordinates): the conversions are mutual '
                  'inverses and the plotting frame is orthonormal with x along the first shift vector' % (cname, SHIFTS[sname]), replay=_replay, timeout_ms=30000)
    def h_(E, L):
        mod = L.load(GSF)
        core = L.resolve('atomman.core')
        box = core.Box(vects=CELLS[cname])
        g = object.__new__(mod.GammaSurface)
        g.fit = lambda: None
        a1v, a2v = SHIFTS[sname]
        E.side_enabled = False
        g.set(a1v, a2v, [0.0, 0.5], [0.0, 0.5], [0.0, 1.0], box=box)
        V = box._Box__vects
        A1 = [Sym(tm.to_real(_t(sum(a1v[i] * V[i, j] for i in range(3))))) for j in range(3)]
        A2 = [Sym(tm.to_real(_t(sum(a2v[i] * V[i, j] for i in range(3))))) for j in range(3)]
        p, q = E.real('p'), E.real('q')
        pos = g.a12_to_pos(p, q)
        E.prove('a12_to_pos.shape', pos.shape == (1, 3))
        for j in range(3):
            E.prove('a12_to_pos.post[%d]' % j, pos[0, j] == p * A1[j] + q * A2[j])
        b1, b2 = g.pos_to_a12(pos[0])
        E.prove('pos_to_a12(a12_to_pos).identity', And(b1 == p, b2 == q))
        x, y = g.pos_to_xy(pos[0])
        n1 = snp.sqrt(dot3(A1, A1))
        E.prove('pos_to_xy.x_is_component_along_first_shift_vector', x * n1 == dot3(pos[0], A1))
        E.prove('pos_to_xy.preserves_length', x * x + y * y == dot3(pos[0], pos[0]))
        back = g.xy_to_pos(x, y)
        for j in range(3):
            E.prove('xy_to_pos(pos_to_xy).identity[%d]' % j, back[0, j] == pos[0, j])
        xs, ys = E.real('xs'), E.real('ys')
        P = g.xy_to_pos(xs, ys)
        E.prove('xy_to_pos.in_plane', dot3(P[0], g.planenormal) == 0)
        x2, y2 = g.pos_to_xy(P[0])
        E.prove('pos_to_xy(xy_to_pos).identity', And(x2 == xs, y2 == ys))
        E.canary('gamma.coordinates.canary[%s,%s]' % (cname, sname), p == 0)
    return h_


def _override_group(cname, sname):
    @group('gamma.coordinates.override[%s,%s]' % (cname, sname), files=[GSF], functions=['GammaSurface.a12_to_xy', 'GammaSurface.xy_to_a12', 'GammaSurface.a12_to_pos'],
           clause='%s cell, stored shift vectors %s: with OVERRIDING in-plane vectors a1vect, a2vect (not parallel to the stored first vector) fractional and plotting coordinates stay '
                  'mutual inverses, the position is a1 U1 + a2 U2, the plotting map preserves lengths and puts x along the given first vector' % (cname, SHIFTS[sname]),
           replay=_replay, timeout_ms=30000)
    def h_(E, L):
        mod = L.load(GSF)
        core = L.resolve('atomman.core')
        box = core.Box(vects=CELLS[cname])
        g = object.__new__(mod.GammaSurface)
        g.fit = lambda: None
        a1v, a2v = SHIFTS[sname]
        E.side_enabled = False
        g.set(a1v, a2v, [0.0, 0.5], [0.0, 0.5], [0.0, 1.0], box=box)
        V = box._Box__vects
        p, q = E.real('p'), E.real('q')
        E.canary('gamma.coordinates.override.canary[%s,%s]' % (cname, sname), p == q)
        for tagv, kwv in (('sum_and_second', dict(a1vect=[a1v[i] + a2v[i] for i in range(3)], a2vect=list(a2v))), ('swapped', dict(a1vect=list(a2v), a2vect=list(a1v)))):
            xa, ya = g.a12_to_xy(p, q, **kwv)
            c1, c2 = g.xy_to_a12(xa, ya, **kwv)
            E.prove('xy_to_a12(a12_to_xy).identity[%s]' % tagv, And(c1 == p, c2 == q))
            U1 = [Sym(tm.to_real(_t(sum(kwv['a1vect'][i] * V[i, j] for i in range(3))))) for j in range(3)]
            U2 = [Sym(tm.to_real(_t(sum(kwv['a2vect'][i] * V[i, j] for i in range(3))))) for j in range(3)]
            posv = g.a12_to_pos(p, q, **kwv)
            for j in range(3):
                E.prove('a12_to_pos.with_vectors[%s][%d]' % (tagv, j), posv[0, j] == p * U1[j] + q * U2[j])
            E.prove('a12_to_xy.preserves_length[%s]' % tagv, xa * xa + ya * ya == dot3(posv[0], posv[0]))
            E.prove('a12_to_xy.x_along_first_given_vector[%s]' % tagv, xa * snp.sqrt(dot3(U1, U1)) == dot3(posv[0], U1))
    return h_


for _cn, _sn in (('cubic', 'rect'),):
    _override_group(_cn, _sn)


def _t(x):
    from pyvc.sym import lift
    return x.t if isinstance(x, Sym) else lift(x)


for _c in CELLS:
    for _s in SHIFTS:
        _coords_group(_c, _s)


# ----------------------------------------------------------------------------
# SDVPN energy terms

def _mk_pn(E, L, N, flags):
    mod = L.load(PNF)
    pn = object.__new__(mod.SDVPN)
    x0, dx = E.real('x0'), E.real('dx')
    E.assume(dx > 0)
    x = snp.array([x0 + dx * i for i in range(N)])
    d = E.reals('d', (N, 3))
    K = snp.zeros((3, 3))
    for i in range(3):
        for j in range(i, 3):
            v = E.real('K%d%d' % (i, j))
            K[i, j] = v
            K[j, i] = v
    pn._SDVPN__x = x
    pn._SDVPN__disregistry = d
    pn._SDVPN__K_tensor = K
    pn._SDVPN__burgers = E.reals('b', (3,))
    pn._SDVPN__transform = snp.eye(3)
    pn._SDVPN__tau = E.reals('tau', (3, 3))
    pn._SDVPN__alpha = tuple(E.real('alpha%d' % k) for k in range(2))
    pn._SDVPN__beta = E.reals('beta', (3, 3))
    pn._SDVPN__cutofflongrange = E.real('Lcut')
    pn._SDVPN__fullstress = flags.get('fullstress', True)
    pn._SDVPN__cdiffelastic = flags.get('cdiffelastic', False)
    pn._SDVPN__cdiffsurface = flags.get('cdiffsurface', True)
    pn._SDVPN__cdiffstress = flags.get('cdiffstress', False)
    return mod, pn, x, dx, d, K


def _rho(x, d, cdiff, N):
    if cdiff:
        return [[(d[i + 2, c] - d[i, c]) / (x[i + 2] - x[i]) for c in range(3)] for i in range(N - 2)]
    return [[(d[i + 1, c] - d[i, c]) / (x[i + 1] - x[i]) for c in range(3)] for i in range(N - 1)]


class _GammaStub(object):
    def __init__(self, E, N):
        self.E, self.N = E, N
        self.calls = []

    def E_gsf(self, **kw):
        pos = kw['pos']
        vals = self.E.reals('g', (len(pos),))
        self.calls.append((pos, vals))
        return vals


def _pn_group(N, cdiff):
    @group('pn.energy_terms[N=%d,cdiff=%s]' % (N, cdiff), files=[PNF], functions=['SDVPN.disldensity', 'SDVPN.misfit_energy', 'SDVPN.elastic_energy', 'SDVPN.longrange_energy', 'SDVPN.stress_energy',
                                                                                   'SDVPN.surface_energy', 'SDVPN.nonlocal_energy', 'SDVPN.total_energy'],
           clause='on a uniform grid of %d points (finite differences: %s) every Peierls-Nabarro energy term equals an independent evaluation of its formula, the total energy is their sum, and the '
                  'elastic term is a symmetric quadratic form of the dislocation density unchanged by a rigid shift of the disregistry' % (N, 'central' if cdiff else 'forward'),
           replay=None, timeout_ms=60000)
    def h_(E, L):
        flags = dict(cdiffelastic=cdiff, cdiffsurface=cdiff, cdiffstress=False, fullstress=True)
        mod, pn, x, dx, d, K = _mk_pn(E, L, N, flags)
        E.side_enabled = False
        pi = snp.pi
        # dislocation density
        nx, rho = pn.disldensity(cdiff=cdiff)
        want = _rho(x, d, cdiff, N)
        E.prove('disldensity.shape', rho.shape == (len(want), 3))
        for i in range(len(want)):
            for c in range(3):
                E.prove('disldensity.post[%d,%d]' % (i, c), rho[i, c] == want[i][c])
        # misfit: grid spacing times the sum of the gamma-surface energy at the in-plane disregistry
        gs = _GammaStub(E, N)
        pn._SDVPN__gamma = gs
        mis = pn.misfit_energy()
        pos, gv = gs.calls[-1]
        E.prove('misfit.is_dx_times_sum_of_gamma', mis == dx * sum((gv[k] for k in range(1, N)), gv[0]))
        for k in range(N):
            E.prove('misfit.position_is_inplane_disregistry[%d]' % k, And(pos[k, 0] == d[k, 0], pos[k, 1] == 0, pos[k, 2] == d[k, 2]))
        # elastic: (1/4pi) sum_ij chi_ij rho_i K rho_j with chi_ij = 3/2 dx^2 + psi(i-1,j-1) + psi(i,j) - psi(i,j-1) - psi(j,i-1), psi(i,j) = 1/2 (i-j)^2 dx^2 log(|i-j| dx)
        el = pn.elastic_energy()
        R = _rho(x, d, cdiff, N)
        M = len(R)

        def psi(i, j):
            if i == j:
                return realconst(0)
            return realconst(Fraction((i - j) ** 2, 2)) * dx * dx * snp.log(abs(i - j) * dx)

        def chi(i, j):
            return realconst(Fraction(3, 2)) * dx * dx + psi(i - 1, j - 1) + psi(i, j) - psi(i, j - 1) - psi(j, i - 1)
        tot = realconst(0)
        for i in range(M):
            for j in range(M):
                rKr = realconst(0)
                for a in range(3):
                    for b_ in range(3):
                        rKr = rKr + R[i][a] * K[a, b_] * R[j][b_]
                tot = tot + chi(i, j) * rKr
        E.prove('elastic.is_quadratic_form_of_density', el * (4 * pi) == tot)
        for i in range(M):
            for j in range(i + 1, M):
                E.prove('elastic.chi_symmetric[%d,%d]' % (i, j), chi(i, j) == chi(j, i))
        shift = E.reals('shift', (3,))
        el2 = pn.elastic_energy(disregistry=snp.asarray(_np.asarray(d, dtype=object) + _np.asarray(shift, dtype=object)))
        E.prove('elastic.unchanged_by_rigid_shift', el2 == el)
        # long range
        lr = pn.longrange_energy()
        b = pn._SDVPN__burgers
        bKb = realconst(0)
        for a in range(3):
            for c in range(3):
                bKb = bKb + b[a] * K[a, c] * b[c]
        E.prove('longrange.post', lr * (2 * pi) == bKb * snp.log(pn._SDVPN__cutofflongrange))
        # stress (full form, forward differences): -1/2 sum (x_{i+1}^2 - x_i^2) rho_i . tau[1]
        se = pn.stress_energy()
        tau = pn._SDVPN__tau
        Rf = _rho(x, d, False, N)
        want_s = realconst(0)
        for i in range(N - 1):
            dotp = Rf[i][0] * tau[1, 0] + Rf[i][1] * tau[1, 1] + Rf[i][2] * tau[1, 2]
            want_s = want_s + (x[i + 1] * x[i + 1] - x[i] * x[i]) * dotp
        E.prove('stress.full.post', se * 2 == -want_s)
        # central-difference form: - sum over interior points of x_i dx rho_i . tau[1]
        pn._SDVPN__cdiffstress = True
        sec = pn.stress_energy()
        Rc = _rho(x, d, True, N)
        want_c = realconst(0)
        for i in range(N - 2):
            want_c = want_c + x[i + 1] * dx * (Rc[i][0] * tau[1, 0] + Rc[i][1] * tau[1, 1] + Rc[i][2] * tau[1, 2])
        E.prove('stress.full.central_differences.post', sec == -want_c)
        pn._SDVPN__cdiffstress = False
        pn._SDVPN__fullstress = False
        se2 = pn.stress_energy()
        want_s2 = realconst(0)
        for i in range(N - 1):
            for c in range(3):
                want_s2 = want_s2 + (-tau[1, c]) * (d[i, c] + d[i + 1, c]) * dx
        E.prove('stress.simple.post', se2 * 2 == -want_s2)
        E.prove('stress.simple.leaves_tau_unchanged', all(pn._SDVPN__tau[a, c].t.op == 'var' for a in range(3) for c in range(3)))
        E.prove('stress.simple.repeatable', pn.stress_energy() == se2)
        pn._SDVPN__fullstress = True
        # surface: 1/4 sum_i sum_ab rho_ia^2 dx beta_ab  (np.inner(rho^2 dx, beta))
        su = pn.surface_energy()
        beta = pn._SDVPN__beta
        want_su = realconst(0)
        for i in range(M):
            for a in range(3):
                for c in range(3):
                    want_su = want_su + R[i][c] * R[i][c] * dx * beta[a, c]
        E.prove('surface.post', su * 4 == want_su)
        # nonlocal: sum_m alpha_m sum_i delta_i . (delta_i - (delta_{i+m} + delta_{i-m})/2) dx
        nl = pn.nonlocal_energy()
        want_nl = realconst(0)
        for num, al in enumerate(pn._SDVPN__alpha):
            m = num + 1
            for i in range(m, N - m):
                for c in range(3):
                    want_nl = want_nl + al * d[i, c] * (d[i, c] - (d[i + m, c] + d[i - m, c]) / 2) * dx
        E.prove('nonlocal.post', nl == want_nl)
        # total = sum of terms (misfit uses a fresh symbolic gamma value per call: compare structure with the same stub values)
        gs2 = _GammaStub(E, N)
        gs2.E_gsf = lambda **kw: gv
        pn._SDVPN__gamma = gs2
        tot_e = pn.total_energy()
        E.prove('total.is_sum_of_terms', tot_e == mis + el + lr + se + nl + su)
        E.canary('pn.canary[N=%d,cdiff=%s]' % (N, cdiff), dx == 1)
    return h_


for _N, _c in ((5, False), (6, True), (8, False)):
    _pn_group(_N, _c)


@group('pn.arctan_profiles', files=[ARCT, ARCD], functions=['defect.pn_arctan_disregistry', 'defect.pn_arctan_disldensity'],
       clause='the arctangent dislocation density is the derivative of the arctangent disregistry (un-normalised forms), the disregistry runs from 0 to the Burgers vector over the line, '
              'and the grid parameters xmax/xstep/xnum are mutually consistent', replay=None, timeout_ms=30000)
def arctan_profiles(E, L):
    dis = L.load(ARCT).pn_arctan_disregistry
    den = L.load(ARCD).pn_arctan_disldensity
    xv = E.real('x')
    b = E.reals('b', (3,))
    c, w = E.real('center'), E.real('halfwidth')
    E.assume(w > 0)
    E.side_enabled = False
    x1, d1 = dis(x=snp.array([xv]), burgers=b, center=c, halfwidth=w, normalize=False)
    x2, r1 = den(x=snp.array([xv]), burgers=b, center=c, halfwidth=w, normalize=False)
    for j in range(3):
        E.prove('disldensity_is_derivative_of_disregistry[%d]' % j, Sym(D(d1[0, j].t, xv.t)) == r1[0, j])
        E.prove('disregistry.formula[%d]' % j, d1[0, j] == snp.arctan((xv - c) / w) * b[j] / snp.pi + b[j] / 2)
    # limits: arctan in (-pi/2, pi/2) => disregistry component strictly between 0 and b_j (for b_j > 0)
    E.prove('disregistry.between_0_and_b', Implies(b[0] > 0, And(d1[0, 0] > 0, d1[0, 0] < b[0])))
    E.prove('disregistry.half_burgers_at_center', Implies(xv == c, And(d1[0, 0] * 2 == b[0], d1[0, 1] * 2 == b[1], d1[0, 2] * 2 == b[2])))
    xg, dg = dis(xmax=2.0, xnum=5, burgers=[1.0, 0.0, 0.0])
    E.prove('grid.from_xmax_xnum', [float(v.value()) if isinstance(v, Sym) else float(v) for v in xg] == [-2.0, -1.0, 0.0, 1.0, 2.0])
    xg2, _ = dis(xstep=1.0, xnum=5)
    xg3, _ = dis(xmax=2.0, xstep=1.0)
    E.prove('grid.parameter_sets_agree', len(xg2) == 5 and len(xg3) == 5)
    for kw in (dict(xmax=2.0), dict(x=[0.0], xmax=1.0), dict(xmax=2.0, xstep=0.7)):
        try:
            dis(**kw)
            E.prove('grid.refuses%s' % sorted(kw), False)
        except ValueError:
            E.prove('grid.refuses%s' % sorted(kw), True)
    E.canary('arctan.canary', b[0] == 0)


# ----------------------------------------------------------------------------
# bounded: interpolation, periodicity, model round trip, solve, half width

@group('gamma_and_solve.family', kind='bounded', files=[GSF, PNF], functions=['GammaSurface.set', 'GammaSurface.fit', 'GammaSurface.E_gsf', 'GammaSurface.model', 'GammaSurface.pos_to_a12', 'SDVPN.solve', 'SDVPN.total_energy'],
       clause='a gamma surface reproduces its input energies at the sampled shifts, is periodic in both shift vectors, accepts positions in fractional, Cartesian or plotting coordinates for one or many '
              'positions, survives a data-model round trip; solving never raises the total energy and leaves the end disregistries fixed; for a sinusoidal misfit law the energy over arctangent '
              'profiles is lowest at the classical half-width',
       rule='grids {5x5, 6x9} x {rectangular, oblique shift vectors} x cells {cubic, triclinic, hexagonal} x with/without the duplicated a=1 edge x with/without plane-separation data; query points incl. '
            'integer periods; SDVPN: isotropic K, sinusoidal gamma, grids of 41/81 points, tau/alpha/beta settings, fullstress on/off, repeated evaluations; non-trivial = every case')
def gamma_family(tier, seed):
    from pyvc.native import atomman
    import numpy as np
    am = atomman()
    fails, samples = [], []
    evals = 0
    cells = {'cubic': am.Box.cubic(3.6), 'triclinic': am.Box(vects=[[4.0, 0.3, -0.2], [0.5, 3.5, 0.1], [-0.7, 0.4, 5.0]]), 'hexagonal': am.Box.hexagonal(3.2, 5.2)}
    shifts = {'rect': ([1, 0, 0], [0, 1, 0]), 'oblique': ([1, 0, 1], [0, 1, 0]), 'oblique2': ([1, 1, 0], [0, 0, 1])}
    for (cname, box), (sname, (a1v, a2v)), (n1, n2), dup, hasdelta in itertools.product(cells.items(), shifts.items(), [(5, 5), (6, 9)], [True, False], [False, True]):
        evals += 1
        key = '%s,%s,%dx%d,dup=%s,delta=%s' % (cname, sname, n1, n2, dup, hasdelta)
        msgs = []
        try:
            g1 = np.linspace(0, 1, n1) if dup else np.linspace(0, 1, n1, endpoint=False)
            g2 = np.linspace(0, 1, n2) if dup else np.linspace(0, 1, n2, endpoint=False)
            A1, A2 = np.meshgrid(g1, g2)
            a1, a2 = A1.ravel(), A2.ravel()
            Eg = 1.0 + np.sin(np.pi * a1) ** 2 + 0.5 * np.sin(np.pi * a2) ** 2 + 0.2 * np.sin(2 * np.pi * (a1 + a2))
            dl = 0.1 * np.sin(np.pi * a1) ** 2
            g = am.defect.GammaSurface(a1vect=a1v, a2vect=a2v, a1=a1, a2=a2, E_gsf=Eg, box=box, delta=dl if hasdelta else None)
            got = g.E_gsf(a1=a1.copy(), a2=a2.copy())
            if not np.allclose(got, Eg, atol=1e-6 * abs(Eg).max()):
                msgs.append('input energies not reproduced at the sampled shifts (max error %g)' % abs(got - Eg).max())
            q1, q2 = np.array([0.13, 0.5, 0.77]), np.array([0.41, 0.05, 0.9])
            base = g.E_gsf(a1=q1.copy(), a2=q2.copy())
            for k1, k2 in ((1, 0), (0, -1), (2, 3)):
                per = g.E_gsf(a1=q1 + k1, a2=q2 + k2)
                if not np.allclose(per, base, atol=1e-8 * abs(Eg).max()):
                    msgs.append('not periodic: shift by (%d,%d) periods changes the energy by %g' % (k1, k2, abs(per - base).max()))
            # without smoothing the surface is the nearest sample on the torus: at the samples themselves, at their periodic images (the a = 1 edge and whole periods
            # included) and just below an integer (nearest sample: the one at 0)
            try:
                raw = g.E_gsf(a1=a1.copy(), a2=a2.copy(), smooth=False)
                if not np.allclose(raw, Eg, atol=1e-9 * abs(Eg).max()):
                    msgs.append('smooth=False does not return the input energy at the sampled shifts (max error %g)' % abs(raw - Eg).max())
                e00 = Eg[np.argmin(a1 ** 2 + a2 ** 2)]
                for (t1, t2) in ((1.0, 0.0), (0.0, 1.0), (1.0, 1.0), (2.0, 3.0), (1.0 - 1e-3, 0.0), (0.0, 1.0 - 1e-3), (-1e-3, 1.0)):
                    v = float(np.ravel(g.E_gsf(a1=np.array([t1]), a2=np.array([t2]), smooth=False))[0])
                    if not np.isclose(v, e00, atol=1e-9 * abs(Eg).max()):
                        msgs.append('smooth=False at (%g, %g), a periodic image of (or nearest to) the sample at (0, 0): %r, the sample holds %r' % (t1, t2, v, float(e00)))
                        break
                i_s = int(np.argmin((a1 - a1[len(a1) // 3]) ** 2 + (a2 - a2[len(a2) // 3]) ** 2))
                for k1, k2 in ((1, 0), (0, 1), (-1, 2)):
                    v = float(np.ravel(g.E_gsf(a1=np.array([a1[i_s] + k1]), a2=np.array([a2[i_s] + k2]), smooth=False))[0])
                    if not np.isclose(v, Eg[i_s], atol=1e-9 * abs(Eg).max()):
                        msgs.append('smooth=False is not periodic: sample (%g, %g) moved by (%d, %d) periods gives %r, the sample holds %r' % (a1[i_s], a2[i_s], k1, k2, v, float(Eg[i_s])))
                        break
                if hasdelta:
                    rawd = g.delta(a1=a1.copy(), a2=a2.copy(), smooth=False)
                    if not np.allclose(rawd, dl, atol=1e-9):
                        msgs.append('smooth=False does not return the input plane separation at the sampled shifts')
                    vd = float(np.ravel(g.delta(a1=np.array([1.0]), a2=np.array([0.0]), smooth=False))[0])
                    if not np.isclose(vd, dl[np.argmin(a1 ** 2 + a2 ** 2)], atol=1e-9):
                        msgs.append('smooth=False plane separation at (1, 0) differs from the sample at (0, 0)')
            except Exception as e:
                msgs.append('smooth=False queries raised %s: %s' % (type(e).__name__, e))
            pos = g.a12_to_pos(q1, q2)
            for p_one, want in zip(pos, base):
                if not np.isclose(g.E_gsf(pos=p_one), want, atol=1e-8 * abs(Eg).max()):
                    msgs.append('query by a single Cartesian position differs from the fractional query')
                    break
            try:
                many = g.E_gsf(pos=pos)
                if not np.allclose(many, base, atol=1e-8 * abs(Eg).max()):
                    msgs.append('query by several Cartesian positions differs from the fractional query')
                x, y = g.a12_to_xy(q1, q2)
                viaxy = g.E_gsf(x=x, y=y)
                if not np.allclose(viaxy, base, atol=1e-8 * abs(Eg).max()):
                    msgs.append('query by plotting coordinates differs from the fractional query')
            except Exception as e:
                msgs.append('query by several Cartesian / plotting positions raised %s: %s' % (type(e).__name__, e))
            # the same points addressed relative to alternate in-plane vectors (fractional, Cartesian and plotting forms must agree with each other and with the plain query)
            try:
                u1 = [g.a1vect[i] + g.a2vect[i] for i in range(3)]
                u2 = list(g.a2vect)
                posq = g.a12_to_pos(q1, q2)
                f1, f2 = g.pos_to_a12(posq, a1vect=u1, a2vect=u2)
                e_frac = g.E_gsf(a1=np.array(f1).copy(), a2=np.array(f2).copy(), a1vect=u1, a2vect=u2)
                e_pos = g.E_gsf(pos=posq, a1vect=u1, a2vect=u2)
                xo, yo = g.a12_to_xy(np.array(f1), np.array(f2), a1vect=u1, a2vect=u2)
                e_xy = g.E_gsf(x=xo, y=yo, a1vect=u1, a2vect=u2)
                tolE = 1e-7 * abs(Eg).max()
                if not (np.allclose(e_frac, base, atol=tolE) and np.allclose(e_pos, base, atol=tolE) and np.allclose(e_xy, base, atol=tolE)):
                    msgs.append('with alternate vectors %r, %r the same points give energies differing from the plain query by %.3g (fractional), %.3g (Cartesian), %.3g (plotting)'
                                % (u1, u2, abs(np.asarray(e_frac) - base).max(), abs(np.asarray(e_pos) - base).max(), abs(np.asarray(e_xy) - base).max()))
                b1, b2 = g.xy_to_a12(xo, yo, a1vect=u1, a2vect=u2)
                if not (np.allclose(b1, f1, atol=1e-9) and np.allclose(b2, f2, atol=1e-9)):
                    msgs.append('xy_to_a12(a12_to_xy(.)) with alternate vectors is not the identity (max deviation %.3g)' % max(abs(np.asarray(b1) - f1).max(), abs(np.asarray(b2) - f2).max()))
            except Exception as e:
                msgs.append('queries with alternate vectors raised %s: %s' % (type(e).__name__, e))
            g2_ = am.defect.GammaSurface(model=g.model())
            if not np.allclose(g2_.E_gsf(a1=q1.copy(), a2=q2.copy()), base, atol=1e-7 * abs(Eg).max()):
                msgs.append('data-model round trip changes the energies')
            if hasdelta and not np.allclose(g.delta(a1=a1.copy(), a2=a2.copy()), dl, atol=1e-6):
                msgs.append('plane-separation data not reproduced')
            if len(samples) < 1:
                samples.append({'case': key, 'E_at_query': base.round(5).tolist()})
        except Exception as e:
            msgs.append('raised %s: %s' % (type(e).__name__, e))
        if msgs:
            ck = 'many positions' if all('several' in m for m in msgs) else key
            fails.append({'obligation': 'gamma.post', 'key': ck, 'input': key, 'detail': '; '.join(msgs[:3])})
    # SDVPN solve / repeated evaluation / half width
    try:
        a = 2.5
        g1 = np.linspace(0, 1, 21)
        A1, A2 = np.meshgrid(g1, np.linspace(0, 1, 5))
        gam0 = 1.0
        Eg = gam0 * np.sin(np.pi * A1.ravel()) ** 2
        gamma = am.defect.GammaSurface(a1vect=[1, 0, 0], a2vect=[0, 0, 1], a1=A1.ravel(), a2=A2.ravel(), E_gsf=Eg, box=am.Box.cubic(a))
        mu, nu = 40.0, 0.3
        lam = 2 * mu * nu / (1 - 2 * nu)
        b = np.array([a, 0.0, 0.0])
        volterra = am.defect.solve_volterra_dislocation(am.ElasticConstants(mu=mu, **{'lambda': lam}), burgers=b)
        K = volterra.K_tensor
        for fullstress, tau in itertools.product([True, False], [np.zeros((3, 3)), np.array([[0, 0.02, 0], [0.02, 0, 0], [0, 0, 0]])]):
            evals += 1
            key = 'solve,fullstress=%s,tau=%s' % (fullstress, 'zero' if not tau.any() else 'shear')
            msgs = []
            x, dis = am.defect.pn_arctan_disregistry(xmax=20 * a, xnum=41, burgers=b, halfwidth=1.0 * a)
            pn = am.defect.SDVPN(volterra=volterra, gamma=gamma, tau=tau, fullstress=fullstress, min_options={'maxiter': 3, 'maxfev': 4000})
            pn.x = x
            pn.disregistry = dis
            e_terms = lambda: (pn.misfit_energy() + pn.elastic_energy() + pn.longrange_energy() + pn.stress_energy() + pn.nonlocal_energy() + pn.surface_energy())
            e0, e0b = pn.total_energy(), pn.total_energy()
            if not np.isclose(e0, e0b, rtol=1e-12) or not np.isclose(e0, e_terms(), rtol=1e-10):
                msgs.append('total energy not repeatable / not the sum of its terms: %r %r %r' % (e0, e0b, e_terms()))
            pn.solve()
            e1 = pn.total_energy()
            if e1 > e0 + 1e-9 * abs(e0):
                msgs.append('solve raised the total energy: %r -> %r' % (e0, e1))
            if not (np.allclose(pn.disregistry[0], dis[0]) and np.allclose(pn.disregistry[-1], dis[-1])):
                msgs.append('end disregistries moved')
            if not np.allclose(pn.tau, tau):
                msgs.append('the applied stress stored in the model changed: %r' % pn.tau.tolist())
            if msgs:
                fails.append({'obligation': 'pn.solve', 'key': key, 'input': key, 'detail': '; '.join(msgs[:3])})
        # one model object, several grids handed over as arguments: every evaluation equals that of a fresh object on that grid (nothing remembered from the grid before)
        for cdiff in (False, True):
            evals += 1
            key = 'two grids on one object,cdiffelastic=%s' % cdiff
            try:
                shared = am.defect.SDVPN(volterra=volterra, gamma=gamma, cdiffelastic=cdiff)
                msgs = []
                for (xmax, hw) in ((20 * a, 1.0 * a), (6 * a, 0.7 * a), (35 * a, 1.5 * a), (20 * a, 1.0 * a)):
                    xg, dg = am.defect.pn_arctan_disregistry(xmax=xmax, xnum=41, burgers=b, halfwidth=hw)
                    fresh = am.defect.SDVPN(volterra=volterra, gamma=gamma, cdiffelastic=cdiff)
                    for nm in ('elastic_energy', 'misfit_energy', 'total_energy'):
                        got, want = getattr(shared, nm)(xg, dg), getattr(fresh, nm)(xg, dg)
                        if not np.isclose(got, want, rtol=1e-10, atol=1e-12):
                            msgs.append('%s(x, disregistry) on a grid of spacing %.4g after another grid: %r, a fresh object gives %r' % (nm, xg[1] - xg[0], got, want))
                if msgs:
                    fails.append({'obligation': 'pn.grids', 'key': key, 'input': key, 'detail': '; '.join(msgs[:2])})
            except Exception as e:
                fails.append({'obligation': 'pn.grids', 'key': key, 'input': key, 'detail': 'raised %s: %s' % (type(e).__name__, e)})
        # every combination of the documented finite-difference / stress-form options must evaluate, and total = sum of terms
        x, dis = am.defect.pn_arctan_disregistry(xmax=10 * a, xnum=21, burgers=b, halfwidth=1.0 * a)
        shear = np.array([[0, 0.02, 0], [0.02, 0, 0], [0, 0, 0]])
        for fs, ce, cs, ct in itertools.product([True, False], repeat=4):
            evals += 1
            key = 'options fullstress=%s,cdiffelastic=%s,cdiffsurface=%s,cdiffstress=%s' % (fs, ce, cs, ct)
            try:
                pn = am.defect.SDVPN(volterra=volterra, gamma=gamma, tau=shear, alpha=[0.1, 0.05], beta=np.eye(3) * 0.2, fullstress=fs, cdiffelastic=ce, cdiffsurface=cs, cdiffstress=ct)
                pn.x = x
                pn.disregistry = dis
                tot = pn.total_energy()
                parts = pn.misfit_energy() + pn.elastic_energy() + pn.longrange_energy() + pn.stress_energy() + pn.nonlocal_energy() + pn.surface_energy()
                if not np.isclose(tot, parts, rtol=1e-10):
                    fails.append({'obligation': 'pn.options', 'key': key, 'input': key, 'detail': 'total %r is not the sum of the terms %r' % (tot, parts)})
            except Exception as e:
                fails.append({'obligation': 'pn.options', 'key': 'fullstress=True,cdiffstress=True' if (fs and ct) else key, 'input': key, 'detail': 'total_energy raised %s: %s' % (type(e).__name__, e)})
        # classical half-width for the sinusoidal misfit law gamma0 sin^2(pi delta/b):  w = K_e b^2 / (4 pi^2 gamma0)  (balance of the PN equation for the arctangent profile);
        # narrow core (w = b), domain of 120 half-widths, grid spacing 0.08 b; stated tolerance: minimum within 15 % of w
        evals += 1
        gam1 = K[0, 0] * a / (4 * np.pi ** 2)
        g1n = np.linspace(0, 1, 41)
        B1, B2 = np.meshgrid(g1n, np.linspace(0, 1, 5))
        gamma1 = am.defect.GammaSurface(a1vect=[1, 0, 0], a2vect=[0, 0, 1], a1=B1.ravel(), a2=B2.ravel(), E_gsf=gam1 * np.sin(np.pi * B1.ravel()) ** 2, box=am.Box.cubic(a))
        wcl = K[0, 0] * a ** 2 / (4 * np.pi ** 2 * gam1)
        ws = np.linspace(0.6, 1.6, 21)
        ens = []
        for wf in ws:
            x, dis = am.defect.pn_arctan_disregistry(xmax=60 * a, xnum=1501, burgers=b, halfwidth=wf * wcl)
            pn = am.defect.SDVPN(volterra=volterra, gamma=gamma1)
            pn.x = x
            pn.disregistry = dis
            ens.append(pn.misfit_energy() + pn.elastic_energy())
        best = ws[int(np.argmin(ens))]
        if abs(best - 1.0) > 0.15:
            fails.append({'obligation': 'pn.halfwidth', 'key': 'sinusoidal', 'input': 'sinusoidal misfit law', 'detail': 'energy over arctangent profiles is lowest at %.2f x the classical half-width' % best})
    except Exception as e:
        fails.append({'obligation': 'pn.solve', 'key': 'setup', 'input': 'setup', 'detail': 'raised %s: %s' % (type(e).__name__, e)})
    seen = {}
    for f in fails:
        seen.setdefault((f['obligation'], f['key']), f)
    files = {rel: hashlib.sha256(open(os.path.join(REPO, rel), 'rb').read()).hexdigest() for rel in (GSF, PNF)}
    return {'family': 'gamma surfaces and PN solve', 'evaluations': evals, 'distinct_nontrivial': evals, 'rule': 'see group rule', 'samples': samples, 'failures': list(seen.values())[:12], 'files': files}
