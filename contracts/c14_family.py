"""Bounded run-time contract family for C14 (free_surface_basis exhaustively over plane indices; FreeSurface / StackingFault on real crystals).
Independent oracles: exact integer zone law, determinant sign, reciprocal-lattice direction from the cell matrix, lattice membership in the unit-cell frame, set comparison of
crystals modulo periodic vectors.  Labelled bounded; never counted as proved."""
import itertools

import numpy as np


def cells(am):
    return {
        'cubic': am.Box.cubic(3.0),
        'tetragonal': am.Box.tetragonal(3.0, 4.5),
        'orthorhombic': am.Box.orthorhombic(3.0, 4.0, 5.0),
        'hexagonal': am.Box.hexagonal(3.2, 5.2),
        'rhombohedral': am.Box.trigonal(4.0, 70.0),
        'monoclinic': am.Box.monoclinic(3.0, 4.0, 5.0, 100.0),
        'triclinic': am.Box.triclinic(3.0, 4.0, 5.0, 80.0, 95.0, 105.0),
    }


def plane4(h, k, l):
    return [h, k, -(h + k), l]


def vec4to3(v):
    v = np.asarray(v, dtype=float)
    return np.array([v[..., 0] - v[..., 2], v[..., 1] - v[..., 2], v[..., 3]]).T if v.ndim > 1 else np.array([v[0] - v[2], v[1] - v[2], v[3]])


def check_basis(am, box, hkl3, cut, given_hkl=None, setting=None, conv_rows=None, kw=None):
    """one call of free_surface_basis against the exact oracle; conv_rows: conventional cell vectors expressed in the indices of `box` (identity when no setting)"""
    msgs = []
    kw = dict(kw or {})
    res = am.defect.free_surface_basis(given_hkl if given_hkl is not None else hkl3, box=box, cutboxvector=cut, return_planenormal=True,
                                       **({'conventional_setting': setting} if setting else {}), **kw)
    uvws, pn = res
    uvws = np.asarray(uvws, dtype=float)
    if uvws.shape == (3, 4):
        if not np.allclose(uvws[:, 0] + uvws[:, 1] + uvws[:, 2], 0, atol=1e-9):
            msgs.append('four-index vectors do not satisfy u+v+t=0: %r' % uvws.tolist())
        uvws = np.array([[r[0] - r[2], r[1] - r[2], r[3]] for r in uvws])
    if uvws.shape != (3, 3) or not np.allclose(uvws, np.round(uvws), atol=1e-9):
        return msgs + ['vectors are not three integer triples: %r' % uvws.tolist()]
    U = np.round(uvws).astype(int)
    V = np.asarray(box.vects)
    C = np.eye(3) if conv_rows is None else np.asarray(conv_rows, dtype=float)
    Vc = C.dot(V)                                   # conventional cell vectors in the frame of `box`
    rec = np.linalg.inv(Vc).T                        # rows a*, b*, c* (Cartesian)
    g = np.asarray(hkl3, dtype=float).dot(rec)
    ci = 'abc'.index(cut)
    i1, i2 = [(1, 2), (2, 0), (0, 1)][ci]
    if conv_rows is None:
        zone = U.dot(np.asarray(hkl3, dtype=int))
        zone_ok = lambda r: zone[r] == 0
    else:
        # indices refer to the primitive cell: zone law through the conventional indices  uvw_conv = uvw_prim . C^-1  (exact rational; tested in floating point with a tight tolerance)
        uc = U.dot(np.linalg.inv(C))
        zone = uc.dot(np.asarray(hkl3, dtype=float))
        zone_ok = lambda r: abs(zone[r]) < 1e-9
    if not (zone_ok(i1) and zone_ok(i2)):
        msgs.append('cell vectors %r and %r do not both satisfy the zone law for %r (hu+kv+lw = %r, %r)' % (U[i1].tolist(), U[i2].tolist(), list(hkl3), zone[i1], zone[i2]))
    if zone_ok(ci):
        msgs.append('the out-of-plane vector %r lies in the plane %r' % (U[ci].tolist(), list(hkl3)))
    d = int(round(np.linalg.det(U)))
    if d * np.sign(np.linalg.det(V)) <= 0:
        msgs.append('vectors %r are not right-handed (det %d)' % (U.tolist(), d))
    pn = np.asarray(pn, dtype=float)
    cr = np.cross(pn, g)
    if np.linalg.norm(cr) > 1e-8 * np.linalg.norm(pn) * np.linalg.norm(g) or pn.dot(g) <= 0:
        msgs.append('reported normal %r is not along the reciprocal-lattice direction %r' % (pn.round(5).tolist(), g.round(5).tolist()))
    # the out-of-plane vector is on the positive side of the plane, the in-plane pair is ordered so that a x b is along the normal
    cart = U.dot(V)
    if np.cross(cart[i1], cart[i2]).dot(g) <= 0:
        msgs.append('in-plane vectors are not ordered right-handedly about the plane normal')
    if cart[ci].dot(g) <= 0:
        msgs.append('out-of-plane vector points below the plane')
    return msgs


def hkls(bound):
    out = []
    for h, k, l in itertools.product(range(-bound, bound + 1), repeat=3):
        if (h, k, l) != (0, 0, 0):
            out.append((h, k, l))
    return out


def basis_cases(tier):
    bound = 3 if tier == 'thorough' else 2
    cs = []
    for cname in ('cubic', 'tetragonal', 'orthorhombic', 'hexagonal', 'rhombohedral', 'monoclinic', 'triclinic'):
        for n, hkl in enumerate(hkls(bound)):
            cuts = 'abc' if (tier == 'thorough' or n % 7 == 0) else 'abc'[n % 3]
            for cut in cuts:
                cs.append(dict(kind='basis', cell=cname, hkl=hkl, cut=cut, four=False, setting=None, key='basis,%s,hkl=%r,cut=%s' % (cname, hkl, cut)))
        if cname == 'hexagonal':
            for n, hkl in enumerate(hkls(bound)):
                cut = 'abc'[n % 3]
                cs.append(dict(kind='basis', cell=cname, hkl=hkl, cut=cut, four=True, setting=None, key='basis,%s,hkil=%r,cut=%s' % (cname, plane4(*hkl), cut)))
    # centred settings: primitive cell + conventional plane indices
    for setting, conv in (('f', 'cubic'), ('i', 'cubic'), ('i', 'tetragonal'), ('c', 'orthorhombic'), ('a', 'orthorhombic'), ('f', 'orthorhombic'), ('c', 'monoclinic')):
        for n, hkl in enumerate(hkls(bound)):
            if tier != 'thorough' and n % 2:
                continue
            cut = 'abc'[n % 3]
            cs.append(dict(kind='basis', cell=conv, hkl=hkl, cut=cut, four=False, setting=setting, key='basis,%s/%s,hkl=%r,cut=%s' % (conv, setting, hkl, cut)))
    return cs


_PRIM = {}


def primitive_box(am, cname, setting):
    """primitive cell of the centred lattice built on the conventional cell, and the conventional vectors in primitive indices"""
    key = (cname, setting)
    if key not in _PRIM:
        conv = cells(am)[cname]
        C = np.asarray(am.tools.miller.vector_conventional_to_primitive(np.identity(3), setting=setting), dtype=float)      # rows: conventional a, b, c in primitive indices (C16)
        Vp = np.linalg.inv(C).dot(conv.vects)
        # a primitive cell given in its own standard orientation (as users get it from the conventional_to_primitive dump)
        pb = am.Box(vects=Vp)
        pb = am.System(box=pb).rotate(np.identity(3, dtype=int)).box if not pb.is_lammps_norm() else pb
        _PRIM[key] = (pb, C)
    return _PRIM[key]


def check_basis_case(am, case):
    cname = case['cell']
    if case['setting']:
        box, C = primitive_box(am, cname, case['setting'])
        return check_basis(am, box, case['hkl'], case['cut'], setting=case['setting'], conv_rows=C)
    box = cells(am)[cname]
    if case['four']:
        return check_basis(am, box, case['hkl'], case['cut'], given_hkl=plane4(*case['hkl']))
    return check_basis(am, box, case['hkl'], case['cut'])


# ----------------------------------------------------------------------------
# crystals for FreeSurface / StackingFault

def crystals(am):
    out = {}
    out['fcc'] = am.System(atoms=am.Atoms(atype=1, pos=[[0, 0, 0], [.5, .5, 0], [.5, 0, .5], [0, .5, .5]]), box=am.Box.cubic(4.05), scale=True, symbols='Al')
    out['bcc'] = am.System(atoms=am.Atoms(atype=1, pos=[[0, 0, 0], [.5, .5, .5]]), box=am.Box.cubic(2.86), scale=True, symbols='Fe')
    out['hcp'] = am.System(atoms=am.Atoms(atype=1, pos=[[1 / 3, 2 / 3, .25], [2 / 3, 1 / 3, .75]]), box=am.Box.hexagonal(3.2, 5.2), scale=True, symbols='Mg')
    out['B2'] = am.System(atoms=am.Atoms(atype=[1, 2], pos=[[0, 0, 0], [.5, .5, .5]]), box=am.Box.cubic(3.0), scale=True, symbols=['Ni', 'Al'])
    out['diamond'] = am.System(atoms=am.Atoms(atype=1, pos=[[0, 0, 0], [.5, .5, 0], [.5, 0, .5], [0, .5, .5], [.25, .25, .25], [.75, .75, .25], [.75, .25, .75], [.25, .75, .75]]),
                               box=am.Box.cubic(5.43), scale=True, symbols='Si')
    out['mono'] = am.System(atoms=am.Atoms(atype=[1, 2], pos=[[0.1, 0.2, 0.3], [0.6, 0.7, 0.45]]), box=am.Box.monoclinic(3.0, 4.0, 5.0, 100.0), scale=True, symbols=['A', 'B'])
    out['fcc_prim'] = out['fcc'].dump('conventional_to_primitive', setting='f')
    out['bcc_prim'] = out['bcc'].dump('conventional_to_primitive', setting='i')
    return out


SURF = [
    # crystal, hkl, setting
    ('fcc', [1, 1, 1], 'p'), ('fcc', [1, 0, 0], 'p'), ('fcc', [1, 1, 0], 'p'), ('fcc', [2, 1, 0], 'p'), ('fcc', [1, -1, 2], 'p'), ('fcc', [3, 1, 1], 'p'),
    ('bcc', [1, 1, 0], 'p'), ('bcc', [1, 1, 2], 'p'), ('bcc', [1, 0, 0], 'p'), ('bcc', [1, 2, 3], 'p'),
    ('hcp', [0, 0, 0, 1], 'p'), ('hcp', [1, 0, -1, 0], 'p'), ('hcp', [1, 0, -1, 1], 'p'), ('hcp', [1, 1, -2, 2], 'p'), ('hcp', [0, 0, 1], 'p'),
    ('B2', [1, 1, 0], 'p'), ('B2', [1, 1, 1], 'p'), ('B2', [0, 1, 2], 'p'),
    ('diamond', [1, 1, 1], 'p'), ('diamond', [1, 0, 0], 'p'),
    ('mono', [0, 1, 0], 'p'), ('mono', [1, 0, 0], 'p'), ('mono', [0, 0, 1], 'p'), ('mono', [1, 1, 0], 'p'), ('mono', [1, 0, 1], 'p'),
    ('fcc_prim', [1, 1, 1], 'f'), ('fcc_prim', [1, 0, 0], 'f'), ('fcc_prim', [1, 1, 0], 'f'), ('fcc_prim', [2, 1, 0], 'f'),
    ('bcc_prim', [1, 1, 0], 'i'), ('bcc_prim', [1, 1, 2], 'i'), ('bcc_prim', [1, 0, 0], 'i'),
]


def surface_cases(tier):
    cs = []
    for n, (cname, hkl, setting) in enumerate(SURF):
        cuts = 'abc' if tier == 'thorough' else 'abc'[n % 3] + ('c' if n % 3 else '')
        for cut in sorted(set(cuts)):
            cs.append(dict(kind='surface', crystal=cname, hkl=hkl, setting=setting, cut=cut, key='surface,%s,%r,setting=%s,cut=%s' % (cname, hkl, setting, cut)))
    return cs


def conv_of(cname):
    return {'fcc_prim': 'fcc', 'bcc_prim': 'bcc'}.get(cname, cname)


def lattice_mismatch(ucell, pos_u, atype):
    """distance (fractional units) of positions given in the unit-cell frame from a unit-cell site of the same type"""
    V = np.asarray(ucell.box.vects)
    frac = (pos_u - ucell.box.origin).dot(np.linalg.inv(V))
    sites = (ucell.atoms.pos - ucell.box.origin).dot(np.linalg.inv(V))
    worst = np.full(len(frac), np.inf)
    for sidx in range(ucell.natoms):
        d = frac - sites[sidx]
        d -= np.round(d)
        dist = np.abs(d).max(axis=1)
        same = atype == ucell.atoms.atype[sidx]
        worst = np.where(same, np.minimum(worst, dist), worst)
    return worst


def canonical(pos, atype, box, periodic):
    rel = (pos - box.origin).dot(np.linalg.inv(box.vects))
    for m in periodic:
        rel[:, m] = np.mod(rel[:, m] + 1e-7, 1.0) - 1e-7
    rel = np.round(rel, 5) + 0.0
    arr = np.column_stack([atype, rel])
    return arr[np.lexsort(arr.T[::-1])]


def check_surface_case(am, case, with_fault=True):
    msgs = []
    ucell = crystals(am)[case['crystal']]
    hkl = case['hkl']
    cut = case['cut']
    try:
        sf = am.defect.StackingFault(hkl, ucell, cutboxvector=cut, conventional_setting=case['setting'])
    except ValueError as e:
        if 'cannot have' in str(e) and 'component for cutboxvector' in str(e):
            return ['REFUSED: %s' % e]
        raise
    k = sf.cutindex
    if k != 'abc'.index(cut):
        msgs.append('cutindex %d for cutboxvector %s' % (k, cut))
    i1, i2 = [(1, 2), (2, 0), (0, 1)][k]
    rc = sf.rcell
    V = rc.box.vects
    T = sf.transform
    # ---- the rotated cell: same crystal, in-plane vectors perpendicular to the cut axis, plane = requested plane
    if abs(V[i1][k]) > 1e-9 or abs(V[i2][k]) > 1e-9:
        msgs.append('in-plane cell vectors have a component along the cut axis')
    if np.linalg.det(V) <= 0:
        msgs.append('rotated cell not right-handed')
    mis = lattice_mismatch(ucell, rc.atoms.pos.dot(T), rc.atoms.atype)
    if mis.max() > 1e-6:
        msgs.append('rotated cell atoms are not sites of the crystal (fractional mismatch %.3g)' % mis.max())
    dens = ucell.natoms / abs(np.linalg.det(ucell.box.vects))
    if abs(rc.natoms / abs(np.linalg.det(V)) - dens) > 1e-8 * dens:
        msgs.append('rotated cell density differs from the crystal density')
    # the cut axis is the plane normal: reciprocal direction of hkl in the unit-cell frame, rotated
    h3 = np.array(hkl, dtype=float)
    if len(hkl) == 4:
        h3 = np.array([hkl[0], hkl[1], hkl[3]], dtype=float)
    conv_cell = crystals(am)[conv_of(case['crystal'])]
    if case['setting'] != 'p':
        # the primitive cell produced by the dump is rotated with respect to the conventional one: use the conventional vectors expressed through the primitive cell
        C = np.asarray(am.tools.miller.vector_conventional_to_primitive(np.identity(3), setting=case['setting']), dtype=float)
        Vc = C.dot(ucell.box.vects)
    else:
        Vc = np.asarray(ucell.box.vects)
    g = T.dot(h3.dot(np.linalg.inv(Vc).T))
    axis = np.eye(3)[k]
    if np.linalg.norm(np.cross(g, axis)) > 1e-7 * np.linalg.norm(g) or g[k] <= 0:
        msgs.append('the cut axis is not the normal of the requested plane (normal in the rotated frame %r)' % (g / np.linalg.norm(g)).round(5).tolist())
    # ---- shifts: strictly between atomic planes, midway, one per distinct plane
    width = V[k, k]
    if abs(width - sf.rcellwidth) > 1e-9:
        msgs.append('rcellwidth %r is not the cut component %r' % (sf.rcellwidth, width))
    ys = np.mod(rc.atoms.pos[:, k] - rc.box.origin[k] + 1e-5, width) - 1e-5           # fold the layer at the top face onto the bottom face
    nplanes = len(np.unique(np.round(ys, 4)))
    if len(sf.shifts) != nplanes:
        msgs.append('%d shifts offered for %d distinct atomic planes' % (len(sf.shifts), nplanes))
    if msgs:
        return msgs
    mults = [2, 2, 2]
    mults[k] = 3
    for si in range(len(sf.shifts)):
        for variant in (dict(), dict(vacuumwidth=6.5), dict(minwidth=4.2 * width), dict(even=True), dict(sizemults=[-2, 2, -3][::1])):
            kw = dict(sizemults=list(mults), shiftindex=si)
            kw.update(variant)
            given = list(kw['sizemults'])
            system = sf.surface(**kw)
            tag = 'shiftindex=%d,%s' % (si, ','.join('%s=%r' % kv for kv in sorted(variant.items())) or 'plain')
            if not np.allclose(sf.shift, sf.shifts[si]):
                msgs.append('%s: shift used %r is not shifts[%d]' % (tag, sf.shift.tolist(), si))
            want = list(given)
            if 'minwidth' in variant:
                need = int(np.ceil(variant['minwidth'] / width - 1e-12))
                if need > abs(want[k]):
                    want[k] = int(np.sign(want[k])) * need
            if variant.get('even') and want[k] % 2 == 1:
                want[k] += 1 if want[k] > 0 else -1
            nexp = rc.natoms * abs(int(np.prod(want)))
            if system.natoms != nexp:
                msgs.append('%s: %d atoms, expected %d (multipliers %r)' % (tag, system.natoms, nexp, want))
                continue
            if tuple(bool(x) for x in system.pbc) != tuple(i != k for i in range(3)):
                msgs.append('%s: periodicity %r' % (tag, tuple(system.pbc)))
            vac = variant.get('vacuumwidth', 0.0)
            BV = np.array([abs(want[i]) * V[i] for i in range(3)])
            BV[k, k] += vac
            if not np.allclose(system.box.vects, BV, atol=1e-8):
                msgs.append('%s: cell %r, expected %r' % (tag, system.box.vects.round(4).tolist(), BV.round(4).tolist()))
            mis = lattice_mismatch(ucell, (system.atoms.pos - sf.shift).dot(T), system.atoms.atype)
            if mis.max() > 1e-6:
                msgs.append('%s: the system is not the crystal moved by the shift (fractional mismatch %.3g)' % (tag, mis.max()))
            area = np.linalg.norm(np.cross(BV[i1], BV[i2]))
            if abs(sf.surfacearea - area) > 1e-8 * area:
                msgs.append('%s: surfacearea %r, expected %r' % (tag, sf.surfacearea, area))
            # the cut lies strictly between atomic planes, midway: equal gaps below the lowest and above the highest plane (after removing the vacuum)
            y = system.atoms.pos[:, k]
            lo = system.box.origin[k] + vac / 2
            hi = lo + abs(want[k]) * width
            gap_lo, gap_hi = y.min() - lo, hi - y.max()
            if gap_lo < 1e-6 or gap_hi < 1e-6 or abs(gap_lo - gap_hi) > 1e-6:
                msgs.append('%s: the cut is not midway between atomic planes (gaps %.6f below / %.6f above)' % (tag, gap_lo, gap_hi))
            # distinct atoms
            if len(np.unique(np.round(system.atoms.pos, 5), axis=0)) != system.natoms:
                msgs.append('%s: coincident atoms' % tag)
            if kw['sizemults'] != given and not ('minwidth' in variant or variant.get('even')):
                msgs.append("%s: the caller's sizemults were modified" % tag)
            if msgs:
                return msgs
    # ---- default multipliers (1, 1, 1), the same object asked for every termination twice: each slab is cut from the untouched rotated cell
    rc_pos0, rc_vects0, rc_origin0 = rc.atoms.pos.copy(), rc.box.vects.copy(), rc.box.origin.copy()
    for rnd_ in range(2):
        for si in range(len(sf.shifts)):
            system = sf.surface(shiftindex=si)
            tag = 'default multipliers, call %d, shiftindex=%d' % (rnd_ * len(sf.shifts) + si + 1, si)
            if system is sf.rcell or system.atoms is sf.rcell.atoms:
                msgs.append('%s: the returned system is the generator\'s own rotated cell' % tag)
            if not (np.array_equal(sf.rcell.atoms.pos, rc_pos0) and np.array_equal(sf.rcell.box.vects, rc_vects0) and np.array_equal(sf.rcell.box.origin, rc_origin0)):
                msgs.append('%s: the rotated cell of the generator was modified by building a slab' % tag)
            if system.natoms != rc.natoms:
                msgs.append('%s: %d atoms, expected %d' % (tag, system.natoms, rc.natoms))
            if not np.allclose(system.box.vects, V, atol=1e-8):
                msgs.append('%s: cell %r, expected the rotated cell %r' % (tag, system.box.vects.round(4).tolist(), np.asarray(V).round(4).tolist()))
            y = system.atoms.pos[:, k]
            lo = system.box.origin[k]
            gap_lo, gap_hi = y.min() - lo, lo + width - y.max()
            if gap_lo < 1e-6 or gap_hi < 1e-6 or abs(gap_lo - gap_hi) > 1e-6:
                msgs.append('%s: the cut is not midway between atomic planes (gaps %.6f below / %.6f above)' % (tag, gap_lo, gap_hi))
            mis = lattice_mismatch(ucell, (system.atoms.pos - sf.shifts[si]).dot(T), system.atoms.atype)
            if mis.max() > 1e-6:
                msgs.append('%s: the system is not the crystal moved by the shift (fractional mismatch %.3g)' % (tag, mis.max()))
            if msgs:
                return msgs
    if not with_fault:
        return msgs
    # ---- stacking fault
    si = len(sf.shifts) - 1
    for cutmult, vac, fpos in ((4, None, None), (-4, 5.0, None), (6, None, 'third')):
        m2 = [2, 2, 2]
        m2[k] = cutmult
        kw = dict(sizemults=m2, shiftindex=si)
        if vac is not None:
            kw['vacuumwidth'] = vac
        system = sf.surface(**kw)
        y = system.atoms.pos[:, k]
        o_c, w_c = system.box.origin[k], system.box.vects[k, k]
        if fpos == 'third':
            # a position between two layers one third up: midway between the atomic planes adjacent to it
            layers = np.unique(np.round(y, 6))
            j = len(layers) // 3
            zf = 0.5 * (layers[j] + layers[j + 1])
            sf.faultpos_cart = zf
            if abs(sf.faultpos_rel - (zf - o_c) / w_c) > 1e-12:
                msgs.append('faultpos_rel %r does not correspond to faultpos_cart %r in the built system' % (sf.faultpos_rel, zf))
        else:
            zf = o_c + 0.5 * w_c
            if abs(sf.faultpos_cart - zf) > 1e-9 or abs(sf.faultpos_rel - 0.5) > 1e-12:
                msgs.append('default fault plane at %r (relative %r), expected the middle of the built system %r' % (sf.faultpos_cart, sf.faultpos_rel, zf))
        if np.min(np.abs(y - zf)) < 1e-6:
            continue          # (fault plane on an atomic layer: outside the property's quantifier)
        above = y > zf
        if not np.array_equal(np.asarray(sf.abovefault), above):
            msgs.append('above-fault mask differs from "coordinate above the fault plane" for %d atoms' % int((np.asarray(sf.abovefault) != above).sum()))
        a1c, a2c = sf.a1vect_cart, sf.a2vect_cart
        if abs(a1c[k]) > 1e-9 or abs(a2c[k]) > 1e-9:
            msgs.append('fault shift vectors leave the plane')
        for nm, vec in (('a1', a1c), ('a2', a2c)):
            fr = vec.dot(np.linalg.inv(V))
            if not np.allclose(fr, np.round(fr), atol=1e-7):
                msgs.append('%svect is not a lattice vector of the rotated cell' % nm)
        base = canonical(system.atoms.pos, system.atoms.atype, system.box, (i1, i2))
        for a1, a2, oop in ((0.0, 0.0, None), (1.0, 0.0, None), (0.0, 1.0, None), (1.0, -1.0, None), (0.5, 0.25, None), (1 / 3, 2 / 3, 0.3), (0.37, 0.0, None)):
            kwf = dict(a1=a1, a2=a2)
            if oop is not None:
                kwf['outofplane'] = oop
            out = sf.fault(**kwf)
            tag = 'cutmult=%d,vac=%r,faultpos=%s,a1=%.3f,a2=%.3f,outofplane=%r' % (cutmult, vac, fpos, a1, a2, oop)
            d = a1 * a1c + a2 * a2c + (oop or 0.0) * np.eye(3)[k]
            if out.natoms != system.natoms or not np.array_equal(out.atoms.atype, system.atoms.atype):
                msgs.append('%s: atoms or types changed' % tag)
                continue
            delta = out.atoms.pos - system.atoms.pos - np.where(above[:, None], d[None, :], 0.0)
            fr = delta.dot(np.linalg.inv(system.box.vects))
            fr[:, [i1, i2]] -= np.round(fr[:, [i1, i2]])
            if np.abs(fr.dot(system.box.vects)).max() > 1e-8:
                bad = int(np.argmax(np.abs(fr.dot(system.box.vects)).max(axis=1)))
                msgs.append('%s: atom %d (%s the fault) moved by %r instead of %r modulo in-plane cell vectors'
                            % (tag, bad, 'above' if above[bad] else 'below', (out.atoms.pos[bad] - system.atoms.pos[bad]).round(5).tolist(), (d if above[bad] else d * 0).round(5).tolist()))
            whole = abs(a1 - round(a1)) < 1e-12 and abs(a2 - round(a2)) < 1e-12 and oop is None
            same = np.array_equal(canonical(out.atoms.pos, out.atoms.atype, out.box, (i1, i2)).shape, base.shape) and \
                np.allclose(canonical(out.atoms.pos, out.atoms.atype, out.box, (i1, i2)), base, atol=3e-5)
            if whole and not same:
                msgs.append('%s: shifting by a whole in-plane lattice vector does not restore the perfect crystal' % tag)
            # (atoms pushed out through the free surface enlarge the cell along the non-periodic cut vector: wrap's documented behaviour, C05)
            if not np.allclose(out.box.vects[[i1, i2]], system.box.vects[[i1, i2]]) or np.linalg.norm(np.cross(out.box.vects[k], system.box.vects[k])) > 1e-8 \
                    or (oop is None and (not np.allclose(out.box.vects, system.box.vects) or not np.allclose(out.box.origin, system.box.origin))):
                msgs.append('%s: cell changed' % tag)
            if msgs:
                return msgs
        # explicit vector, and the stored system is not modified
        before = system.atoms.pos.copy()
        vecd = 0.2 * a1c - 0.4 * a2c
        out = sf.fault(faultshift=vecd)
        delta = out.atoms.pos - before - np.where(above[:, None], vecd[None, :], 0.0)
        fr = delta.dot(np.linalg.inv(system.box.vects))
        fr[:, [i1, i2]] -= np.round(fr[:, [i1, i2]])
        if np.abs(fr.dot(system.box.vects)).max() > 1e-8 or not np.array_equal(sf.system.atoms.pos, before):
            msgs.append('fault(faultshift=vector): wrong displacement or the stored system was modified')
        # fault map
        got = [(a1, a2) for a1, a2, s_ in sf.iterfaultmap(num_a1=3, num_a2=2)]
        wantg = sorted((i / 3, j / 2) for i in range(3) for j in range(2))
        if sorted((round(a, 9), round(b, 9)) for a, b in got) != [(round(a, 9), round(b, 9)) for a, b in wantg]:
            msgs.append('iterfaultmap(3, 2) visits %r' % (got,))
        # minimum separation option: atoms below stay, atoms above receive one common additional translation along +normal, applied only when a pair across the plane is closer
        r0 = 0.9 * nearest(system)
        plain = sf.fault(a1=0.5, a2=0.0)
        out = sf.fault(a1=0.5, a2=0.0, minimum_r=r0)
        extra = out.atoms.pos - plain.atoms.pos
        fr = extra.dot(np.linalg.inv(system.box.vects))
        fr[:, [i1, i2]] -= np.round(fr[:, [i1, i2]])
        extra = fr.dot(system.box.vects)
        push = extra[above]
        if np.abs(extra[~above]).max() > 1e-8:
            msgs.append('fault(minimum_r): atoms below the fault moved')
        if len(push) and (np.abs(push - push[0]).max() > 1e-8 or abs(push[0][i1]) > 1e-8 or abs(push[0][i2]) > 1e-8 or push[0][k] < -1e-12):
            msgs.append('fault(minimum_r): atoms above the fault are not translated together along the outward normal (%r)' % push[0].round(5).tolist())
        before_min = cross_plane_min(plain, above, (i1, i2))
        if len(push) and ((before_min >= r0 + 1e-9 and push[0][k] > 1e-9) or (before_min < r0 - 1e-9 and push[0][k] <= 1e-9)):
            msgs.append('fault(minimum_r=%.4f): closest pair across the fault %.4f apart but push %r' % (r0, before_min, push[0].round(5).tolist()))
        if msgs:
            return msgs
    return msgs


def nearest(system):
    pos = system.atoms.pos[:200]
    d = pos[:, None, :] - system.atoms.pos[None, :, :]
    r = np.sqrt((d ** 2).sum(axis=2))
    r[r < 1e-8] = np.inf
    return float(r.min())


def cross_plane_min(system, above, periodic):
    V = system.box.vects
    top, bot = system.atoms.pos[above], system.atoms.pos[~above]
    best = np.inf
    for i, j in itertools.product((-1, 0, 1), repeat=2):
        im = i * V[periodic[0]] + j * V[periodic[1]]
        d = top[:, None, :] - (bot[None, :, :] + im)
        best = min(best, float(np.sqrt((d ** 2).sum(axis=2)).min()))
    return best


def check_case(am, case):
    if case['kind'] == 'basis':
        return check_basis_case(am, case)
    return check_surface_case(am, case)


def replay_cases():
    return [dict(kind='basis', cell='triclinic', hkl=(1, -2, 1), cut='b', four=False, setting=None, key='basis,triclinic,(1,-2,1),b'),
            dict(kind='basis', cell='cubic', hkl=(1, 0, -1), cut='c', four=False, setting=None, key='basis,cubic,(1,0,-1),c'),
            dict(kind='basis', cell='monoclinic', hkl=(-2, 1, 0), cut='a', four=False, setting=None, key='basis,monoclinic,(-2,1,0),a'),
            dict(kind='basis', cell='hexagonal', hkl=(0, 1, -2), cut='b', four=True, setting=None, key='basis,hexagonal,(0,1,-1,-2),b'),
            dict(kind='basis', cell='cubic', hkl=(1, 1, 1), cut='c', four=False, setting='f', key='basis,cubic/f,(1,1,1),c'),
            dict(kind='surface', crystal='fcc', hkl=[1, 1, 1], setting='p', cut='c', key='surface,fcc,111,c'),
            dict(kind='surface', crystal='hcp', hkl=[1, 0, -1, 0], setting='p', cut='a', key='surface,hcp,10-10,a')]
