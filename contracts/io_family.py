"""Bounded run-time contract family shared by C07 (written files are well-formed and describe the system) and C08 (load(dump(s)) = s).

Independent parsers of the LAMMPS data / dump and POSCAR formats (written from the published format rules; no atomman import) are the
post-conditions' oracles.  Everything here is labelled bounded: pandas' CSV code and C printf/strtod are outside the verifier's reach."""
import io
import itertools
import os
import tempfile

import numpy as np

# ----------------------------------------------------------------------------
# independent parsers


def parse_lammps_data(text):
    lines = text.split('\n')
    out = {'natoms': None, 'ntypes': None, 'xy': 0.0, 'xz': 0.0, 'yz': 0.0, 'has_tilt_line': False, 'sections': {}}
    i = 0
    sec = None
    header_over = False
    while i < len(lines):
        raw = lines[i]
        line = raw.split('#')[0].strip()
        i += 1
        if not line:
            continue
        toks = line.split()
        if not header_over:
            if line.endswith('atoms') and len(toks) == 2:
                out['natoms'] = int(toks[0])
                continue
            if line.endswith('atom types'):
                out['ntypes'] = int(toks[0])
                continue
            if len(toks) == 4 and toks[2] in ('xlo', 'ylo', 'zlo'):
                out[toks[2]] = float(toks[0])
                out[toks[3]] = float(toks[1])
                continue
            if len(toks) == 6 and toks[3:] == ['xy', 'xz', 'yz']:
                out['xy'], out['xz'], out['yz'] = float(toks[0]), float(toks[1]), float(toks[2])
                out['has_tilt_line'] = True
                continue
        if toks[0] in ('Atoms', 'Velocities', 'Masses'):
            header_over = True
            sec = toks[0]
            out['sections'][sec] = []
            continue
        if sec is not None:
            out['sections'][sec].append(toks)
        elif i > 1:
            pass
    return out


def parse_lammps_dump(text):
    lines = [l for l in text.split('\n')]
    out = {}
    i = 0
    while i < len(lines):
        l = lines[i].strip()
        if l == 'ITEM: TIMESTEP':
            out['timestep'] = int(lines[i + 1])
            i += 2
        elif l == 'ITEM: NUMBER OF ATOMS':
            out['natoms'] = int(lines[i + 1])
            i += 2
        elif l.startswith('ITEM: BOX BOUNDS'):
            toks = l.split()[3:]
            out['triclinic'] = toks[:3] == ['xy', 'xz', 'yz']
            out['boundary'] = toks[3:] if out['triclinic'] else toks
            rows = [[float(x) for x in lines[i + 1 + k].split()] for k in range(3)]
            out['bounds'] = rows
            i += 4
        elif l.startswith('ITEM: ATOMS'):
            out['columns'] = l.split()[2:]
            rows = []
            i += 1
            while i < len(lines) and lines[i].strip():
                rows.append(lines[i].split())
                i += 1
            out['rows'] = rows
        else:
            i += 1
    return out


def parse_poscar(text):
    lines = text.split('\n')
    out = {'comment': lines[0], 'scale': float(lines[1])}
    out['lattice'] = np.array([[float(x) for x in lines[2 + k].split()] for k in range(3)])
    k = 5
    toks = lines[k].split()
    try:
        counts = [int(t) for t in toks]
        out['symbols'] = None
    except ValueError:
        out['symbols'] = toks
        k += 1
        counts = [int(t) for t in lines[k].split()]
    out['counts'] = counts
    k += 1
    mode = lines[k].strip()
    if mode[:1] in 'sS':
        k += 1
        mode = lines[k].strip()
    out['cartesian'] = mode[:1] in 'cCkK'
    n = sum(counts)
    out['coords'] = np.array([[float(x) for x in lines[k + 1 + a].split()[:3]] for a in range(n)])
    out['nlines_after'] = len([l for l in lines[k + 1 + n:] if l.strip()])
    return out


# ----------------------------------------------------------------------------
# systems

BOXES = {
    'ortho0': dict(vects=[[4.0, 0, 0], [0, 5.0, 0], [0, 0, 6.0]], origin=[0, 0, 0]),
    'orthoO': dict(vects=[[4.0, 0, 0], [0, 5.0, 0], [0, 0, 6.0]], origin=[-1.5, 2.25, 0.75]),
    'tricl': dict(vects=[[4.0, 0, 0], [1.2, 5.0, 0], [-0.7, 0.9, 6.0]], origin=[0.5, -2.0, 3.0]),
}
PBCS = list(itertools.product([True, False], repeat=3))


def make_system(am, boxname, placement, pbc, velocity=False, charge=False, extra=False, gaps=False, symbols=True, seed=0):
    rng = np.random.RandomState(seed)
    b = BOXES[boxname]
    box = am.Box(vects=b['vects'], origin=b['origin'])
    n = 6
    s = rng.uniform(0.05, 0.95, (n, 3))
    if placement == 'outside':
        s[1] += [1.3, 0, 0]
        s[2] += [0, -2.4, 0.0]
        s[3] += [-1.2, 3.3, -1.6]
    elif placement == 'faces':
        s[0] = [0.0, 0.5, 0.5]
        s[1] = [0.25, 0.0, 0.0]
        s[2] = [0.0, 0.0, 0.0]
        s[3] = [0.5, 0.5, 0.0]
    pos = s.dot(np.array(b['vects'])) + np.array(b['origin'])
    atype = np.array([1, 3, 1, 3, 3, 1]) if gaps else np.array([1, 2, 1, 2, 2, 1])       # gaps: type 2 has no atoms
    prop = {'atype': atype, 'pos': pos}
    if velocity:
        prop['velocity'] = rng.uniform(-2, 2, (n, 3))
    if charge:
        prop['charge'] = rng.uniform(-1, 1, n).round(3)
    if extra:
        prop['stress'] = rng.uniform(-1, 1, (n, 3, 3))
        prop['tag'] = np.arange(10, 10 + n)
    nat = int(atype.max())
    sym = ['Al', 'Cu', 'Ni'][:nat] if symbols else None
    return am.System(atoms=am.Atoms(prop=prop), box=box, pbc=pbc, symbols=sym)


def fmt_tol(float_format, scale=1.0):
    """absolute tolerance implied by a printf format for numbers of magnitude `scale`"""
    p = int(float_format[2:-1]) if float_format[1] == '.' else 6
    if float_format.endswith('f'):
        return 0.5000001 * 10.0 ** (-p) * 1.0
    return 0.5000001 * 10.0 ** (-p) * max(scale, 1e-300) * 10


def ftol(float_format, value, margin=4.0):
    """tolerance (same units as value) for a number printed with the printf format: half a unit in the last printed place"""
    p = int(float_format[2:-1])
    v = float(np.max(np.abs(value))) if np.size(value) else 0.0
    if float_format.endswith('f'):
        return margin * 0.5 * 10.0 ** (-p)
    return margin * 0.5 * 10.0 ** (-p) * max(v, 1e-300) * 10


def close(a, b, tol):
    a, b = np.asarray(a, dtype=float), np.asarray(b, dtype=float)
    return a.shape == b.shape and bool(np.all(np.abs(a - b) <= tol))


def same_system(am, s0, s1, tol, check_pbc=True, check_symbols=True, props=None, by_lattice=False, prop_unit=None, float_format=None):
    """field-by-field comparison; returns list of messages"""
    msgs = []
    if s0.natoms != s1.natoms:
        return ['atom count %d != %d' % (s1.natoms, s0.natoms)]
    if not close(s1.box.vects, s0.box.vects, tol * 4):
        msgs.append('cell vectors differ: %r vs %r' % (s1.box.vects.tolist(), s0.box.vects.tolist()))
    if not close(s1.box.origin, s0.box.origin, tol * 4):
        msgs.append('cell origin differs: %r vs %r' % (s1.box.origin.tolist(), s0.box.origin.tolist()))
    if check_pbc and tuple(bool(x) for x in s1.pbc) != tuple(bool(x) for x in s0.pbc):
        msgs.append('pbc %r != %r' % (tuple(s1.pbc), tuple(s0.pbc)))
    if check_symbols and tuple(s1.symbols) != tuple(s0.symbols):
        msgs.append('symbols %r != %r' % (s1.symbols, s0.symbols))
    if not np.array_equal(s1.atoms.atype, s0.atoms.atype):
        msgs.append('atom types %r != %r' % (s1.atoms.atype.tolist(), s0.atoms.atype.tolist()))
    p0, p1 = s0.atoms.pos, s1.atoms.pos
    if by_lattice:
        ds = (p1 - p0).dot(np.linalg.inv(s0.box.vects))
        per = np.array([bool(x) for x in s0.pbc])
        frac = ds - np.round(ds)
        bad = np.abs(frac.dot(s0.box.vects)).max() > tol * 20 or np.abs(np.round(ds)[:, ~per]).max(initial=0) > 0
        if bad:
            msgs.append('positions differ by more than whole cell vectors along periodic directions (max %g)' % np.abs(frac.dot(s0.box.vects)).max())
    elif not close(p1, p0, tol * 20):
        msgs.append('positions differ (max %g)' % np.abs(p1 - p0).max())
    for k in (props if props is not None else [k for k in s0.atoms_prop() if k not in ('atype', 'pos')]):
        if k not in s1.atoms_prop():
            msgs.append('property %r lost' % k)
            continue
        a, b2 = s0.atoms.view[k], s1.atoms.view[k]
        if a.shape != b2.shape:
            msgs.append('property %r shape %r != %r' % (k, b2.shape, a.shape))
        elif not close(b2, a, max(tol * 20 * max(1.0, np.abs(a).max()),
                                  (4 * ftol(float_format, np.asarray(a, dtype=float) / prop_unit[k]) * prop_unit[k]) if (prop_unit and k in prop_unit and float_format) else 0.0)):
            msgs.append('property %r differs (max %g)' % (k, np.abs(np.asarray(b2, dtype=float) - np.asarray(a, dtype=float)).max()))
    return msgs
