"""C05 — Wrapping and normalising move atoms only by lattice vectors or a rotation."""
import hashlib
import itertools
import os
from fractions import Fraction

import numpy as _np

from pyvc.runner import group, REPO
from pyvc import symnp as snp, terms as tm
from pyvc.sym import Sym, realconst
from .common import det3, dot3, cross3, sym_abs, And, Or, Not, Implies, Iff

LEVEL = 'other'
EXPLANATION = ("System.wrap is proved for all 8 periodicity settings on a system with symbolic cell, origin and relative coordinates (2 atoms; the per-atom part is row-wise, the "
               "min/max over atoms is executed): image flags are floor of the relative coordinate along periodic directions and zero otherwise, atoms move by exactly flags x old cell "
               "vectors (so flags reconstruct the originals), the new cell is the old one shifted/stretched along non-periodic directions only, and every atom's new relative "
               "coordinates lie in [0,1). The Cartesian->relative map enters through its C01 contract (stub returning the relative coordinates the positions were built from). "
               "normalize goes through numpy.linalg.lstsq and the lengths/angles constructor (arccos/cos chain): it is checked by a labelled BOUNDED contract over a stated family "
               "including left-handed and strongly tilted cells and systems with a populated reciprocal-vector cache.")
ASSUMPTIONS = ["Box.position_cartesian_to_relative is used through its C01 contract (inverse of relative_to_cartesian)", "wrap proved for natoms = 2 (symbolic), min/max over atoms executed by the facade's ite-min/max",
               "normalize: bounded stand-in only (lstsq, arccos outside the verifier's reach)"]
UNCOVERED = ["wrap for an empty system (min() of an empty array raises; outside the quantifier)", "normalize outside the enumerated family"]

SYSF = 'atomman/core/System.py'
BOXF = 'atomman/core/Box.py'
NORMF = 'atomman/lammps/normalize.py'
PBCS = list(itertools.product([True, False], repeat=3))


def _replay_wrap(stem, vals):
    from pyvc.native import atomman
    import numpy as np
    am = atomman()
    msgs = []
    rng = np.random.RandomState(4)
    cells = [(np.array([[4.0, 0, 0], [1.2, 5.0, 0], [-0.7, 0.9, 6.0]]), np.array([0.5, -2.0, 3.0])), (np.diag([3.0, 4.0, 5.0]), np.zeros(3)),
             (np.array([[3.0, 0.4, -0.3], [0.2, 3.5, 0.6], [-0.5, 0.1, 4.0]]), np.array([-1.0, 0.25, 2.0]))]
    try:
        for (V, o), pbc in itertools.product(cells, PBCS):
            s = rng.uniform(-2.5, 3.5, (7, 3))
            s[0] = [0.0, 1.0, -1.0]
            pos = s.dot(V) + o
            sys_ = am.System(atoms=am.Atoms(pos=pos.copy(), atype=[1, 2, 1, 1, 2, 1, 1]), box=am.Box(vects=V, origin=o), pbc=pbc)
            flags = sys_.wrap(return_imageflags=True)
            newpos = sys_.atoms.pos
            rel = sys_.atoms_prop('pos', scale=True)
            if not np.allclose(newpos + flags.dot(V), pos, atol=1e-9):
                msgs.append('pbc %r: positions + image flags x OLD cell vectors do not reconstruct the originals' % (pbc,))
            for i in range(3):
                if not pbc[i] and (np.any(flags[:, i] != 0)):
                    msgs.append('pbc %r: non-zero image flag along non-periodic direction %d' % (pbc, i))
            if np.any(rel < -1e-9) or np.any(rel >= 1 + 1e-9):
                msgs.append('pbc %r: atoms outside the cell after wrap (relative range %r..%r)' % (pbc, rel.min(axis=0).round(4).tolist(), rel.max(axis=0).round(4).tolist()))
            nV = sys_.box.vects
            for i in range(3):
                if pbc[i] and not np.allclose(nV[i], V[i]):
                    msgs.append('pbc %r: periodic cell vector %d changed' % (pbc, i))
                if not pbc[i] and not np.allclose(np.cross(nV[i], V[i]), 0, atol=1e-9):
                    msgs.append('pbc %r: non-periodic cell vector %d changed direction' % (pbc, i))
            if len(msgs) > 3:
                break
    except Exception as e:
        msgs.append('raised %s: %s' % (type(e).__name__, e))
    return (len(msgs) > 0, '; '.join(msgs[:4]) if msgs else 'float replay over 3 cells x 8 pbc found no disagreement')


def _wrap_group(pbc):
    tag = ''.join('p' if p else 'f' for p in pbc)

    @group('wrap[%s]' % tag, files=[SYSF, BOXF], functions=['System.wrap', 'System.atoms_prop', 'System.box_set', 'Box.position_relative_to_cartesian', 'Box.set_vectors'],
           clause='pbc=%s: image flags are floor(relative coordinate) along periodic directions and zero otherwise; atoms move by exactly flags x old cell vectors; the cell is kept along periodic '
                  'directions and enlarged (origin shifted, vector stretched) along non-periodic ones; every atom ends with relative coordinates in [0,1)' % (pbc,),
           replay=_replay_wrap, timeout_ms=30000)
    def h_(E, L):
        core = L.resolve('atomman.core')
        System, Atoms, Box = core.System, core.Atoms, core.Box
        n = 2
        V = E.reals('V', (3, 3))
        o = E.reals('o', (3,))
        s = E.reals('s', (n, 3))
        E.assume(det3(V) != 0)
        registry = {}

        class CBox(Box):
            """real Box; Cartesian->relative goes through its C01 contract for positions that were built from known relative coordinates"""
            def position_cartesian_to_relative(self, value):
                value = snp.asarray(value)
                key = tuple(x.t.uid if isinstance(x, Sym) else ('c', x) for x in value.ravel())
                if key in registry:
                    return registry[key].copy()
                return Box.position_cartesian_to_relative(self, value)
        box = CBox()
        box._Box__vects = V.copy()
        box._Box__origin = o.copy()
        box._Box__reciprocal_vects = None
        pos = snp.asarray(_np.asarray(s, dtype=object).dot(_np.asarray(V, dtype=object)) + _np.asarray(o, dtype=object))
        registry[tuple(x.t.uid for x in pos.ravel())] = s
        E.canary('wrap.canary[%s]' % tag, s[0, 0] == 0)
        E.side_enabled = False          # divisions by det(V) inside the real reciprocal-vector code are C01's obligations
        system = System(atoms=Atoms(pos=pos.copy(), atype=[1, 1]), box=box, pbc=pbc)
        E.side_enabled = True
        pos0 = pos.copy()
        flags = system.wrap(return_imageflags=True)
        E.prove('wrap.flags.shape[%s]' % tag, flags.shape == (n, 3))
        newpos = system.atoms.view['pos']
        nb = system.box
        nV, no = nb._Box__vects, nb._Box__origin
        mins, maxs = [], []
        for i in range(3):
            if pbc[i]:
                mins.append(realconst(0))
                maxs.append(realconst(1))
            else:
                lo = Sym(tm.min_(s[0, i].t, s[1, i].t))
                hi = Sym(tm.max_(s[0, i].t, s[1, i].t))
                mins.append(Sym(tm.ite(tm.le(lo.t, tm.ZERO), (lo - realconst(Fraction(1, 1000))).t, tm.ZERO)))
                maxs.append(Sym(tm.ite(tm.ge(hi.t, tm.ONE), (hi + realconst(Fraction(1, 1000))).t, tm.ONE)))
        for k in range(n):
            for i in range(3):
                if pbc[i]:
                    E.prove('wrap.flag_is_floor[%s][%d,%d]' % (tag, k, i), flags[k, i] == snp.floor(s[k, i]))
                else:
                    E.prove('wrap.flag_zero_nonperiodic[%s][%d,%d]' % (tag, k, i), flags[k, i] == 0)
            for j in range(3):
                moved = pos0[k, j] - (flags[k, 0] * V[0, j] + flags[k, 1] * V[1, j] + flags[k, 2] * V[2, j])
                E.prove('wrap.moves_by_whole_cell_vectors[%s][%d,%d]' % (tag, k, j), newpos[k, j] == moved)
        # the new cell: near-zero clean-up of the vects setter aside (C01), compare what box_set was given
        for i in range(3):
            w = maxs[i] - mins[i]
            for j in range(3):
                E.prove('wrap.new_cell_vector[%s][%d,%d]' % (tag, i, j), _given(E, L, nb, i, j, V, w))
        for j in range(3):
            E.prove('wrap.new_origin[%s][%d]' % (tag, j), no[j] == o[j] + mins[0] * V[0, j] + mins[1] * V[1, j] + mins[2] * V[2, j])
        # every atom inside: new relative coordinate  (s - flag - min) / (max - min)  in [0, 1)
        for k in range(n):
            for i in range(3):
                w = maxs[i] - mins[i]
                srel = (s[k, i] - flags[k, i] - mins[i])
                E.prove('wrap.inside[%s][%d,%d]' % (tag, k, i), And(w > 0, srel >= 0, srel < w))
        E.prove('wrap.types_untouched[%s]' % tag, list(system.atoms.atype) == [1, 1])
    return h_


def _given(E, L, nb, i, j, V, w):
    """new cell vector i = old vector i * width  (up to the C01 near-zero clean-up of the setter: entry kept or, when tiny relative to the largest entry, zeroed)"""
    S = nb._Box__vects
    want = V[i, j] * w
    return Or(S[i, j] == want, S[i, j] == 0)


for _pbc in PBCS:
    _wrap_group(_pbc)


# ----------------------------------------------------------------------------
# bounded: normalize (lstsq + lengths/angles constructor)

@group('normalize.family', kind='bounded', files=[NORMF, SYSF, BOXF], functions=['lammps.normalize', 'System.wrap', 'System.box_set'],
       clause='normalising a fully periodic system returns a new right-handed LAMMPS-compatible cell with the same lengths, angles and volume, related to the old one by the returned proper '
              'rotation (left-handed cells having the third vector reversed first), with every atom inside and all nearest-image distances unchanged; the input is left as it was',
       rule='cells: 9 (orthogonal, tilted, strongly tilted, rotated, 4 left-handed) x origins {0, shifted} x input histories {fresh, scaled positions read before, wrapped before} x seeded atoms '
            'arbitrarily far outside; distinct by tuple; non-trivial = cell not already LAMMPS-normal')
def normalize_family(tier, seed):
    from pyvc.native import atomman
    import numpy as np
    import copy
    am = atomman()
    rng = np.random.RandomState(21 + seed)
    th = 0.7
    Rz = np.array([[np.cos(th), np.sin(th), 0], [-np.sin(th), np.cos(th), 0], [0, 0, 1]])
    Rx = np.array([[1, 0, 0], [0, np.cos(1.1), np.sin(1.1)], [0, -np.sin(1.1), np.cos(1.1)]])
    base = [np.diag([3.0, 4.0, 5.0]), np.array([[4.0, 0, 0], [1.2, 5.0, 0], [-0.7, 0.9, 6.0]]), np.array([[10.0, 0, 0], [8, 3, 0], [0, 0, 10]]),
            np.array([[4.0, 0, 0], [1.2, 5.0, 0], [-0.7, 0.9, 6.0]]).dot(Rz).dot(Rx), np.array([[3.0, 0.4, -0.3], [0.2, 3.5, 0.6], [-0.5, 0.1, 4.0]])]
    cells = base + [b * np.array([[1], [1], [-1]]) for b in base[:2]] + [base[1][[1, 0, 2]], base[3][[0, 2, 1]]]
    fails, samples = [], []
    evals = nontriv = 0
    grid = np.array(list(itertools.product(range(-5, 6), repeat=3)), dtype=float)

    def nearest(d, V):
        return np.sqrt((((d[None, :] + grid.dot(V)) ** 2).sum(axis=1)).min())
    for ci, V in enumerate(cells):
        for o, hist in itertools.product([np.zeros(3), np.array([0.7, -1.3, 2.1])], ['fresh', 'scaled_read', 'wrapped']):
            evals += 1
            key = 'cell%d,origin=%s,history=%s' % (ci, 'zero' if not o.any() else 'shifted', hist)
            msgs = []
            try:
                n = 5
                s = rng.uniform(-1.5, 2.5, (n, 3))
                pos = s.dot(V) + o
                sys_ = am.System(atoms=am.Atoms(pos=pos.copy(), atype=[1, 2, 1, 2, 1], tagp=np.arange(n)), box=am.Box(vects=V, origin=o), pbc=(True, True, True))
                if hist == 'scaled_read':
                    sys_.atoms_prop('pos', scale=True)
                elif hist == 'wrapped':
                    sys_.wrap()
                    pos = sys_.atoms.pos.copy()
                before = copy.deepcopy(sys_)
                lammps_normal = sys_.box.is_lammps_norm()
                nontriv += (not lammps_normal)
                out, T = am.lammps.normalize(sys_, return_transform=True)
                # input untouched
                if not (np.array_equal(sys_.atoms.pos, before.atoms.pos) and np.array_equal(sys_.box.vects, before.box.vects) and np.array_equal(sys_.box.origin, before.box.origin)):
                    msgs.append('the input system was modified')
                nb = out.box
                if not nb.is_lammps_norm() or np.linalg.det(nb.vects) <= 0:
                    msgs.append('result cell is not right-handed LAMMPS-normal')
                Vflip = V.copy()
                if np.linalg.det(V) < 0:
                    Vflip[2] = -Vflip[2]            # the documented pre-step for left-handed cells
                ob = am.Box(vects=Vflip)
                for nm in ('a', 'b', 'c', 'alpha', 'beta', 'gamma', 'volume'):
                    if not np.isclose(getattr(nb, nm), getattr(ob, nm), rtol=1e-8):
                        msgs.append('%s changed: %r -> %r' % (nm, getattr(ob, nm), getattr(nb, nm)))
                if not (np.allclose(T.dot(T.T), np.eye(3), atol=1e-8) and np.isclose(np.linalg.det(T), 1.0, atol=1e-8)):
                    msgs.append('returned transformation is not a proper rotation (det %r)' % np.linalg.det(T))
                Vold = V.copy()
                if np.linalg.det(V) < 0:
                    Vold[2] = -Vold[2]
                if not np.allclose(nb.vects, Vold.dot(T.T), atol=1e-8 * abs(V).max()):
                    msgs.append('new cell is not the rotated old cell')
                rel = out.atoms_prop('pos', scale=True)
                if np.any(rel < -1e-9) or np.any(rel > 1 + 1e-9):
                    msgs.append('atoms outside the normalised cell')
                # all nearest-image distances unchanged
                P0, P1 = pos, out.atoms.pos
                for a_, b_ in itertools.combinations(range(n), 2):
                    d0 = nearest(P0[b_] - P0[a_], V)
                    d1 = nearest(P1[b_] - P1[a_], nb.vects)
                    if abs(d0 - d1) > 1e-7:
                        msgs.append('nearest-image distance between atoms %d,%d changed: %.6f -> %.6f' % (a_, b_, d0, d1))
                        break
                if not (np.array_equal(out.atoms.atype, sys_.atoms.atype) and np.array_equal(out.atoms.tagp, sys_.atoms.tagp)):
                    msgs.append('per-atom properties changed')
                if len(samples) < 1:
                    samples.append({'case': key, 'new_vects': nb.vects.round(4).tolist()})
            except Exception as e:
                msgs.append('raised %s: %s' % (type(e).__name__, e))
            if msgs:
                fails.append({'obligation': 'normalize.post', 'key': key, 'input': key, 'detail': '; '.join(msgs[:3])})
    files = {rel: hashlib.sha256(open(os.path.join(REPO, rel), 'rb').read()).hexdigest() for rel in (NORMF, SYSF, BOXF)}
    return {'family': 'normalize', 'evaluations': evals, 'distinct_nontrivial': nontriv, 'rule': 'see group rule', 'samples': samples, 'failures': fails[:12], 'files': files}


@group('wrap.family', kind='bounded', files=[SYSF, BOXF], functions=['System.wrap'],
       clause='float conformance of the wrap contract with several atoms, extra per-atom properties, atoms far outside and exactly on faces',
       rule='3 cells x 8 pbc x 7 atoms (one on faces/corners) with seeded positions up to 3 cells outside; non-trivial = every case')
def wrap_family(tier, seed):
    rep, text = _replay_wrap('wrap', {})
    from pyvc.native import atomman
    fails = [] if not rep else [{'obligation': 'wrap.float', 'key': text[:80], 'input': 'see detail', 'detail': text}]
    files = {rel: hashlib.sha256(open(os.path.join(REPO, rel), 'rb').read()).hexdigest() for rel in (SYSF, BOXF)}
    return {'family': 'wrap float conformance', 'evaluations': 24, 'distinct_nontrivial': 24, 'rule': '3 cells x 8 pbc', 'samples': [{'cells': 3, 'pbc': 8}], 'failures': fails, 'files': files}
