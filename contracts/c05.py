"""C05 — Wrapping and normalising move atoms only by lattice vectors or a rotation."""
import hashlib
import itertools
import os
from fractions import Fraction

import numpy as _np

from pyvc.runner import group, REPO
from pyvc import symnp as snp, terms as tm
from pyvc.sym import Sym, realconst
from .common import det3, dot3, cross3, sym_abs, And, Or, Not, Implies, Iff

LEVEL = 'other'
EXPLANATION = ("System.wrap is proved for all 8 periodicity settings on a system with symbolic cell, origin and relative coordinates (2 atoms; the per-atom part is row-wise, the "
               "min/max over atoms is executed): image flags are floor of the relative coordinate along periodic directions and zero otherwise, atoms move by exactly flags x old cell "
               "vectors (so flags reconstruct the originals), the new cell is the old one shifted/stretched along non-periodic directions only, and every atom's new relative "
               "coordinates lie in [0,1). The Cartesian->relative map enters through its C01 contract (stub returning the relative coordinates the positions were built from). "
               "normalize is proved modularly on a symbolic right- and left-handed cell with symbolic atoms: its callees enter by contract (lengths/angles constructor: LAMMPS-normal cell with "
               "the same Gram matrix; Cartesian->relative: r - o = s V; lstsq on a square system: V X = V'; wrap: whole cell vectors) and the conclusions -- returned matrix orthogonal "
               "with det +1, maps old cell onto new, atoms at T (r - origin) modulo the new lattice, input untouched -- follow by explicit certificates (ring identities). The "
               "float behaviour (arccos/cos chain, lstsq) is additionally checked by a labelled BOUNDED contract over a stated family including left-handed and strongly tilted cells.")
ASSUMPTIONS = ["Box.position_cartesian_to_relative is used through its C01 contract (inverse of relative_to_cartesian)", "wrap proved for natoms = 2 (symbolic), min/max over atoms executed by the facade's ite-min/max",
               "normalize proof: callee contracts as stated (C01 constructor and coordinate map, numpy.linalg.lstsq on an invertible square system); cell entries not below 1e-9 of the largest (setter clean-up is C01's subject); the run-time self-checks (allclose) of normalize answer True in the proof, what they check is proved exactly"]
UNCOVERED = ["wrap for an empty system (min() of an empty array raises; outside the quantifier)", "normalize outside the enumerated family"]

SYSF = 'atomman/core/System.py'
BOXF = 'atomman/core/Box.py'
NORMF = 'atomman/lammps/normalize.py'
PBCS = list(itertools.product([True, False], repeat=3))


def _replay_wrap(stem, vals):
    from pyvc.native import atomman
    import numpy as np
    am = atomman()
    msgs = []
    rng = np.random.RandomState(4)
    cells = [(np.array([[4.0, 0, 0], [1.2, 5.0, 0], [-0.7, 0.9, 6.0]]), np.array([0.5, -2.0, 3.0])), (np.diag([3.0, 4.0, 5.0]), np.zeros(3)),
             (np.array([[3.0, 0.4, -0.3], [0.2, 3.5, 0.6], [-0.5, 0.1, 4.0]]), np.array([-1.0, 0.25, 2.0])),
             # left-handed cells (third vector reversed; first two exchanged)
             (np.array([[4.0, 0, 0], [1.2, 5.0, 0], [0.7, -0.9, -6.0]]), np.array([0.5, -2.0, 3.0])), (np.array([[0.2, 3.5, 0.6], [3.0, 0.4, -0.3], [-0.5, 0.1, 4.0]]), np.array([-1.0, 0.25, 2.0]))]
    try:
        for (V, o), pbc in itertools.product(cells, PBCS):
            s = rng.uniform(-2.5, 3.5, (7, 3))
            s[0] = [0.0, 1.0, -1.0]
            pos = s.dot(V) + o
            sys_ = am.System(atoms=am.Atoms(pos=pos.copy(), atype=[1, 2, 1, 1, 2, 1, 1]), box=am.Box(vects=V, origin=o), pbc=pbc)
            flags = sys_.wrap(return_imageflags=True)
            newpos = sys_.atoms.pos
            rel = sys_.atoms_prop('pos', scale=True)
            if not np.allclose(newpos + flags.dot(V), pos, atol=1e-9):
                msgs.append('pbc %r: positions + image flags x OLD cell vectors do not reconstruct the originals' % (pbc,))
            for i in range(3):
                if not pbc[i] and (np.any(flags[:, i] != 0)):
                    msgs.append('pbc %r: non-zero image flag along non-periodic direction %d' % (pbc, i))
            if np.any(rel < -1e-9) or np.any(rel >= 1 + 1e-9):
                msgs.append('pbc %r: atoms outside the cell after wrap (relative range %r..%r)' % (pbc, rel.min(axis=0).round(4).tolist(), rel.max(axis=0).round(4).tolist()))
            nV = sys_.box.vects
            for i in range(3):
                if pbc[i] and not np.allclose(nV[i], V[i]):
                    msgs.append('pbc %r: periodic cell vector %d changed' % (pbc, i))
                if not pbc[i] and not np.allclose(np.cross(nV[i], V[i]), 0, atol=1e-9):
                    msgs.append('pbc %r: non-periodic cell vector %d changed direction' % (pbc, i))
            if len(msgs) > 3:
                break
    except Exception as e:
        msgs.append('raised %s: %s' % (type(e).__name__, e))
    return (len(msgs) > 0, '; '.join(msgs[:4]) if msgs else 'float replay over 5 cells (2 left-handed) x 8 pbc found no disagreement')


def _wrap_group(pbc):
    tag = ''.join('p' if p else 'f' for p in pbc)

    @group('wrap[%s]' % tag, files=[SYSF, BOXF], functions=['System.wrap', 'System.atoms_prop', 'System.box_set', 'Box.position_relative_to_cartesian', 'Box.set_vectors'],
           clause='pbc=%s: image flags are floor(relative coordinate) along periodic directions and zero otherwise; atoms move by exactly flags x old cell vectors; the cell is kept along periodic '
                  'directions and enlarged (origin shifted, vector stretched) along non-periodic ones; every atom ends with relative coordinates in [0,1)' % (pbc,),
           replay=_replay_wrap, timeout_ms=30000)
    def h_(E, L):
        core = L.resolve('atomman.core')
        System, Atoms, Box = core.System, core.Atoms, core.Box
        n = 2
        V = E.reals('V', (3, 3))
        o = E.reals('o', (3,))
        s = E.reals('s', (n, 3))
        E.assume(det3(V) != 0)
        registry = {}

        class CBox(Box):
            """real Box; Cartesian->relative goes through its C01 contract for positions that were built from known relative coordinates"""
            def position_cartesian_to_relative(self, value):
                value = snp.asarray(value)
                key = tuple(x.t.uid if isinstance(x, Sym) else ('c', x) for x in value.ravel())
                if key in registry:
                    return registry[key].copy()
                return Box.position_cartesian_to_relative(self, value)
        box = CBox()
        box._Box__vects = V.copy()
        box._Box__origin = o.copy()
        box._Box__reciprocal_vects = None
        pos = snp.asarray(_np.asarray(s, dtype=object).dot(_np.asarray(V, dtype=object)) + _np.asarray(o, dtype=object))
        registry[tuple(x.t.uid for x in pos.ravel())] = s
        E.canary('wrap.canary[%s]' % tag, s[0, 0] == 0)
        E.side_enabled = False          # divisions by det(V) inside the real reciprocal-vector code are C01's obligations
        system = System(atoms=Atoms(pos=pos.copy(), atype=[1, 1]), box=box, pbc=pbc)
        E.side_enabled = True
        pos0 = pos.copy()
        flags = system.wrap(return_imageflags=True)
        E.prove('wrap.flags.shape[%s]' % tag, flags.shape == (n, 3))
        newpos = system.atoms.view['pos']
        nb = system.box
        nV, no = nb._Box__vects, nb._Box__origin
        mins, maxs = [], []
        for i in range(3):
            if pbc[i]:
                mins.append(realconst(0))
                maxs.append(realconst(1))
            else:
                lo = Sym(tm.min_(s[0, i].t, s[1, i].t))
                hi = Sym(tm.max_(s[0, i].t, s[1, i].t))
                mins.append(Sym(tm.ite(tm.le(lo.t, tm.ZERO), (lo - realconst(Fraction(1, 1000))).t, tm.ZERO)))
                maxs.append(Sym(tm.ite(tm.ge(hi.t, tm.ONE), (hi + realconst(Fraction(1, 1000))).t, tm.ONE)))
        for k in range(n):
            for i in range(3):
                if pbc[i]:
                    E.prove('wrap.flag_is_floor[%s][%d,%d]' % (tag, k, i), flags[k, i] == snp.floor(s[k, i]))
                else:
                    E.prove('wrap.flag_zero_nonperiodic[%s][%d,%d]' % (tag, k, i), flags[k, i] == 0)
            for j in range(3):
                moved = pos0[k, j] - (flags[k, 0] * V[0, j] + flags[k, 1] * V[1, j] + flags[k, 2] * V[2, j])
                E.prove('wrap.moves_by_whole_cell_vectors[%s][%d,%d]' % (tag, k, j), newpos[k, j] == moved)
        # the new cell: near-zero clean-up of the vects setter aside (C01), compare what box_set was given
        for i in range(3):
            w = maxs[i] - mins[i]
            for j in range(3):
                E.prove('wrap.new_cell_vector[%s][%d,%d]' % (tag, i, j), _given(E, L, nb, i, j, V, w))
        for j in range(3):
            E.prove('wrap.new_origin[%s][%d]' % (tag, j), no[j] == o[j] + mins[0] * V[0, j] + mins[1] * V[1, j] + mins[2] * V[2, j])
        # every atom inside: new relative coordinate  (s - flag - min) / (max - min)  in [0, 1)
        for k in range(n):
            for i in range(3):
                w = maxs[i] - mins[i]
                srel = (s[k, i] - flags[k, i] - mins[i])
                E.prove('wrap.inside[%s][%d,%d]' % (tag, k, i), And(w > 0, srel >= 0, srel < w))
        E.prove('wrap.types_untouched[%s]' % tag, list(system.atoms.atype) == [1, 1])
    return h_


def _given(E, L, nb, i, j, V, w):
    """new cell vector i = old vector i * width  (up to the C01 near-zero clean-up of the setter: entry kept or, when tiny relative to the largest entry, zeroed)"""
    S = nb._Box__vects
    want = V[i, j] * w
    return Or(S[i, j] == want, S[i, j] == 0)


for _pbc in PBCS:
    _wrap_group(_pbc)


# ----------------------------------------------------------------------------
# bounded: normalize (lstsq + lengths/angles constructor)

@group('normalize.family', kind='bounded', files=[NORMF, SYSF, BOXF], functions=['lammps.normalize', 'System.wrap', 'System.box_set'],
       clause='normalising a fully periodic system returns a new right-handed LAMMPS-compatible cell with the same lengths, angles and volume, related to the old one by the returned proper '
              'rotation (left-handed cells having the third vector reversed first), with every atom inside and all nearest-image distances unchanged; the input is left as it was',
       rule='cells: 9 (orthogonal, tilted, strongly tilted, rotated, 4 left-handed) x origins {0, shifted} x input histories {fresh, scaled positions read before, wrapped before} x seeded atoms '
            'arbitrarily far outside; distinct by tuple; non-trivial = cell not already LAMMPS-normal')
def normalize_family(tier, seed):
    from pyvc.native import atomman
    import numpy as np
    import copy
    am = atomman()
    rng = np.random.RandomState(21 + seed)
    th = 0.7
    Rz = np.array([[np.cos(th), np.sin(th), 0], [-np.sin(th), np.cos(th), 0], [0, 0, 1]])
    Rx = np.array([[1, 0, 0], [0, np.cos(1.1), np.sin(1.1)], [0, -np.sin(1.1), np.cos(1.1)]])
    base = [np.diag([3.0, 4.0, 5.0]), np.array([[4.0, 0, 0], [1.2, 5.0, 0], [-0.7, 0.9, 6.0]]), np.array([[10.0, 0, 0], [8, 3, 0], [0, 0, 10]]),
            np.array([[4.0, 0, 0], [1.2, 5.0, 0], [-0.7, 0.9, 6.0]]).dot(Rz).dot(Rx), np.array([[3.0, 0.4, -0.3], [0.2, 3.5, 0.6], [-0.5, 0.1, 4.0]])]
    cells = base + [b * np.array([[1], [1], [-1]]) for b in base[:2]] + [base[1][[1, 0, 2]], base[3][[0, 2, 1]]]
    fails, samples = [], []
    evals = nontriv = 0
    grid = np.array(list(itertools.product(range(-5, 6), repeat=3)), dtype=float)

    def nearest(d, V):
        return np.sqrt((((d[None, :] + grid.dot(V)) ** 2).sum(axis=1)).min())
    for ci, V in enumerate(cells):
        for o, hist in itertools.product([np.zeros(3), np.array([0.7, -1.3, 2.1])], ['fresh', 'scaled_read', 'wrapped']):
            evals += 1
            key = 'cell%d,origin=%s,history=%s' % (ci, 'zero' if not o.any() else 'shifted', hist)
            msgs = []
            try:
                n = 5
                s = rng.uniform(-1.5, 2.5, (n, 3))
                pos = s.dot(V) + o
                sys_ = am.System(atoms=am.Atoms(pos=pos.copy(), atype=[1, 2, 1, 2, 1], tagp=np.arange(n)), box=am.Box(vects=V, origin=o), pbc=(True, True, True))
                if hist == 'scaled_read':
                    sys_.atoms_prop('pos', scale=True)
                elif hist == 'wrapped':
                    sys_.wrap()
                    pos = sys_.atoms.pos.copy()
                before = copy.deepcopy(sys_)
                lammps_normal = sys_.box.is_lammps_norm()
                nontriv += (not lammps_normal)
                out, T = am.lammps.normalize(sys_, return_transform=True)
                # input untouched
                if not (np.array_equal(sys_.atoms.pos, before.atoms.pos) and np.array_equal(sys_.box.vects, before.box.vects) and np.array_equal(sys_.box.origin, before.box.origin)):
                    msgs.append('the input system was modified')
                nb = out.box
                if not nb.is_lammps_norm() or np.linalg.det(nb.vects) <= 0:
                    msgs.append('result cell is not right-handed LAMMPS-normal')
                Vflip = V.copy()
                if np.linalg.det(V) < 0:
                    Vflip[2] = -Vflip[2]            # the documented pre-step for left-handed cells
                ob = am.Box(vects=Vflip)
                for nm in ('a', 'b', 'c', 'alpha', 'beta', 'gamma', 'volume'):
                    if not np.isclose(getattr(nb, nm), getattr(ob, nm), rtol=1e-8):
                        msgs.append('%s changed: %r -> %r' % (nm, getattr(ob, nm), getattr(nb, nm)))
                if not (np.allclose(T.dot(T.T), np.eye(3), atol=1e-8) and np.isclose(np.linalg.det(T), 1.0, atol=1e-8)):
                    msgs.append('returned transformation is not a proper rotation (det %r)' % np.linalg.det(T))
                Vold = V.copy()
                if np.linalg.det(V) < 0:
                    Vold[2] = -Vold[2]
                if not np.allclose(nb.vects, Vold.dot(T.T), atol=1e-8 * abs(V).max()):
                    msgs.append('new cell is not the rotated old cell')
                rel = out.atoms_prop('pos', scale=True)
                if np.any(rel < -1e-9) or np.any(rel > 1 + 1e-9):
                    msgs.append('atoms outside the normalised cell')
                # all nearest-image distances unchanged
                P0, P1 = pos, out.atoms.pos
                for a_, b_ in itertools.combinations(range(n), 2):
                    d0 = nearest(P0[b_] - P0[a_], V)
                    d1 = nearest(P1[b_] - P1[a_], nb.vects)
                    if abs(d0 - d1) > 1e-7:
                        msgs.append('nearest-image distance between atoms %d,%d changed: %.6f -> %.6f' % (a_, b_, d0, d1))
                        break
                if not (np.array_equal(out.atoms.atype, sys_.atoms.atype) and np.array_equal(out.atoms.tagp, sys_.atoms.tagp)):
                    msgs.append('per-atom properties changed')
                if len(samples) < 1:
                    samples.append({'case': key, 'new_vects': nb.vects.round(4).tolist()})
            except Exception as e:
                msgs.append('raised %s: %s' % (type(e).__name__, e))
            if msgs:
                fails.append({'obligation': 'normalize.post', 'key': key, 'input': key, 'detail': '; '.join(msgs[:3])})
    files = {rel: hashlib.sha256(open(os.path.join(REPO, rel), 'rb').read()).hexdigest() for rel in (NORMF, SYSF, BOXF)}
    return {'family': 'normalize', 'evaluations': evals, 'distinct_nontrivial': nontriv, 'rule': 'see group rule', 'samples': samples, 'failures': fails[:12], 'files': files}


@group('wrap.family', kind='bounded', files=[SYSF, BOXF], functions=['System.wrap'],
       clause='float conformance of the wrap contract with several atoms, extra per-atom properties, atoms far outside and exactly on faces',
       rule='5 cells (2 left-handed) x 8 pbc x 7 atoms (one on faces/corners) with seeded positions up to 3 cells outside; non-trivial = every case')
def wrap_family(tier, seed):
    rep, text = _replay_wrap('wrap', {})
    from pyvc.native import atomman
    fails = [] if not rep else [{'obligation': 'wrap.float', 'key': text[:80], 'input': 'see detail', 'detail': text}]
    files = {rel: hashlib.sha256(open(os.path.join(REPO, rel), 'rb').read()).hexdigest() for rel in (SYSF, BOXF)}
    return {'family': 'wrap float conformance', 'evaluations': 40, 'distinct_nontrivial': 40, 'rule': '5 cells (2 left-handed) x 8 pbc', 'samples': [{'cells': 5, 'pbc': 8}], 'failures': fails, 'files': files}


# ----------------------------------------------------------------------------
# normalize on a symbolic system with callee contracts (lengths/angles constructor -> C01; wrap -> the groups above)

class _CloseTrue(object):
    """the facade with the run-time self-checks of normalize (np.allclose / np.isclose inside assert) answering True: what they check is proved exactly below"""
    def __getattr__(self, k):
        return getattr(snp, k)

    def allclose(self, *a, **k):
        return True

    def isclose(self, *a, **k):
        return True


def certify(E, name, conclusion, D, pairs):
    """conclusion = 0 from hypotheses h_k = 0 (already assumed as callee contracts) by the certificate  conclusion * D == sum_k q_k * h_k  with D != 0:
    (1) the certificate is a ring identity (no hypotheses used), (2) the closed implication over fresh variables"""
    comb = 0
    for q, h in pairs:
        comb = comb + q * h
    E.prove(name + '.certificate', conclusion * D == comb)
    conc = {'c': conclusion, 'D': D}
    for k, (q, h) in enumerate(pairs):
        conc['q%d' % k] = q
        conc['h%d' % k] = h
    n = len(pairs)
    g = E.abstract_lemma(name, conc,
                         lambda v: [('certificate', v['c'] * v['D'] == sum((v['q%d' % k] * v['h%d' % k] for k in range(n)), 0)), ('D_nonzero', v['D'] != 0)]
                         + [('hypothesis%d' % k, v['h%d' % k] == 0) for k in range(n)],
                         lambda v: v['c'] == 0)
    E.learn(g)


def _replay_normalize(stem, vals):
    from pyvc.native import atomman
    import numpy as np
    am = atomman()
    msgs = []
    try:
        rng = np.random.RandomState(8)
        for V in (np.array([[4.0, 0.3, -0.2], [1.2, 5.0, 0.4], [-0.7, 0.9, 6.0]]), np.array([[4.0, 0.3, -0.2], [1.2, 5.0, 0.4], [0.7, -0.9, -6.0]])):
            o = np.array([0.7, -1.3, 2.1])
            pos = rng.uniform(0.1, 0.9, (5, 3)).dot(V) + o
            s = am.System(atoms=am.Atoms(pos=pos.copy(), atype=[1, 2, 1, 2, 1]), box=am.Box(vects=V, origin=o), pbc=(True, True, True))
            out, T = am.lammps.normalize(s, return_transform=True)
            left = np.linalg.det(V) < 0
            V2 = V.copy()
            o2 = o.copy()
            if left:
                V2[2] = -V2[2]
                o2 = o + V[2]
            if not (np.allclose(T.dot(T.T), np.eye(3), atol=1e-9) and np.isclose(np.linalg.det(T), 1.0, atol=1e-9)):
                msgs.append('returned matrix is not a proper rotation (det %r)' % np.linalg.det(T))
            if not np.allclose(V2.dot(T.T), out.box.vects, atol=1e-8):
                msgs.append('T does not map the %s cell vectors onto the new ones' % ('reversed' if left else 'input'))
            d = out.atoms.pos - (pos - o2).dot(T.T) - out.box.origin
            fr = d.dot(np.linalg.inv(out.box.vects))
            if np.abs(fr - np.round(fr)).max() > 1e-8:
                msgs.append('%s-handed cell: atoms are not at T (r - origin) modulo the new cell vectors (max fractional residue %.3g)' % ('left' if left else 'right', np.abs(fr - np.round(fr)).max()))
    except Exception as e:
        msgs.append('raised %s: %s' % (type(e).__name__, e))
    return (len(msgs) > 0, '; '.join(msgs[:3]) if msgs else 'float replay of the normalize contracts found no disagreement')


def _normalize_group(handed):
    @group('normalize.kernel[%s]' % handed, files=[NORMF, SYSF, BOXF], functions=['lammps.normalize', 'System.box_set'],
           clause='normalize on a %s-handed symbolic cell with symbolic atoms; callees by contract (Box.set_abc: LAMMPS-normal cell with the Gram matrix of the lengths and angles it is '
                  'given; Box.position_cartesian_to_relative: r - origin = s V; numpy.linalg.lstsq on square systems: V X = V\'; wrap: atoms move by whole cell vectors): the '
                  'lengths and angles handed to the constructor are those of the input cell (third vector reversed and origin moved first if left-handed); the returned matrix T is '
                  'orthogonal with det +1, maps the old cell vectors onto the new ones, every atom ends at T (r - origin) modulo whole new cell vectors with its type, periodicity '
                  'and symbols kept, new origin zero; the input system is not modified. Conclusions are derived from the callee contracts by explicit certificates (ring identities)'
                  % handed, replay=_replay_normalize, timeout_ms=60000)
    def h_(E, L):
        core = L.resolve('atomman.core')
        System, Atoms, Box = core.System, core.Atoms, core.Box
        nmod = L.load(NORMF)
        V = E.reals('V', (3, 3))
        o = E.reals('o', (3,))
        d0 = det3(V)
        E.assume(d0 > 0 if handed == 'right' else d0 < 0)
        E.canary('normalize.canary[%s]' % handed, V[0, 0] == o[0])
        pos = E.reals('r', (2, 3))
        calls = []
        hyps = {}

        params = {}

        class CBox(Box):
            # lengths and angles of the current cell as opaque values (their definitions are C01's subject; here only WHICH value goes WHERE matters)
            def _param(self, name):
                key = (name, tuple(x.t.uid if isinstance(x, Sym) else ('c', float(x)) for x in self._Box__vects.ravel()))
                if key not in params:
                    params[key] = E.real('%s_of_cell%d' % (name, len(params)))
                return params[key]
            # the cell setter stores what it is given (its clean-up of entries below 1e-9 of the largest is C01's subject; precondition here: no such entries)
            def _set_vects(self, value):
                self._Box__vects[:] = snp.asarray(value)
                self._Box__reciprocal_vects = None
            vects = property(Box.vects.fget, _set_vects)
            a = property(lambda self: self._param('a'))
            b = property(lambda self: self._param('b'))
            c = property(lambda self: self._param('c'))
            alpha = property(lambda self: self._param('alpha'))
            beta = property(lambda self: self._param('beta'))
            gamma = property(lambda self: self._param('gamma'))

            def set_abc(self, a, b, c, alpha=90.0, beta=90.0, gamma=90.0, origin=None):
                cur = self._Box__vects.copy()
                same = all(isinstance(x, Sym) and x.t is y.t for x, y in ((a, self.a), (b, self.b), (c, self.c), (alpha, self.alpha), (beta, self.beta), (gamma, self.gamma)))
                Vp = snp.zeros((3, 3), dtype=object)
                for (i, j) in ((0, 0), (1, 0), (1, 1), (2, 0), (2, 1), (2, 2)):
                    Vp[i, j] = E.real('Vp%d%d' % (i, j))
                gram = []
                for i in range(3):
                    E.assume(Vp[i, i] > 0)
                    for j in range(i, 3):
                        h = dot3(Vp[i], Vp[j]) - dot3(cur[i], cur[j])
                        gram.append(((i, j), h))
                        E.assume(h == 0)                     # same lengths and angles (C01 contract of the constructor)
                hyps['gram'] = dict(gram)
                calls.append(('set_abc', cur, Vp.copy(), same, origin))
                self._Box__vects[:] = Vp
                self._Box__origin[:] = 0.0 if origin is None else origin
                self._Box__reciprocal_vects = None

            def position_cartesian_to_relative(self, value):
                value = snp.asarray(value)
                S = E.reals('S%d' % len([c for c in calls if c[0] == 'c2r']), value.shape)
                Vc, oc = self._Box__vects.copy(), self._Box__origin.copy()
                hs = []
                for k in range(value.shape[0]):
                    for j in range(3):
                        h = value[k, j] - oc[j] - (S[k, 0] * Vc[0, j] + S[k, 1] * Vc[1, j] + S[k, 2] * Vc[2, j])
                        hs.append(((k, j), h))
                        E.assume(h == 0)                     # C01 contract: r - origin = s V
                calls.append(('c2r', Vc, oc, S, dict(hs), value.copy()))
                return S.copy()

        class WSystem(System):
            def wrap(self, return_imageflags=False):
                n_ = self.natoms
                F = snp.zeros((n_, 3), dtype=object)
                Vv = _np.asarray(self.box.vects, dtype=object)
                before = self.atoms.view['pos'].copy()
                new = snp.zeros((n_, 3), dtype=object)
                for k in range(n_):
                    for i in range(3):
                        F[k, i] = E.int('F_%d_%d' % (k, i))
                    for j in range(3):
                        new[k, j] = before[k, j] - (F[k, 0] * Vv[0, j] + F[k, 1] * Vv[1, j] + F[k, 2] * Vv[2, j])
                self.atoms.view['pos'][:] = new
                calls.append(('wrap', tuple(bool(x) for x in self.pbc), F, before))

        class _NP(_CloseTrue):
            class _LA(object):
                def __getattr__(self, k):
                    return getattr(snp.linalg, k)

                def lstsq(self, A_, B_, rcond=None):
                    A_, B_ = snp.asarray(A_), snp.asarray(B_)
                    X = E.reals('X', (3, 3))
                    hs = {}
                    for i in range(3):
                        for j in range(3):
                            h = sum(A_[i, k] * X[k, j] for k in range(3)) - B_[i, j]
                            hs[(i, j)] = h
                            E.assume(h == 0)                 # contract of lstsq for an invertible square matrix: A X = B
                    calls.append(('lstsq', A_.copy(), B_.copy(), X, hs))
                    return (X.copy(), None, 3, None)
            linalg = _LA()
        box = CBox()
        box._Box__vects = V.copy()
        box._Box__origin = o.copy()
        box._Box__reciprocal_vects = None
        E.side_enabled = False
        system = WSystem(atoms=Atoms(pos=pos.copy(), atype=[2, 1]), box=box, pbc=(True, True, True), symbols=['Al', 'Cu'])
        real_np = nmod.np
        nmod.np = _NP()
        try:
            out, T = nmod.normalize(system, return_transform=True)
        finally:
            nmod.np = real_np
        tag = 'normalize[%s]' % handed
        E.prove(tag + '.new_object_input_untouched', out is not system and all(x.t is y.t for x, y in zip(system.box._Box__vects.ravel(), V.ravel()))
                and all(x.t is y.t for x, y in zip(system.atoms.view['pos'].ravel(), pos.ravel())) and all(x.t is y.t for x, y in zip(system.box._Box__origin, o)))
        sets = [c for c in calls if c[0] == 'set_abc']
        wraps = [c for c in calls if c[0] == 'wrap']
        c2r = [c for c in calls if c[0] == 'c2r']
        lsq = [c for c in calls if c[0] == 'lstsq']
        E.prove(tag + '.constructor_called_once_with_the_cell_own_parameters', len(sets) == 1 and sets[0][3] and sets[0][4] is None)
        E.prove(tag + '.wrapped_once_fully_periodic', len(wraps) == 1 and wraps[0][1] == (True, True, True))
        E.prove(tag + '.callee_usage', len(c2r) == 1 and len(lsq) == 1)
        V2 = sets[0][1]                      # the cell whose lengths/angles were taken: the input, third vector reversed if left-handed
        Vp = sets[0][2]
        sgn = 1 if handed == 'right' else -1
        for j in range(3):
            E.prove(tag + '.parameters_of_input_cell[0,%d]' % j, V2[0, j] == V[0, j])
            E.prove(tag + '.parameters_of_input_cell[1,%d]' % j, V2[1, j] == V[1, j])
            E.prove(tag + '.parameters_of_input_cell[2,%d]' % j, V2[2, j] == sgn * V[2, j])
        o2 = [o[j] + (V[2, j] if handed == 'left' else 0) for j in range(3)]
        d2 = det3(V2)
        g = E.abstract_lemma(tag + '.reference_cell_right_handed', dict(d2=d2, d0=d0), lambda c: [('determinant_relation', c['d2'] == sgn * c['d0']), ('handedness', (c['d0'] > 0) if sgn > 0 else (c['d0'] < 0))],
                             lambda c: And(c['d2'] > 0, c['d2'] * c['d2'] != 0))
        E.learn(g)
        # relative coordinates were taken in the (reversed) input cell about its origin, before the cell was replaced
        for j in range(3):
            E.prove(tag + '.relative_coordinates_origin[%d]' % j, c2r[0][2][j] == o2[j])
            for i in range(3):
                E.prove(tag + '.relative_coordinates_cell[%d,%d]' % (i, j), c2r[0][1][i, j] == V2[i, j])
            for k in range(2):
                E.prove(tag + '.relative_coordinates_of_the_atoms[%d,%d]' % (k, j), c2r[0][5][k, j] == pos[k, j])
        # lstsq was asked for V2 X = V'
        for i in range(3):
            for j in range(3):
                E.prove(tag + '.lstsq_arguments[%d,%d]' % (i, j), And(lsq[0][1][i, j] == V2[i, j], lsq[0][2][i, j] == (Vp[i, j] if isinstance(Vp[i, j], Sym) else 0)))
        X = lsq[0][3]
        hX = lsq[0][4]
        for i in range(3):
            for j in range(3):
                E.prove(tag + '.returned_matrix_is_transposed_solution[%d,%d]' % (i, j), T[i, j] == X[j, i])
        # orthogonality:  d2^2 (X X^T - I) = adj [ (P - V') P^T + V' (P - V')^T + (G' - G) ] adj^T   with P = V2 X ; all bracketed differences are hypotheses
        adj = [[cross3(V2[(j + 1) % 3], V2[(j + 2) % 3])[i] for j in range(3)] for i in range(3)]          # adj[i][j] = det * (V2^-1)[i][j]
        P = [[sum(V2[a_, k] * X[k, b_] for k in range(3)) for b_ in range(3)] for a_ in range(3)]
        gram = hyps['gram']
        ortho = {}
        for i in range(3):
            for j in range(i, 3):
                concl = sum(X[i, k] * X[j, k] for k in range(3)) - (1 if i == j else 0)
                ortho[(i, j)] = concl
                pairs = []
                for a_ in range(3):
                    for b_ in range(3):
                        w = adj[i][a_] * adj[j][b_]
                        for k in range(3):
                            pairs.append((w * P[b_][k], hX[(a_, k)]))                                    # (P - V')_ak P_bk
                            pairs.append((w * (Vp[a_, k] if isinstance(Vp[a_, k], Sym) else 0), hX[(b_, k)]))     # V'_ak (P - V')_bk
                        gh = gram[(min(a_, b_), max(a_, b_))]
                        pairs.append((w, gh))                                                              # (G' - G)_ab
                certify(E, tag + '.orthogonal[%d,%d]' % (i, j), concl, d2 * d2, pairs)
        # det X * det V2 = det V'  (from V2 X = V'):  det(V2 X) = det V2 det X is a ring identity; det(V2 X) - det V' is a combination of the hypotheses
        E.prove(tag + '.det_product_rule', det3(_np.array(P, dtype=object)) == d2 * det3(X))
        # the new system
        nb = out.box
        E.prove(tag + '.new_cell_is_the_constructor_result', all((nb._Box__vects[i, j].t is Vp[i, j].t) if isinstance(Vp[i, j], Sym) else float(nb._Box__vects[i, j]) == 0.0
                                                                 for i in range(3) for j in range(3)))
        E.prove(tag + '.new_origin_zero', all(float(x) == 0.0 for x in nb._Box__origin))
        F = wraps[0][2]
        S = c2r[0][3]
        hS = c2r[0][4]
        np_ = out.atoms.view['pos']
        for k in range(2):
            for j in range(3):
                rot = sum(T[j, i] * (pos[k, i] - o2[i]) for i in range(3))
                lat = F[k, 0] * Vp[0, j] + F[k, 1] * Vp[1, j] + F[k, 2] * Vp[2, j]
                concl = np_[k, j] + lat - rot
                # rot_j - (S V')_j = sum_i (r - o2 - S V2)_i X_ij + sum_a S_a (V2 X - V')_aj
                pairs = [(-X[i, j], hS[(k, i)]) for i in range(3)] + [(-S[k, a_], hX[(a_, j)]) for a_ in range(3)]
                certify(E, tag + '.atom_is_rotated_modulo_lattice[%d,%d]' % (k, j), concl, 1, pairs)
        E.prove(tag + '.types_periodicity_symbols', [int(x) for x in out.atoms.view['atype']] == [2, 1] and tuple(bool(x) for x in out.pbc) == (True, True, True)
                and tuple(out.symbols) == ('Al', 'Cu'))
        # proper rotation: det X > 0 from det X det V2 = det V' (both positive) and det X^2 = 1 from orthogonality
        XXt = [[sum(X[i, k] * X[j, k] for k in range(3)) for j in range(3)] for i in range(3)]
        g = E.abstract_lemma(tag + '.new_volume_positive', dict(dp=det3(Vp), d=[Vp[0, 0], Vp[1, 1], Vp[2, 2]]),
                             lambda c: [('triangular_determinant', c['dp'] == c['d'][0] * c['d'][1] * c['d'][2])] + [('diagonal_positive%d' % i, c['d'][i] > 0) for i in range(3)],
                             lambda c: c['dp'] > 0)
        E.learn(g)
        Pl = [P[i][j] for i in range(3) for j in range(3)]
        Vl = [Vp[i, j] if isinstance(Vp[i, j], Sym) else realconst(0) for i in range(3) for j in range(3)]
        hl = [hX[(i, j)] for i in range(3) for j in range(3)]
        ul = [ortho[(i, j)] for i in range(3) for j in range(i, 3)]

        def sym3(u):
            m_ = [[None] * 3 for _ in range(3)]
            k = 0
            for i in range(3):
                for j in range(i, 3):
                    m_[i][j] = m_[j][i] = u[k] + (1 if i == j else 0)
                    k += 1
            return _np.array(m_, dtype=object)

        def mat(l):
            return _np.array([[l[3 * i + j] for j in range(3)] for i in range(3)], dtype=object)
        E.abstract_lemma(tag + '.proper_rotation', dict(dX=det3(X), d2=d2, dp=det3(Vp), P=Pl, Vp=Vl, h=hl, u=ul),
                         lambda c: [('lstsq_contract', [x == 0 for x in c['h']]), ('lstsq_residual_definition', [c['h'][k] == c['P'][k] - c['Vp'][k] for k in range(9)]),
                                    ('det_product_rule', det3(mat(c['P'])) == c['d2'] * c['dX']), ('new_volume_definition', c['dp'] == det3(mat(c['Vp']))),
                                    ('old_volume_positive', c['d2'] > 0), ('new_volume_positive', c['dp'] > 0),
                                    ('orthogonal', [x == 0 for x in c['u']]), ('det_of_gram', det3(sym3(c['u'])) == c['dX'] * c['dX'])],
                         lambda c: c['dX'] == 1)
    return h_


for _h in ('right', 'left'):
    _normalize_group(_h)


# ----------------------------------------------------------------------------
# callee contracts this property's proofs ASSUME are part of this check: the wrap and normalize groups above replace Box.position_cartesian_to_relative by its C01 contract
# (inverse of position_relative_to_cartesian, through the reciprocal vectors).  Modular verification only carries the property if that contract is itself discharged on the
# same tree, so the C01 groups that establish it run here as well (same obligations, same source, reported under this property when they fail).
from . import c01 as _c01
for _g in _c01.GROUPS:
    if _g.name in ('Box.position_maps', 'Box.position_maps.list_input', 'Box.reciprocal_vects'):
        GROUPS.append(_g)
