"""C13 — Dislocation configurations: reference crystal displaced by the elastic solution."""
import itertools
import math
from fractions import Fraction

import numpy as _np

from pyvc.runner import group, REPO
from pyvc import symnp as snp, terms as tm
from pyvc.sym import Sym, realconst
from .common import det3, dot3, cross3, And, Or, Not, Implies, Iff, sym_abs

LEVEL = 'other'
EXPLANATION = ("The generators are executed from the real source on SYMBOLIC data with their callees replaced by contract stubs (modular: supersize -> C04, wrap -> C05, displacement -> C12, "
               "region predicates -> the region groups of this file): monopole() and periodicarray() are proved to pass the documented symmetric multiplier ranges to supersize, to apply the "
               "requested shift (shift, every shiftindex including 0, scaled shifts; the stored shift otherwise), to add to every reference atom the solution evaluated at its reference "
               "position minus the centre, to keep all atoms and types, to be periodic along the line only, and to re-type exactly the atoms outside the region computed from the reference "
               "box and width; set_shift, the box/cylinder/array boundary constructions and Plane/PlaneSet/Cylinder predicates are proved over symbolic triclinic cells and points; the linear "
               "field of the periodic array is proved to carry exactly one Burgers vector of disregistry across the cell. Everything depending on np.unique/np.isclose/np.interp selections "
               "(rotated-cell search, plane shifts, duplicate deletion, disregistry extraction) is a labelled bounded contract check on real crystals against independent lattice oracles.")
ASSUMPTIONS = ["callee contracts used as stubs in the generator proofs: System.supersize (C04), System.wrap (C05: atoms move by integer multiples of the cell vectors along periodic directions "
               "only), VolterraDislocation.displacement (C12), build_disl_array (bounded group periodicarray.family)",
               "3 atoms in the symbolic generator proofs (per-atom arithmetic is uniform; counts concrete)"]
UNCOVERED = ["dipole() generator (not named by the property)", "rotated-cell search / duplicate deletion / disregistry extraction outside the bounded family"]

MONO = 'atomman/defect/Dislocation/_monopole.py'
PARR = 'atomman/defect/Dislocation/_periodicarray.py'
DINIT = 'atomman/defect/Dislocation/__init__.py'
DISR = 'atomman/defect/disregistry.py'
CYL = 'atomman/region/Cylinder.py'
PSET = 'atomman/region/PlaneSet.py'
PLANE = 'atomman/region/Plane.py'
SHAPE = 'atomman/region/Shape.py'
BOXF = 'atomman/core/Box.py'
SYSF = 'atomman/core/System.py'

VECTS = [[4.0, 0, 0], [1.0, 5.0, 0], [0.5, -0.5, 6.0]]
ORIGIN = [-2.0, -3.0, -1.0]


# ----------------------------------------------------------------------------
# helpers for the generator proofs

class _Calls(object):
    def __init__(self):
        self.log = []

    def add(self, *a):
        self.log.append(a)

    def of(self, name):
        return [c for c in self.log if c[0] == name]


def _fake_dislocation(E, L, lineindex, calls, natoms=3, outside_mask=(True, False, True), stored_shift=None, old_id=None):
    """object with the attributes the generator functions read from `self`, every callee replaced by its contract"""
    core = L.resolve('atomman.core')
    System, Atoms, Box = core.System, core.Atoms, core.Box
    P = E.reals('P', (natoms, 3))
    U = E.reals('U', (natoms, 3))
    sh = E.reals('stored_shift', (3,)) if stored_shift is None else stored_shift

    class WSystem(System):
        """real System; wrap() replaced by its C05 contract: atoms move by integer multiples F of the cell vectors, F = 0 along non-periodic directions"""
        def wrap(self, return_imageflags=False):
            pbc = tuple(bool(x) for x in self.pbc)
            n = self.natoms
            F = snp.zeros((n, 3), dtype=object)
            tagn = len(calls.of('wrap'))
            for k in range(n):
                for i in range(3):
                    F[k, i] = E.int('F%d_%d_%d' % (tagn, k, i)) if pbc[i] else 0
            V = _np.asarray(self.box.vects, dtype=object)
            before = self.atoms.view['pos'].copy()
            new = snp.zeros((n, 3), dtype=object)
            for k in range(n):
                for j in range(3):
                    new[k, j] = before[k, j] - (F[k, 0] * V[0, j] + F[k, 1] * V[1, j] + F[k, 2] * V[2, j])
            self.atoms.view['pos'][:] = new
            calls.add('wrap', self, pbc, F, before)

    P0 = E.reals('P0', (2, 3))

    class RCell(object):
        box = Box(vects=[[2.0, 0, 0], [1.5, 2.0, 0], [0, 1.8, 2.4]])

        class atoms(object):
            pos = P0.copy()
        pos_before = P0

        def wrap(self, *a, **k):
            calls.add('rcell.wrap')

        def supersize(self, *mults):
            calls.add('supersize', mults)
            s = WSystem(atoms=Atoms(atype=[1, 2, 1], pos=P.copy()), box=Box(vects=VECTS, origin=ORIGIN), pbc=(True, True, True), symbols=['Al', 'Cu'])
            self.made = s
            return s

    class UCell(object):
        box = Box(vects=[[3.0, 0, 0], [0, 3.0, 0], [0, 0, 3.0]])

    class Sol(object):
        m = _np.array([0.0, 1.0, 0.0])
        n = _np.array([0.0, 0.0, 1.0])

        def displacement(self, pos):
            calls.add('displacement', snp.asarray(pos).copy())
            return U.copy()

    class ShapeStub(object):
        def __init__(self, kind, box, width):
            self.kind, self.box, self.width = kind, box, width

        def outside(self, pos, inclusive=False):
            calls.add('outside', self.kind, snp.asarray(pos).copy(), inclusive)
            return _np.array(outside_mask[:len(pos)], dtype=bool)

    class Fake(object):
        def __init__(self):
            self.lineindex = lineindex
            self.cutindex = (lineindex + 2) % 3
            self.motionindex = 3 - self.lineindex - self.cutindex
            self.rcell = RCell()
            self.ucell = UCell()
            self.dislsol = Sol()
            self._shift = sh

        @property
        def shift(self):
            return self._shift

        def set_shift(self, shift=None, shiftindex=None, shiftscale=False):
            calls.add('set_shift', shift, shiftindex, shiftscale)
            self._shift = snp.asarray(E.reals('shift_after_set%d' % len(calls.of('set_shift')), (3,)))

        def set_systems(self, base, disl):
            calls.add('set_systems', base, disl)

        def box_boundary(self, box, width):
            calls.add('box_boundary', box, width)
            return ShapeStub('box', box, width)

        def cylinder_boundary(self, box, width):
            calls.add('cylinder_boundary', box, width)
            return ShapeStub('cylinder', box, width)

        def array_boundary(self, box, width):
            calls.add('array_boundary', box, width)
            return ShapeStub('array', box, width)

        def build_disl_array(self, base_system, center, linear=False, bwidth=None, cutoff=None):
            # contract (bounded group periodicarray.family): a sub-selection of the reference atoms, labelled by old_id, in a sheared cell
            calls.add('build_disl_array', base_system, snp.asarray(center).copy(), linear, bwidth, cutoff, base_system.atoms.view['pos'].copy())
            ids = list(old_id)
            newv = _np.array(VECTS)
            newv[self.motionindex] = newv[self.motionindex] - _np.array([0.0, 0.25, 0.0])
            d = WSystem(atoms=base_system.atoms[ids], box=Box(vects=newv, origin=ORIGIN), pbc=(True, True, True), symbols=base_system.symbols)
            d.atoms.old_id = _np.array(ids)
            return d
    return Fake(), P, U, sh


def _expected_mults(lineindex, mults):
    out = [None] * 3
    for i in range(3):
        out[i] = (0, mults[i]) if i == lineindex else (-(mults[i] // 2), mults[i] // 2)
    return tuple(out)


def _replay_generators(stem, vals):
    """float replay on a real fcc crystal of the generator contracts"""
    from pyvc.native import atomman
    from . import c13_family as fam
    am = atomman()
    msgs = []
    try:
        cases = fam.quick_cases()
        if 'box_boundary' in stem:
            pick = [c for c in cases if c.get('boundary') == 'box'][:4]
        elif 'cylinder' in stem:
            pick = [c for c in cases if c.get('boundary') == 'cylinder'][:3]
        elif 'periodicarray' in stem or 'shear' in stem or 'array' in stem:
            pick = [c for c in cases if c.get('gen') == 'periodicarray'][:3]
        else:
            pick = cases[:3]
        for case in pick:
            msgs += ['%s: %s' % (case['key'], m) for m in fam.check_case(am, case) if not m.startswith('REFUSED')]
        if 'set_shift' in stem or 'shift' in stem:
            # a shift given relative to the rotated cell's vectors is shift . vects, also when those vectors are not orthogonal
            import numpy as np
            done_ = 0
            for case in [c for c in cases if c['key'].startswith(('hcp_pyramidal', 'hcp_prism', 'bcc_mixed', 'fcc_mixed'))]:
                built = fam.build(am, case)
                d = built[2] if isinstance(built, tuple) else built
                if d is None or np.allclose(d.rcell.box.vects, np.diag(np.diag(d.rcell.box.vects))) or done_ >= 2:
                    continue
                done_ += 1
                rel = np.array([0.13, 0.21, 0.34])
                d.set_shift(shift=rel, shiftscale=True)
                want = rel.dot(d.rcell.box.vects)
                if not np.allclose(d.shift, want, atol=1e-10):
                    msgs.append('%s: set_shift(shift=%r, shiftscale=True) stores %r; shift . (rotated cell vectors) = %r' % (case['key'], rel.tolist(), np.round(d.shift, 6).tolist(), np.round(want, 6).tolist()))
    except Exception as e:
        msgs.append('raised %s: %s' % (type(e).__name__, e))
    return (len(msgs) > 0, '; '.join(msgs[:3]) if msgs else 'float replay of the generator contracts on real crystals found no disagreement')


# ----------------------------------------------------------------------------
# monopole

def _monopole_group(lineindex):
    @group('monopole.kernel[line=%d]' % lineindex, files=[MONO, SYSF], functions=['Dislocation.monopole'],
           clause='monopole (line along cell vector %d): supersize receives (0,n) along the line and (-n/2,n/2) across it; the reference system is that supercell moved by the shift and '
                  'wrapped; every reference atom is kept with its type and displaced by the solution evaluated at its reference position minus the centre, modulo whole line vectors; '
                  'periodic along the line only; boundary atoms are exactly those the region built from the reference box and width reports outside, re-typed by +natypes' % lineindex,
           replay=_replay_generators, timeout_ms=20000)
    def h_(E, L):
        mono = L.load(MONO)
        tagl = '[line=%d]' % lineindex
        variants = [
            ('default', dict(), None),
            ('shiftindex0', dict(shiftindex=0), ('set', None, 0, False)),
            ('shiftindex2', dict(shiftindex=2, sizemults=[4, 2, 6] if lineindex != 1 else [4, 3, 6]), ('set', None, 2, False)),
            ('shift', dict(shift='SYM', shiftscale=True, sizemults=(2, 4, 2) if lineindex != 0 else (1, 4, 2)), ('set', 'SYM', None, True)),
            ('center', dict(center='SYM'), None),
            ('box', dict(boundaryshape='box', boundarywidth='SYM'), None),
            ('cylinder', dict(boundaryshape='cylinder', boundarywidth='SYM', center='SYM', return_base_system=True), None),
            ('cylscale', dict(boundarywidth='SYM', boundaryscale=True), None),
        ]
        first = True
        for vname, kw, setcall in variants:
            calls = _Calls()
            fake, P, U, stored = _fake_dislocation(E, L, lineindex, calls)
            if first:
                E.canary('monopole.canary' + tagl, P[0, 0] == U[0, 0])
                first = False
            kw = dict(kw)
            tag = 'monopole.%s%s' % (vname, tagl)
            shift_in = center_in = width_in = None
            if kw.get('shift') == 'SYM':
                shift_in = kw['shift'] = E.reals('shift_in', (3,))
            if kw.get('center') == 'SYM':
                center_in = kw['center'] = E.reals('center_in', (3,))
            if kw.get('boundarywidth') == 'SYM':
                width_in = kw['boundarywidth'] = E.real('width_in')
                E.assume(width_in > 0)
            mults_in = kw.get('sizemults')
            mults_snapshot = None if mults_in is None else tuple(mults_in)
            res = mono.monopole(fake, **kw)
            if kw.get('return_base_system'):
                E.prove(tag + '.returns_pair', isinstance(res, tuple) and len(res) == 2)
                base_ret, disl = res
            else:
                base_ret, disl = None, res
            # supersize argument
            sup = calls.of('supersize')
            base_mults = [2, 2, 2]
            base_mults[lineindex] = 1
            want = _expected_mults(lineindex, list(mults_snapshot) if mults_snapshot else base_mults)
            E.prove(tag + '.supersize_ranges', len(sup) == 1 and tuple(tuple(int(x) for x in m) for m in sup[0][1]) == want)
            if mults_in is not None:
                E.prove(tag + '.caller_sizemults_untouched', tuple(mults_in) == mults_snapshot and type(mults_in) in (list, tuple))
            # shift handling
            sets = calls.of('set_shift')
            if setcall is None:
                E.prove(tag + '.stored_shift_used', len(sets) == 0)
                shift_used = stored
            else:
                ok = len(sets) == 1 and sets[0][2] == setcall[2] and sets[0][3] is setcall[3] and ((sets[0][1] is None) if setcall[1] is None else (sets[0][1] is shift_in))
                E.prove(tag + '.set_shift_called_with_request', ok)
                shift_used = fake._shift
            # the two systems
            ss = calls.of('set_systems')
            E.prove(tag + '.systems_recorded', len(ss) == 1 and ss[0][2] is disl and (base_ret is None or ss[0][1] is base_ret))
            base = ss[0][1]
            wraps = calls.of('wrap')
            E.prove(tag + '.wraps', len(wraps) == 2 and wraps[0][1] is base and wraps[0][2] == (True, True, True) and wraps[1][1] is disl
                    and wraps[1][2] == tuple(i == lineindex for i in range(3)))
            F0, F1 = wraps[0][3], wraps[1][3]
            V = _np.array(VECTS)
            E.prove(tag + '.natoms', base.natoms == 3 and disl.natoms == 3)
            bp = base.atoms.view['pos']
            dp = disl.atoms.view['pos']
            disp = calls.of('displacement')
            E.prove(tag + '.solution_evaluated_once', len(disp) == 1 and disp[0][1].shape == (3, 3))
            for k in range(3):
                for j in range(3):
                    ref = P[k, j] + shift_used[j] - (F0[k, 0] * V[0, j] + F0[k, 1] * V[1, j] + F0[k, 2] * V[2, j])
                    E.prove(tag + '.reference_is_shifted_supercell[%d,%d]' % (k, j), bp[k, j] == ref)
                    c = center_in[j] if center_in is not None else 0
                    E.prove(tag + '.solution_argument[%d,%d]' % (k, j), disp[0][1][k, j] == ref - c)
                    E.prove(tag + '.displaced_by_solution[%d,%d]' % (k, j), dp[k, j] == ref + U[k, j] - F1[k, lineindex] * V[lineindex, j])
            E.prove(tag + '.periodic_along_line_only', tuple(bool(x) for x in disl.pbc) == tuple(i == lineindex for i in range(3)))
            E.prove(tag + '.reference_periodicity_kept', tuple(bool(x) for x in base.pbc) == (True, True, True))
            E.prove(tag + '.reference_types', [int(x) for x in base.atoms.view['atype']] == [1, 2, 1] and tuple(base.symbols) == ('Al', 'Cu'))
            E.prove(tag + '.separate_objects', base is not disl and not _np.shares_memory(_np.asarray(bp), _np.asarray(dp)))
            E.prove(tag + '.rotated_cell_untouched', not calls.of('rcell.wrap') and all(x.t is y.t for x, y in zip(fake.rcell.atoms.pos.ravel(), fake.rcell.pos_before.ravel())))
            if width_in is None:
                E.prove(tag + '.no_boundary', [int(x) for x in disl.atoms.view['atype']] == [1, 2, 1] and tuple(disl.symbols) == ('Al', 'Cu') and not calls.of('outside'))
            else:
                kind = kw.get('boundaryshape', 'cylinder')
                bcall = calls.of(kind + '_boundary')
                other = calls.of(('box' if kind == 'cylinder' else 'cylinder') + '_boundary')
                wwant = width_in * 3.0 if kw.get('boundaryscale') else width_in
                E.prove(tag + '.region_from_reference_box', len(bcall) == 1 and not other and bcall[0][1] is base.box)
                E.prove(tag + '.region_width', bcall[0][2] == wwant)
                out = calls.of('outside')
                E.prove(tag + '.outside_asked_of_displaced_atoms', len(out) == 1 and out[0][1] == kind and out[0][3] is False)
                for k in range(3):
                    for j in range(3):
                        E.prove(tag + '.outside_argument[%d,%d]' % (k, j), out[0][2][k, j] == dp[k, j])
                E.prove(tag + '.boundary_retyped', [int(x) for x in disl.atoms.view['atype']] == [1 + 2, 2, 1 + 2])
                E.prove(tag + '.boundary_symbols', tuple(disl.symbols) == ('Al', 'Cu', 'Al', 'Cu'))
                E.prove(tag + '.reference_not_retyped', [int(x) for x in base.atoms.view['atype']] == [1, 2, 1])
        # refusals
        for bad, nm in (([2, 2], 'two'), ([2.0, 2, 2], 'float'), ([0, 2, 2], 'zero'), ([3 if i != lineindex else 2 for i in range(3)], 'odd_across_line')):
            calls = _Calls()
            fake, P, U, stored = _fake_dislocation(E, L, lineindex, calls)
            try:
                mono.monopole(fake, sizemults=bad)
                E.prove('monopole.refuses_%s%s' % (nm, tagl), False)
            except TypeError:
                E.prove('monopole.refuses_%s%s' % (nm, tagl), not calls.of('supersize'))
        calls = _Calls()
        fake, P, U, stored = _fake_dislocation(E, L, lineindex, calls)
        try:
            mono.monopole(fake, boundaryshape='sphere')
            E.prove('monopole.refuses_shape' + tagl, False)
        except ValueError:
            E.prove('monopole.refuses_shape' + tagl, not calls.of('supersize'))
    return h_


for _li in range(3):
    _monopole_group(_li)


@group('monopole.multipliers', files=[MONO], functions=['Dislocation.monopole', 'Dislocation.periodicarray'],
       clause='minimum-width arguments: the multiplier along each direction is the larger of the requested one and ceil(min/length) rounded up to even across the line, for both generators',
       replay=_replay_generators)
def multipliers(E, L):
    mono = L.load(MONO)
    parr = L.load(PARR)
    lens = [2.0, 2.5, 3.0]
    n = 0
    for gen, fn in (('monopole', mono.monopole), ('periodicarray', parr.periodicarray)):
        for lineindex in range(3):
            for mins in ((0.0, 0.0, 0.0), (3.9, 0.0, 0.0), (4.0, 0.1, 0.1), (4.1, 7.0, 2.9), (9.0, 13.0, 31.0), (2.0, 2.5, 3.0), (1.0, 20.0, 0.0)):
                for sm in (None, [2, 2, 2], (4, 6, 2)):
                    if sm is not None and sm[lineindex] % 2 == 0 and False:
                        pass
                    calls = _Calls()
                    fake, P, U, stored = _fake_dislocation(E, L, lineindex, calls, old_id=[0, 1, 2])
                    base = [2, 2, 2]
                    base[lineindex] = 1
                    given = list(sm) if sm is not None else base
                    want = []
                    for i in range(3):
                        m = given[i]
                        if mins[i] > 0:
                            c = int(math.ceil(mins[i] / lens[i]))
                            if i != lineindex and c % 2 == 1:
                                c += 1
                            m = max(m, c)
                        want.append(m)
                    fn(fake, sizemults=sm, amin=mins[0], bmin=mins[1], cmin=mins[2])
                    sup = calls.of('supersize')
                    got = tuple(tuple(int(x) for x in m) for m in sup[0][1]) if len(sup) == 1 else None
                    E.prove('multipliers.%s[line=%d][%d]' % (gen, lineindex, n), got == _expected_mults(lineindex, want))
                    n += 1
    E.canary('multipliers.canary', P[0, 0] == 0)


# ----------------------------------------------------------------------------
# periodic array driver

def _parray_group(lineindex):
    @group('periodicarray.kernel[line=%d]' % lineindex, files=[PARR, SYSF], functions=['Dislocation.periodicarray'],
           clause='periodicarray (line along cell vector %d): supersize receives the documented ranges; the requested shift is applied for every shiftindex including 0 (the stored shift '
                  'otherwise); build_disl_array receives the shifted wrapped supercell and the centre; the returned reference system consists of exactly the reference atoms named by '
                  'old_id, in that order; boundary atoms are those outside the array region of the reference box' % lineindex,
           replay=_replay_generators, timeout_ms=20000)
    def h_(E, L):
        parr = L.load(PARR)
        tagl = '[line=%d]' % lineindex
        variants = [
            ('default', dict(), None, [0, 2]),
            ('shiftindex0', dict(shiftindex=0), ('set', None, 0, False), [2, 0]),
            ('shiftindex1', dict(shiftindex=1, sizemults=[4, 2, 6] if lineindex != 1 else [4, 3, 6]), ('set', None, 1, False), [1]),
            ('shift', dict(shift='SYM', shiftscale=True, linear=True, cutoff=0.25), ('set', 'SYM', None, True), [0, 1, 2]),
            ('center', dict(center='SYM', return_base_system=True), None, [1, 2]),
            ('boundary', dict(boundarywidth='SYM', center='SYM'), None, [0, 1, 2]),
            ('boundaryscale', dict(boundarywidth='SYM', boundaryscale=True), None, [2, 1]),
        ]
        first = True
        for vname, kw, setcall, old_id in variants:
            calls = _Calls()
            fake, P, U, stored = _fake_dislocation(E, L, lineindex, calls, old_id=old_id)
            if first:
                E.canary('periodicarray.canary' + tagl, P[0, 0] == U[0, 0])
                first = False
            kw = dict(kw)
            tag = 'periodicarray.%s%s' % (vname, tagl)
            shift_in = center_in = width_in = None
            if kw.get('shift') == 'SYM':
                shift_in = kw['shift'] = E.reals('shift_in', (3,))
            if kw.get('center') == 'SYM':
                center_in = kw['center'] = E.reals('center_in', (3,))
            if kw.get('boundarywidth') == 'SYM':
                width_in = kw['boundarywidth'] = E.real('width_in')
                E.assume(width_in > 0)
            mults_in = kw.get('sizemults')
            mults_snapshot = None if mults_in is None else tuple(mults_in)
            res = parr.periodicarray(fake, **kw)
            if kw.get('return_base_system'):
                E.prove(tag + '.returns_pair', isinstance(res, tuple) and len(res) == 2)
                base_ret, disl = res
            else:
                base_ret, disl = None, res
            sup = calls.of('supersize')
            base_mults = [2, 2, 2]
            base_mults[lineindex] = 1
            want = _expected_mults(lineindex, list(mults_snapshot) if mults_snapshot else base_mults)
            E.prove(tag + '.supersize_ranges', len(sup) == 1 and tuple(tuple(int(x) for x in m) for m in sup[0][1]) == want)
            if mults_in is not None:
                E.prove(tag + '.caller_sizemults_untouched', tuple(mults_in) == mults_snapshot)
            sets = calls.of('set_shift')
            if setcall is None:
                E.prove(tag + '.stored_shift_used', len(sets) == 0)
                shift_used = stored
            else:
                ok = len(sets) == 1 and sets[0][2] == setcall[2] and sets[0][3] is setcall[3] and ((sets[0][1] is None) if setcall[1] is None else (sets[0][1] is shift_in))
                E.prove(tag + '.set_shift_called_with_request', ok)
                shift_used = fake._shift
            ss = calls.of('set_systems')
            E.prove(tag + '.systems_recorded', len(ss) == 1 and ss[0][2] is disl and (base_ret is None or ss[0][1] is base_ret))
            base = ss[0][1]
            wraps = calls.of('wrap')
            E.prove(tag + '.reference_wrapped_fully_periodic', len(wraps) == 1 and wraps[0][2] == (True, True, True))
            F0 = wraps[0][3]
            V = _np.array(VECTS)
            b = calls.of('build_disl_array')
            E.prove(tag + '.builder_called_once', len(b) == 1 and b[0][1] is wraps[0][1])
            E.prove(tag + '.builder_options', b[0][3] is bool(kw.get('linear', False)) and b[0][5] == kw.get('cutoff'))
            wwant = None
            if width_in is not None:
                wwant = width_in * 3.0 if kw.get('boundaryscale') else width_in
            E.prove(tag + '.builder_boundary_width', (b[0][4] == wwant) if wwant is not None else (b[0][4] == 0.0))
            for j in range(3):
                c = center_in[j] if center_in is not None else 0
                E.prove(tag + '.builder_centre[%d]' % j, b[0][2][j] == c)
            full = b[0][6]
            for k in range(3):
                for j in range(3):
                    ref = P[k, j] + shift_used[j] - (F0[k, 0] * V[0, j] + F0[k, 1] * V[1, j] + F0[k, 2] * V[2, j])
                    E.prove(tag + '.builder_reference_is_shifted_supercell[%d,%d]' % (k, j), full[k, j] == ref)
            E.prove(tag + '.natoms', base.natoms == len(old_id) and disl.natoms == len(old_id))
            bp = base.atoms.view['pos']
            at = [1, 2, 1]
            for q, k in enumerate(old_id):
                for j in range(3):
                    E.prove(tag + '.reference_atom_of_old_id[%d,%d]' % (q, j), bp[q, j] == full[k, j])
            E.prove(tag + '.reference_types_of_old_id', [int(x) for x in base.atoms.view['atype']] == [at[k] for k in old_id])
            E.prove(tag + '.reference_cell_is_supercell', _np.array_equal(_np.asarray(base.box.vects, dtype=float), V) and tuple(bool(x) for x in base.pbc) == (True, True, True))
            E.prove(tag + '.rotated_cell_untouched', not calls.of('rcell.wrap') and all(x.t is y.t for x, y in zip(fake.rcell.atoms.pos.ravel(), fake.rcell.pos_before.ravel())))
            if width_in is None:
                E.prove(tag + '.no_boundary', [int(x) for x in disl.atoms.view['atype']] == [at[k] for k in old_id] and not calls.of('outside'))
            else:
                bc = calls.of('array_boundary')
                E.prove(tag + '.region_from_reference_box', len(bc) == 1 and _np.array_equal(_np.asarray(bc[0][1].vects, dtype=float), V)
                        and _np.array_equal(_np.asarray(bc[0][1].origin, dtype=float), _np.array(ORIGIN)))
                E.prove(tag + '.region_width', bc[0][2] == wwant)
                out = calls.of('outside')
                dpos = disl.atoms.view['pos']
                E.prove(tag + '.outside_asked_of_displaced_atoms', len(out) == 1 and out[0][3] is False)
                for k in range(len(old_id)):
                    for j in range(3):
                        E.prove(tag + '.outside_argument[%d,%d]' % (k, j), out[0][2][k, j] == dpos[k, j])
                mask = (True, False, True)[:len(old_id)]
                E.prove(tag + '.boundary_retyped', [int(x) for x in disl.atoms.view['atype']] == [at[k] + (2 if mask[q] else 0) for q, k in enumerate(old_id)])
                E.prove(tag + '.boundary_symbols', tuple(disl.symbols) == ('Al', 'Cu', 'Al', 'Cu'))
        for bad, nm in (([2, 2], 'two'), ([2.0, 2, 2], 'float'), ([0, 2, 2], 'zero'), ([3 if i != lineindex else 2 for i in range(3)], 'odd_across_line')):
            calls = _Calls()
            fake, P, U, stored = _fake_dislocation(E, L, lineindex, calls, old_id=[0])
            try:
                parr.periodicarray(fake, sizemults=bad)
                E.prove('periodicarray.refuses_%s%s' % (nm, tagl), False)
            except TypeError:
                E.prove('periodicarray.refuses_%s%s' % (nm, tagl), not calls.of('supersize'))
    return h_


for _li in range(3):
    _parray_group(_li)


@group('periodicarray.linear_field', files=[PARR], functions=['linear_displacement'],
       clause='the linear field of the periodic array: displacement is parallel to the Burgers vector, its jump across the slip plane at in-plane coordinate x is (1/2 - x/L) b, so the '
              'disregistry accumulates to exactly one Burgers vector across the cell length L, and the field is odd in the out-of-plane coordinate',
       replay=_replay_generators)
def linear_field(E, L):
    parr = L.load(PARR)
    b = E.reals('b', (3,))
    Lg = E.real('L')
    E.assume(Lg > 0)
    x = E.real('x')
    yp = E.real('yp')
    ym = E.real('ym')
    E.assume(yp > 0)
    E.assume(ym < 0)
    E.canary('linear_field.canary', x == yp)
    m = _np.array([1.0, 0.0, 0.0])
    n = _np.array([0.0, 1.0, 0.0])
    z = E.real('z')

    def at(xx, yy):
        pos = snp.asarray(_np.array([[xx, yy, z]], dtype=object))
        return parr.linear_displacement(pos, b, Lg, m, n)[0]
    up, um = at(x, yp), at(x, ym)
    half = realconst(Fraction(1, 2))
    for j in range(3):
        E.prove('linear_field.jump[%d]' % j, up[j] - um[j] == (half - x / Lg) * b[j])
        E.prove('linear_field.odd[%d]' % j, up[j] == -um[j])
    left_p, left_m = at(-Lg / 2, yp), at(-Lg / 2, ym)
    right_p, right_m = at(Lg / 2, yp), at(Lg / 2, ym)
    for j in range(3):
        E.prove('linear_field.accumulates_to_b[%d]' % j, (left_p[j] - left_m[j]) - (right_p[j] - right_m[j]) == b[j])
        E.prove('linear_field.continuous_at_far_edge[%d]' % j, right_p[j] - right_m[j] == 0)
    # general m, n (orthonormal not needed): field = sign(pos.n) (1/4 - pos.m/(2L)) b
    mm = E.reals('m', (3,))
    nn = E.reals('n', (3,))
    p = E.reals('p', (3,))
    E.assume(dot3(p, nn) > 0)
    u = parr.linear_displacement(snp.asarray(_np.array([list(p)], dtype=object)), b, Lg, mm, nn)[0]
    for j in range(3):
        E.prove('linear_field.general[%d]' % j, u[j] == (realconst(Fraction(1, 4)) - dot3(p, mm) / (2 * Lg)) * b[j])


# ----------------------------------------------------------------------------
# set_shift

@group('set_shift', files=[DINIT], functions=['Dislocation.set_shift'],
       clause='set_shift: an index selects that entry of the identified shifts (0 and negative indices included), a vector is stored as given or, scaled, as the combination of the rotated '
              'cell vectors; neither selects the first shift; both are refused', replay=_replay_generators)
def set_shift(E, L):
    mod = L.load(DINIT)
    D = mod.Dislocation
    core = L.resolve('atomman.core')
    Box = core.Box
    shifts = E.reals('shifts', (3, 3))
    V = E.reals('V', (3, 3))
    E.canary('set_shift.canary', shifts[0, 0] == shifts[1, 0])

    class RC(object):
        pass

    def fake():
        f = object.__new__(D)
        f._Dislocation__shifts = shifts
        rc = RC()
        box = object.__new__(Box)
        box._Box__vects = V.copy()
        box._Box__origin = snp.zeros(3)
        box._Box__reciprocal_vects = None
        rc.box = box
        f._Dislocation__rcell = rc
        return f
    for k in (0, 1, 2, -1):
        f = fake()
        D.set_shift(f, shiftindex=k)
        for j in range(3):
            E.prove('set_shift.index[%d][%d]' % (k, j), f.shift[j] == shifts[k % 3, j])
    f = fake()
    D.set_shift(f)
    for j in range(3):
        E.prove('set_shift.default_is_first[%d]' % j, f.shift[j] == shifts[0, j])
    v = E.reals('v', (3,))
    f = fake()
    D.set_shift(f, shift=v)
    for j in range(3):
        E.prove('set_shift.vector[%d]' % j, f.shift[j] == v[j])
    f = fake()
    D.set_shift(f, shift=v, shiftscale=True)
    for j in range(3):
        E.prove('set_shift.scaled_vector[%d]' % j, f.shift[j] == v[0] * V[0, j] + v[1] * V[1, j] + v[2] * V[2, j])
    f = fake()
    try:
        D.set_shift(f, shift=v, shiftindex=0)
        E.prove('set_shift.refuses_both', False)
    except ValueError:
        E.prove('set_shift.refuses_both', True)
    try:
        D.set_shift(fake(), shift=E.reals('w', (2,)))
        E.prove('set_shift.refuses_wrong_shape', False)
    except (AssertionError, ValueError):
        E.prove('set_shift.refuses_wrong_shape', True)


# ----------------------------------------------------------------------------
# regions

def _sym_box(E, L, name=''):
    """symbolic right-handed LAMMPS-style cell (lower triangular with positive diagonal) + symbolic origin"""
    core = L.resolve('atomman.core')
    Box = core.Box
    lx, ly, lz = E.real(name + 'lx'), E.real(name + 'ly'), E.real(name + 'lz')
    xy, xz, yz = E.real(name + 'xy'), E.real(name + 'xz'), E.real(name + 'yz')
    for d in (lx, ly, lz):
        E.assume(d > 0)
    V = snp.asarray(_np.array([[lx, 0, 0], [xy, ly, 0], [xz, yz, lz]], dtype=object))
    o = E.reals(name + 'o', (3,))
    box = object.__new__(Box)
    box._Box__vects = V
    box._Box__origin = o
    box._Box__reciprocal_vects = None
    return box, V, o


@group('region.plane', files=[PLANE, PSET, SHAPE], functions=['Plane.below', 'Plane.above', 'PlaneSet.inside', 'Shape.outside'],
       clause='Plane.below/above partition space by the sign of (pos - point).normal with the stated inclusiveness; PlaneSet.inside is the conjunction over its planes and outside its '
              'exact complement', replay=_replay_generators)
def region_plane(E, L):
    reg = L.resolve('atomman.region')
    Plane, PlaneSet = reg.Plane, reg.PlaneSet
    nrm = E.reals('nrm', (3,))
    pt = E.reals('pt', (3,))
    E.assume(dot3(nrm, nrm) > 0)
    pos = E.reals('pos', (2, 3))
    E.canary('region.plane.canary', pos[0, 0] == pt[0])
    pl = Plane(nrm, pt)
    for incl in (True, False):
        below = pl.below(pos, inclusive=incl)
        above = pl.above(pos, inclusive=not incl)
        for k in range(2):
            d = dot3([pos[k, j] - pt[j] for j in range(3)], nrm)
            E.prove('plane.below[%s][%d]' % (incl, k), Iff(below[k], (d <= 0) if incl else (d < 0)))
            E.prove('plane.above_is_complement[%s][%d]' % (incl, k), Iff(above[k], Not(below[k])))
    n2 = E.reals('nrm2', (3,))
    p2 = E.reals('pt2', (3,))
    E.assume(dot3(n2, n2) > 0)
    ps = PlaneSet([pl, Plane(n2, p2)])
    for incl in (True, False):
        ins = ps.inside(pos, inclusive=incl)
        outs = ps.outside(pos, inclusive=not incl)
        b1s, b2s = ps.planes[0].below(pos, inclusive=incl), ps.planes[1].below(pos, inclusive=incl)
        for k in range(2):
            d1 = dot3([pos[k, j] - pt[j] for j in range(3)], nrm)
            d2 = dot3([pos[k, j] - p2[j] for j in range(3)], n2)
            le = (lambda a: a <= 0) if incl else (lambda a: a < 0)
            E.abstract_lemma('planeset.inside[%s][%d]' % (incl, k), dict(b1=b1s[k], b2=b2s[k], ins=ins[k], d1=d1, d2=d2),
                             lambda c: [('plane1', Iff(c['b1'], le(c['d1']))), ('plane2', Iff(c['b2'], le(c['d2']))), ('conjunction', Iff(c['ins'], And(c['b1'], c['b2'])))],
                             lambda c: Iff(c['ins'], And(le(c['d1']), le(c['d2']))))
            E.prove('planeset.outside_is_complement[%s][%d]' % (incl, k), Iff(outs[k], Not(ins[k])))
    one = PlaneSet(pl)
    E.prove('planeset.single_plane', len(one.planes) == 1 and one.planes[0] is pl)


class _NPProxy(object):
    """the NumPy facade with ghost capture of the arguments of selected calls (semantics unchanged)"""
    def __init__(self, captured):
        self._c = captured
        outer = self

        class _LA(object):
            def __getattr__(self, k):
                return getattr(snp.linalg, k)

            def norm(self, a, *args, **kw):
                outer._c.setdefault('norm', []).append((snp.asarray(a).copy(), args, dict(kw)))
                return snp.linalg.norm(a, *args, **kw)
        self.linalg = _LA()

    def __getattr__(self, k):
        return getattr(snp, k)

    def min(self, a, *args, **kw):
        self._c.setdefault('min', []).append(snp.asarray(a).copy())
        return snp.min(a, *args, **kw)


def _below_lemma(E, name, plane, pos, depth, h, w, incl, pc_extra=()):
    """Plane.below(pos) <=> depth >= w*h, for a plane whose public unit normal n and point p satisfy  n.(pos - p) == w - depth/h  (ring identity) with h > 0"""
    nrm, pt = plane.normal, plane.point
    lhs = dot3(nrm, pos) - dot3(nrm, pt)
    b = plane.below(snp.asarray(_np.array([list(pos)], dtype=object)), inclusive=incl)[0]
    le = (lambda a: a <= 0) if incl else (lambda a: a < 0)
    ge = (lambda a, c: a >= c) if incl else (lambda a, c: a > c)
    g = E.abstract_lemma(name, dict(b=b, lhs=lhs, depth=depth, h=h, w=w),
                         lambda c: [('below_is_sign_of_offset', Iff(c['b'], le(c['lhs']))), ('offset_identity', c['lhs'] * c['h'] == c['w'] * c['h'] - c['depth']), ('h_positive', c['h'] > 0)],
                         lambda c: Iff(c['b'], ge(c['depth'], c['w'] * c['h'])))
    return b, g


@group('region.cylinder', files=[CYL, PLANE, SHAPE], functions=['Cylinder.inside', 'Cylinder.axis', 'Shape.outside'],
       clause='Cylinder.inside: the distance from the axis through center1 and center2 is at most (less than, exclusive) the radius, and with end caps the point lies between the two '
              'end planes; outside is the exact complement', replay=_replay_generators, timeout_ms=30000)
def region_cylinder(E, L):
    reg = L.resolve('atomman.region')
    Cylinder, Plane = reg.Cylinder, reg.Plane
    c1 = E.reals('c1', (3,))
    c2 = E.reals('c2', (3,))
    d = [c2[j] - c1[j] for j in range(3)]
    dd = dot3(d, d)
    E.assume(dd > 0)
    pos = E.reals('pos', (1, 3))
    E.canary('region.cylinder.canary', pos[0, 0] == c1[0])
    R = 2.5
    r = [pos[0, j] - c1[j] for j in range(3)]
    dist2 = dot3(r, r) - dot3(r, d) * dot3(r, d) / dd        # squared distance from the axis
    t = dot3(r, d)                                           # axial coordinate * |d|
    for caps in (False, True):
        cyl = Cylinder(c1, c2, R, endcaps=caps)
        axis = cyl.axis
        cr = snp.cross(pos - c1, axis)[0]
        X = dot3(cr, cr)
        for incl in (True, False):
            tag = '[caps=%s][%s]' % (caps, incl)
            ins = cyl.inside(pos, inclusive=incl)
            outs = cyl.outside(pos, inclusive=not incl)
            le = (lambda a, c: a <= c) if incl else (lambda a, c: a < c)
            circ = le(snp.sqrt(X), R)
            conc = dict(ins=ins[0], X=X, dist2=dist2, circ=circ)
            if not caps:
                E.abstract_lemma('cylinder.inside' + tag, conc,
                                 lambda c: [('inside_is_radial_test', Iff(c['ins'], c['circ'])), ('radial_test', Iff(c['circ'], le(snp.sqrt(c['X']), R))),
                                            ('squared_distance_identity', c['X'] == c['dist2']), ('nonneg', c['X'] >= 0)],
                                 lambda c: Iff(c['ins'], le(c['dist2'], R * R)))
            else:
                p1 = Plane(-axis, c1)
                p2 = Plane(axis, c2)
                b1 = p1.below(pos, inclusive=incl)[0]
                b2 = p2.below(pos, inclusive=incl)[0]
                h = snp.sqrt(dd)
                l1 = dot3(p1.normal, pos[0]) - dot3(p1.normal, p1.point)
                l2 = dot3(p2.normal, pos[0]) - dot3(p2.normal, p2.point)
                conc.update(b1=b1, b2=b2, t=t, dd=dd, h=h, l1=l1, l2=l2)
                lez = (lambda a: a <= 0) if incl else (lambda a: a < 0)
                E.abstract_lemma('cylinder.inside' + tag, conc,
                                 lambda c: [('inside_is_conjunction', Iff(c['ins'], And(c['circ'], c['b1'], c['b2']))), ('radial_test', Iff(c['circ'], le(snp.sqrt(c['X']), R))),
                                            ('squared_distance_identity', c['X'] == c['dist2']), ('nonneg', c['X'] >= 0),
                                            ('cap1_sign', Iff(c['b1'], lez(c['l1']))), ('cap2_sign', Iff(c['b2'], lez(c['l2']))),
                                            ('cap1_offset', c['l1'] * c['h'] == -c['t']), ('cap2_offset', c['l2'] * c['h'] == c['t'] - c['dd']), ('h_positive', c['h'] > 0)],
                                 lambda c: Iff(c['ins'], And(le(c['dist2'], R * R), le(0, c['t']), le(c['t'], c['dd']))))
            E.prove('cylinder.outside_is_complement' + tag, Iff(outs[0], Not(ins[0])))
    for bad in (0.0, -1.0):
        try:
            Cylinder(c1, c2, bad)
            E.prove('cylinder.refuses_radius[%r]' % bad, False)
        except AssertionError:
            E.prove('cylinder.refuses_radius[%r]' % bad, True)


def _boundary_self(lineindex, cutindex=None):
    class S(object):
        pass
    s = S()
    s.lineindex = lineindex
    s.cutindex = cutindex

    class Sol(object):
        m = _np.array([0.0, 1.0, 0.0])
        n = _np.array([0.0, 0.0, 1.0])
    s.dislsol = Sol()
    return s


def _face_depths(V, o, s):
    """for fractional coordinates s, per direction i: (s_i * det, (1 - s_i) * det, |cross_i|^2); perpendicular distance from the low/high face = first/second divided by |cross_i|"""
    det = det3(V)
    out = []
    for i in range(3):
        j, k = (i + 1) % 3, (i + 2) % 3
        cr = cross3(V[j], V[k])
        out.append((s[i] * det, (1 - s[i]) * det, dot3(cr, cr)))
    return out


def _planeset_inside(E, tag, shape, pos, depths_of_plane, w, V, o, s):
    """shape.inside(pos) <=> every listed face is at least w away, via one lemma per plane and the PlaneSet conjunction"""
    for incl in (True, False):
        bs, gs = [], []
        ge = (lambda a, c: a >= c) if incl else (lambda a, c: a > c)
        wants = []
        for q, plane in enumerate(shape.planes):
            depth, c2 = depths_of_plane[q]
            h = snp.sqrt(c2)
            b, g = _below_lemma(E, '%s.plane%d[%s]' % (tag, q, incl), plane, pos[0], depth, h, w, incl)
            bs.append(b)
            gs.append(g)
            wants.append((depth, h))
        ins = shape.inside(pos, inclusive=incl)
        outs = shape.outside(pos, inclusive=not incl)
        conc = dict(ins=ins[0], w=w)
        for q, (b, (depth, h)) in enumerate(zip(bs, wants)):
            conc['b%d' % q] = b
            conc['depth%d' % q] = depth
            conc['h%d' % q] = h
        nq = len(bs)
        E.abstract_lemma('%s.inside[%s]' % (tag, incl), conc,
                         lambda c: [('conjunction', Iff(c['ins'], And(*[c['b%d' % q] for q in range(nq)])))]
                         + [('plane%d' % q, Iff(c['b%d' % q], ge(c['depth%d' % q], c['w'] * c['h%d' % q]))) for q in range(nq)],
                         lambda c: Iff(c['ins'], And(*[ge(c['depth%d' % q], c['w'] * c['h%d' % q]) for q in range(nq)])))
        E.prove('%s.outside_is_complement[%s]' % (tag, incl), Iff(outs[0], Not(ins[0])))


def _box_boundary_group(lineindex):
    @group('region.box_boundary[line=%d]' % lineindex, files=[MONO, BOXF, PLANE, PSET], functions=['Dislocation.box_boundary', 'Box.planes', 'PlaneSet.inside'],
           clause='box_boundary (line %d): in a symbolic right-handed triclinic cell a point with fractional coordinates s is inside the region exactly when its perpendicular distance from '
                  'each of the four faces not crossed by the line is at least the width; the faces crossed by the line impose nothing; the cell itself is not modified' % lineindex,
           replay=_replay_generators, timeout_ms=60000)
    def h_(E, L):
        mono = L.load(MONO)
        box, V, o = _sym_box(E, L)
        w = E.real('w')
        s = E.reals('s', (3,))
        E.canary('box_boundary.canary[line=%d]' % lineindex, s[0] == w)
        pos = snp.asarray(_np.array([[sum(s[i] * V[i, j] for i in range(3)) + o[j] for j in range(3)]], dtype=object))
        o_before = [x for x in o]
        shape = mono.box_boundary(_boundary_self(lineindex), box, w)
        tag = 'box_boundary[line=%d]' % lineindex
        E.prove(tag + '.four_planes', len(shape.planes) == 4)
        depths = _face_depths(V, o, s)
        order = []
        for i in range(3):
            if i == lineindex:
                continue
            order.append((depths[i][0], depths[i][2]))
            order.append((depths[i][1], depths[i][2]))
        _planeset_inside(E, tag, shape, pos, order, w, V, o, s)
        E.prove(tag + '.cell_untouched', all(a is b or (isinstance(a, Sym) and isinstance(b, Sym) and a.t is b.t) for a, b in zip(box._Box__origin, o_before)))
    return h_


for _li in range(3):
    _box_boundary_group(_li)


def _array_boundary_group(cutindex):
    @group('region.array_boundary[cut=%d]' % cutindex, files=[PARR, BOXF, PLANE, PSET], functions=['Dislocation.array_boundary', 'Box.planes'],
           clause='array_boundary (cut direction %d): a point is inside exactly when its perpendicular distance from both faces across the slip-plane normal direction is at least the '
                  'width' % cutindex, replay=_replay_generators, timeout_ms=60000)
    def h_(E, L):
        parr = L.load(PARR)
        box, V, o = _sym_box(E, L)
        w = E.real('w')
        s = E.reals('s', (3,))
        E.canary('array_boundary.canary[cut=%d]' % cutindex, s[0] == w)
        pos = snp.asarray(_np.array([[sum(s[i] * V[i, j] for i in range(3)) + o[j] for j in range(3)]], dtype=object))
        shape = parr.array_boundary(_boundary_self(None, cutindex), box, w)
        tag = 'array_boundary[cut=%d]' % cutindex
        E.prove(tag + '.two_planes', len(shape.planes) == 2)
        lo, hi, c2 = _face_depths(V, o, s)[cutindex]
        _planeset_inside(E, tag, shape, pos, [(lo, c2), (hi, c2)], w, V, o, s)
    return h_


for _ci in range(3):
    _array_boundary_group(_ci)


def _cyl_boundary_group(lineindex):
    @group('region.cylinder_boundary[line=%d]' % lineindex, files=[MONO, CYL, BOXF], functions=['Dislocation.cylinder_boundary'],
           clause='cylinder_boundary (line %d): the cylinder axis runs from the origin of coordinates along the line cell vector, without end caps, and its radius is the smallest '
                  'perpendicular distance (in the m-n plane) from that axis to the four cell edges not crossed by the line, less the width' % lineindex,
           replay=_replay_generators, timeout_ms=60000)
    def h_(E, L):
        mono = L.load(MONO)
        core = L.resolve('atomman.core')
        Box = core.Box
        rows = [None] * 3
        a1, a2 = (lineindex - 2) % 3, (lineindex - 1) % 3
        rows[lineindex] = [E.real('Lx'), 0, 0]
        rows[a1] = [E.real('p1x'), E.real('p1y'), E.real('p1z')]
        rows[a2] = [E.real('p2x'), E.real('p2y'), E.real('p2z')]
        V = snp.asarray(_np.array(rows, dtype=object))
        o = E.reals('o', (3,))
        v1 = [V[a1, 1], V[a1, 2]]
        v2 = [V[a2, 1], V[a2, 2]]
        og = [o[1], o[2]]
        n1 = v1[0] * v1[0] + v1[1] * v1[1]
        n2 = v2[0] * v2[0] + v2[1] * v2[1]
        E.assume(n1 > 0)
        E.assume(n2 > 0)
        w = E.real('w')
        E.canary('cylinder_boundary.canary[line=%d]' % lineindex, w == o[1])
        box = object.__new__(Box)
        box._Box__vects = V
        box._Box__origin = o
        box._Box__reciprocal_vects = None
        captured = {}
        real_cyl, real_np = mono.Cylinder, mono.np

        def cyl_stub(center1, center2, radius, endcaps=True):
            captured['args'] = (center1, center2, radius, endcaps)
            return 'cylinder'
        mono.Cylinder = cyl_stub
        mono.np = _NPProxy(captured)
        try:
            res = mono.cylinder_boundary(_boundary_self(lineindex), box, w)
        finally:
            mono.Cylinder = real_cyl
            mono.np = real_np
        tag = 'cylinder_boundary[line=%d]' % lineindex
        c1, c2, radius, caps = captured['args']
        E.prove(tag + '.axis', all(float(x) == 0.0 for x in c1) and caps is False and res == 'cylinder')
        for j in range(3):
            E.prove(tag + '.axis_end[%d]' % j, c2[j] == V[lineindex, j])

        def cross2(p, q):
            return p[0] * q[1] - p[1] * q[0]
        # squared distances from the coordinate origin to the four edge lines (times the squared edge length, to stay polynomial)
        num = [cross2(og, v1) ** 2, cross2(og, v2) ** 2, cross2([og[0] + v2[0], og[1] + v2[1]], v1) ** 2, cross2([og[0] + v1[0], og[1] + v1[1]], v2) ** 2]
        den = [n1, n2, n1, n2]
        if 'norm' not in captured or 'min' not in captured:
            from pyvc.sym import LeftFragment
            raise LeftFragment('cylinder_boundary no longer computes its radius through numpy.linalg.norm / numpy.min of four points: the ghost-capture proof does not apply')
        pts = [a for (a, args, kw) in captured['norm'] if a.shape == (4, 2)]
        E.prove(tag + '.ghost_capture', len(pts) == 1 and len(captured.get('min', [])) == 1 and captured['min'][0].shape == (4,))
        pts = pts[0]
        norms = captured['min'][0]
        rw = radius + w
        conc = dict(rw=rw)
        for i in range(4):
            conc['x%d' % i], conc['y%d' % i], conc['n%d' % i], conc['num%d' % i], conc['den%d' % i] = pts[i, 0], pts[i, 1], norms[i], num[i], den[i]

        def facts(c):
            out = [('radius_is_smallest_norm_less_width', c['rw'] == Sym(tm.min_(tm.min_(c['n0'].t, c['n1'].t), tm.min_(c['n2'].t, c['n3'].t))))]
            for i in range(4):
                out.append(('norm%d' % i, And(c['n%d' % i] >= 0, c['n%d' % i] * c['n%d' % i] == c['x%d' % i] * c['x%d' % i] + c['y%d' % i] * c['y%d' % i])))
                out.append(('foot_of_perpendicular%d' % i, (c['x%d' % i] * c['x%d' % i] + c['y%d' % i] * c['y%d' % i]) * c['den%d' % i] == c['num%d' % i]))
                out.append(('den_positive%d' % i, c['den%d' % i] > 0))
            return out

        def goal(c):
            r2 = c['rw'] * c['rw']
            return And(c['rw'] >= 0, And(*[r2 * c['den%d' % i] <= c['num%d' % i] for i in range(4)]), Or(*[r2 * c['den%d' % i] == c['num%d' % i] for i in range(4)]))
        E.abstract_lemma(tag + '.radius', conc, facts, goal)
    return h_


for _li in range(3):
    _cyl_boundary_group(_li)


# ----------------------------------------------------------------------------
# bounded: real crystals through the real class

def _family(tier, seed, gens, name, shard=None):
    import hashlib
    import os
    from pyvc.native import atomman
    from . import c13_family as fam
    am = atomman()
    cases = fam.thorough_cases() if tier == 'thorough' else fam.quick_cases()
    cases = [c for c in cases if c['gen'] in gens]
    if shard is not None:
        cases = cases[shard[0]::shard[1]]
    fails, samples = [], []
    evals = nontriv = refused = 0
    seen = set()
    for case in cases:
        if case['key'] in seen:
            continue
        seen.add(case['key'])
        evals += 1
        try:
            msgs = fam.check_case(am, case)
        except Exception as e:
            msgs = ['raised %s: %s' % (type(e).__name__, e)]
        if msgs and msgs[0].startswith('REFUSED'):
            refused += 1
            continue
        nontriv += 1
        if msgs:
            fails.append({'obligation': name + '.post', 'key': case['key'], 'input': case['key'], 'detail': '; '.join(msgs[:3])})
        elif len(samples) < 2:
            samples.append({'case': case['key'], 'result': 'all clauses held'})
    if nontriv < max(3, evals // 2):
        fails.append({'obligation': name + '.coverage', 'key': 'coverage', 'input': 'family', 'detail': 'only %d of %d cases were not refused' % (nontriv, evals)})
    files = {rel: hashlib.sha256(open(os.path.join(REPO, rel), 'rb').read()).hexdigest() for rel in (DINIT, MONO, PARR, DISR, CYL, PSET, PLANE)}
    return {'family': name, 'evaluations': evals, 'distinct_nontrivial': nontriv, 'rule': 'see group rule; %d documented refusals' % refused, 'samples': samples, 'failures': fails[:12], 'files': files}


_RULE = ('crystals {fcc, bcc, hcp (Miller-Bravais), B2} x slip systems {edge, screw, mixed} x primitive/centred settings x m/n axis assignments x size multipliers (list and tuple) x shifts '
         '(stored, index incl. 0 after a different stored index, explicit) x core centres off the origin x boundary shapes/widths; thorough: all 6 axis assignments for all 14 slip systems; '
         'oracles: lattice membership in the unit-cell frame, independent region tests, brute-force distances, own disregistry evaluation; distinct by case key; non-trivial = not refused')


def _register_families():
    specs = [('monopole.family', ('monopole',), [DINIT, MONO, DISR, CYL, PSET, PLANE, SYSF], ['Dislocation.__init__', 'Dislocation.monopole', 'defect.disregistry'],
              'real crystals: the rotated cell is the crystal in the solution frame with integer vectors (line vector along the line, two vectors in the slip plane), every offered shift puts '
              'the slip plane midway between atomic planes, the monopole reference system is the symmetric supercell of the rotated crystal moved by the requested shift, every atom is '
              'displaced by the solution at its reference position minus the centre, periodic along the line only, boundary atoms are exactly those outside the stated region, and the '
              'disregistry (agreeing with an independent evaluation) accumulates to one Burgers vector up to the 1/x tail'),
             ('periodicarray.family', ('periodicarray',), [DINIT, PARR, DISR, PSET, PLANE, SYSF], ['Dislocation.periodicarray', 'Dislocation.build_disl_array', 'defect.disregistry'],
              'real crystals: the periodic array removes exactly N b_edge / (2 L) atoms, tilts the in-plane cell vector by b/2, has no overlapping atoms under its two in-plane periodic '
              'directions, maps every atom through old_id to its atom of the shifted perfect crystal displaced by the documented (linear / blended) field, re-types the surface region, and '
              'its disregistry accumulates to one Burgers vector per period')]
    nshard = 8
    for name, gens, files, functions, clause in specs:
        def mk(name=name, gens=gens, shard=None):
            def fn(tier, seed):
                return _family(tier, seed, gens, name, shard)
            return fn
        group(name, kind='bounded', files=files, functions=functions, clause=clause, rule=_RULE, tiers=('quick',))(mk())
        for k in range(nshard):
            group('T:%s[%d/%d]' % (name, k, nshard), kind='bounded', files=files, functions=functions, clause=clause, rule=_RULE + '; thorough tier, shard %d of %d' % (k, nshard),
                  tiers=('thorough',))(mk(shard=(k, nshard)))


_register_families()


# ----------------------------------------------------------------------------
# slip-plane shifts: Dislocation.__identify_shifts on symbolic layer coordinates (np.unique / np.sort replaced by their contracts, as in C14)

def _identify_shifts_group(nlayers):
    @group('shifts.identify[layers=%d]' % nlayers, files=[DINIT], functions=['Dislocation.__identify_shifts'],
           clause='Dislocation.__identify_shifts for %d symbolic layer coordinates (strictly increasing after rounding at the tolerance, which is what the routine works on) along the slip-plane normal in a rotated cell of symbolic width (top layer coincident '
                  'with the image of the bottom layer or not): one shift per gap between adjacent atomic planes (the gap across the periodic boundary included), sorted, along the '
                  'normal only, each in [0, width] and each placing the slip plane exactly midway between its two planes' % nlayers, replay=_replay_generators, timeout_ms=30000)
    def h_(E, L):
        from .c14 import _LayerNP, _shift_contract
        mod = L.load(DINIT)
        D = mod.Dislocation
        for cutindex in range(3):
            w = E.real('w')
            E.assume(w > 1e-6)               # the cell is much wider than the rounding tolerance
            craw = E.reals('c', (nlayers,))
            # the routine works on the layer coordinates ROUNDED at the tolerance (np.unique of the rounded column): the contract is stated for those
            c = snp.asarray(_np.array(list(craw), dtype=object)).round(8)
            E.assume(c[0] >= 0)
            for i in range(nlayers - 1):
                E.assume(c[i + 1] > c[i])
            E.assume(c[nlayers - 1] <= w + 1e-8)
            if cutindex == 0:
                E.canary('shifts.identify.canary[%d]' % nlayers, c[0] == w)

            class A(object):
                pass
            f = object.__new__(D)
            rcell = A()
            rcell.box = A()
            rcell.atoms = A()
            vects = _np.zeros((3, 3), dtype=object)
            vects[cutindex, cutindex] = w
            rcell.box.vects = snp.asarray(vects)
            pos = _np.zeros((nlayers, 3), dtype=object)
            for i in range(nlayers):
                pos[i, cutindex] = craw[i]
            rcell.atoms.pos = snp.asarray(pos)
            f._Dislocation__rcell = rcell
            f._Dislocation__cutindex = cutindex
            sol = A()
            sol.n = _np.eye(3)[cutindex]
            f._Dislocation__dislsol = sol
            real_np = mod.np
            mod.np = _LayerNP()
            try:
                f._Dislocation__identify_shifts(1e-8)
            finally:
                mod.np = real_np
            shifts = f.shifts
            appended = shifts.shape[0] == nlayers
            tag = 'shifts.identify[layers=%d,cut=%d,%s]' % (nlayers, cutindex, 'open' if appended else 'top_is_image_of_bottom')
            E.prove(tag + '.shape', shifts.shape[1] == 3)
            for k in range(shifts.shape[0]):
                for j in range(3):
                    if j != cutindex:
                        E.prove(tag + '.along_normal_only[%d,%d]' % (k, j), shifts[k, j] == 0)
            if not appended:
                E.prove(tag + '.top_coincides_with_image', And(c[nlayers - 1] - c[0] - w <= 1e-8, c[0] + w - c[nlayers - 1] <= 1e-8))
            _shift_contract(E, tag, c, w, [shifts[k, cutindex] for k in range(shifts.shape[0])], appended)
    return h_


for _n in (2, 3, 4):
    _identify_shifts_group(_n)


# ----------------------------------------------------------------------------
# build_disl_array: the cell shear and the expected number of deleted atoms (blocks extracted mechanically)

import ast as _ast
from pyvc.extract import extract as _extract_stmt, extract_range as _extract_range_stmt


def _assign_to(name):
    def sel(n):
        return isinstance(n, _ast.Assign) and len(n.targets) == 1 and isinstance(n.targets[0], _ast.Name) and n.targets[0].id == name
    return sel


def _shear_group(lineindex, cutindex):
    motionindex = 3 - lineindex - cutindex

    @group('periodicarray.shear_and_count[line=%d,cut=%d]' % (lineindex, cutindex), files=[PARR, BOXF], functions=['Dislocation.build_disl_array (blocks: cell shear; expected deletions)'],
           clause='build_disl_array, line along cell vector %d, cut %d (blocks extracted mechanically; symbolic cell with the line vector along the line axis and the in-plane vector in '
                  'the slip plane, symbolic in-plane Burgers vector, both signs of m and of b.m): the in-plane cell vector is changed by -b/2 or +b/2 so that its extent along m '
                  'shrinks by |b.m|/2, the other vectors, the origin and the atoms are untouched, periodicity is switched off across the cut only, and the number of atoms expected '
                  'to be deleted is N |b.m| / (2 L) with L the extent of the in-plane vector along m -- the number implied by the edge component' % (lineindex, cutindex),
           replay=_replay_generators, timeout_ms=30000)
    def h_(E, L):
        blockA, infoA = _extract_range_stmt(L, PARR, 'build_disl_array', _assign_to('newvects'), _assign_to('length'))
        blockB, infoB = _extract_stmt(L, PARR, 'build_disl_array', _assign_to('expected'))
        tagg = '[line=%d,cut=%d]' % (lineindex, cutindex)
        E.shape('shear.blocks_found' + tagg, infoA['last_line'] > infoA['first_line'] and infoB['first_line'] > infoA['last_line'])
        core = L.resolve('atomman.core')
        Box = core.Box
        first = True
        for sm, bsign in itertools.product((1, -1), ('pos', 'neg')):
            sfx = '_%s_%s' % ('p' if sm > 0 else 'm', bsign)
            V = snp.zeros((3, 3), dtype=object)
            V[lineindex, lineindex] = E.real('Lline' + sfx)
            V[motionindex, lineindex] = E.real('vml' + sfx)
            V[motionindex, motionindex] = E.real('vmm' + sfx)
            for j in range(3):
                V[cutindex, j] = E.real('vc%d%s' % (j, sfx))
            E.assume(V[lineindex, lineindex] > 0)
            E.assume(V[motionindex, motionindex] * sm > 0)            # the in-plane vector points along +m (it is the lattice vector closest to m)
            E.assume(V[cutindex, cutindex] != 0)
            b = snp.zeros(3, dtype=object)
            b[lineindex] = E.real('bl' + sfx)
            b[motionindex] = E.real('bm' + sfx)
            m = _np.zeros(3)
            m[motionindex] = sm
            bm = b[motionindex] * sm                                  # b.m
            E.assume(bm > 0 if bsign == 'pos' else bm <= 0)
            E.assume(bm < V[motionindex, motionindex] * sm)
            E.assume(-bm < V[motionindex, motionindex] * sm)
            o = E.reals('o', (3,))
            if first:
                E.canary('shear.canary' + tagg, b[motionindex] == o[0])
                first = False

            class A(object):
                pass
            base = A()
            base.box = A()
            base.box.origin = o
            base.natoms = 240
            E.side_enabled = False
            out = blockA(dict(vects=V.copy(), burgers=b, m=m, motionindex=motionindex, cutindex=cutindex, base_system=base))
            tag = 'shear[m=%+d,b.m %s]%s' % (sm, bsign, tagg)
            nv = out['newvects']
            half = realconst(Fraction(1, 2))
            for i in range(3):
                for j in range(3):
                    want = V[i, j] - ((b[j] * half) if bsign == 'pos' else -(b[j] * half)) if i == motionindex else V[i, j]
                    E.prove(tag + '.new_cell[%d,%d]' % (i, j), nv[i, j] == want)
            absbm = bm if bsign == 'pos' else -bm
            E.prove(tag + '.extent_along_m_shrinks_by_half_edge', dot3(nv[motionindex], m) == dot3(V[motionindex], m) - absbm * half)
            nb = out['newbox']
            for j in range(3):
                E.prove(tag + '.origin_kept[%d]' % j, nb._Box__origin[j] == o[j])
            E.prove(tag + '.periodic_except_across_cut', list(out['newpbc']) == [i != cutindex for i in range(3)])
            Lm = V[motionindex, motionindex] * sm
            E.prove(tag + '.length_is_extent_along_m', out['length'] == Lm)
            base.box.volume = sym_abs(det3(V))
            nbx = A()
            nbx.volume = sym_abs(det3(nv))
            outB = blockB(dict(base_system=base, newbox=nbx))
            E.side_enabled = True
            E.prove(tag + '.expected_deletions', outB['expected'] * (2 * Lm) == 240 * absbm)
            E.reachable(tag + '.preconditions_satisfiable')
    return h_


for _li, _ci in ((0, 2), (2, 1), (1, 0), (1, 2), (0, 1), (2, 0)):
    _shear_group(_li, _ci)
