"""Shared pieces of the text-I/O properties (C07, C08, C19): the static 'caller checked against the callee's installed signature'
obligation for third-party calls, and small helpers for the bounded round-trip families."""
import ast
import hashlib
import inspect
import os

from pyvc.runner import REPO


def signature_obligations(relpaths, targets):
    """For every call  <x>.<attr>(...)  in the given files whose attribute name is in `targets`
    (dict attr -> callable of the INSTALLED third-party package), bind the call's keywords and positional count against
    inspect.signature(callable).  A keyword the installed callee does not accept makes every execution of that call raise TypeError.
    Returns (obligation records, {file: sha256})."""
    obs = []
    files = {}
    for rel in relpaths:
        path = os.path.join(REPO, rel)
        text = open(path, encoding='utf-8').read()
        files[rel] = hashlib.sha256(text.encode()).hexdigest()
        tree = ast.parse(text)
        k = 0
        dead = set()
        for node in ast.walk(tree):
            # branches guarded by the installed pandas version: the arm not taken under the installed version is unreachable
            if isinstance(node, ast.If) and 'pdversion' in ast.unparse(node.test):
                import pandas as _pd
                pdversion = tuple(int(x) for x in _pd.__version__.split('.')[:2])
                try:
                    taken = bool(eval(compile(ast.Expression(node.test), '<guard>', 'eval'), {'pdversion': pdversion}))
                except Exception:
                    continue
                for st in (node.orelse if taken else node.body):
                    for sub in ast.walk(st):
                        dead.add(id(sub))
        for node in ast.walk(tree):
            if id(node) in dead:
                continue
            if isinstance(node, ast.Call) and isinstance(node.func, ast.Attribute) and node.func.attr in targets:
                fn = targets[node.func.attr]
                sig = inspect.signature(fn)
                kws = [kw.arg for kw in node.keywords if kw.arg is not None]
                npos = len(node.args) + (1 if 'self' in sig.parameters else 0)
                bad = None
                try:
                    sig.bind(*([None] * npos), **{kw: None for kw in kws})
                except TypeError as e:
                    bad = str(e)
                name = '%s:%s#%d.keywords_accepted_by_installed_%s' % (rel, node.func.attr, k, getattr(fn, '__qualname__', node.func.attr))
                k += 1
                obs.append({'name': name, 'stem': name, 'kind': 'post', 'expect': 'unsat', 'result': 'proved' if bad is None else 'refuted', 'backend': 'static-signature',
                            'seconds': 0.0, 'detail': bad or 'keywords %s bind to %s%s' % (kws, getattr(fn, '__qualname__', '?'), ''),
                            'goal': 'line %d: %s(...) with keywords %s binds to the installed signature' % (node.lineno, node.func.attr, kws), 'n_assumptions': 0,
                            'replay': {'reproduced': bad is not None, 'text': ('%s line %d: every execution of this call raises TypeError: %s' % (rel, node.lineno, bad)) if bad else ''}})
    return obs, files


def sha_files(relpaths):
    return {rel: hashlib.sha256(open(os.path.join(REPO, rel), 'rb').read()).hexdigest() for rel in relpaths}


# ----------------------------------------------------------------------------
# token layer: symbolic numbers through text

class Tokens(object):
    """Within the block, str() of a symbolic number is a unique ASCII token, so that text produced by the real writers with float_format='%s' carries the
    symbolic values; `value(text)` maps a token (str or bytes) back to the symbolic number and any other text to float.  This replaces printf / strtod by the
    identity on numbers: what is proved is which number is written where (and read back from where); rounding by the number format is outside (bounded checks)."""
    def __init__(self):
        self.map = {}

    def __enter__(self):
        from pyvc.sym import Sym
        self._Sym = Sym
        self._old = Sym.__dict__.get('__str__')
        toks = self

        def _str(s):
            if s.is_concrete():
                return repr(float(s)) if s.t.sort != 'Int' else repr(int(s))
            name = 'T%dT' % s.t.uid
            toks.map[name] = s
            return name
        Sym.__str__ = _str
        return self

    def __exit__(self, *a):
        if self._old is None:
            del self._Sym.__str__
        else:
            self._Sym.__str__ = self._old
        return False

    def value(self, text):
        if isinstance(text, bytes):
            text = text.decode('utf-8')
        text = text.strip()
        if text in self.map:
            return self.map[text]
        return float(text)

    def np_proxy(self, snp):
        toks = self

        class _NP(object):
            def __getattr__(self, k):
                return getattr(snp, k)

            def array(self, obj, dtype=None, **kw):
                if isinstance(obj, (list, tuple)) and obj and all(isinstance(x, (str, bytes)) for x in obj):
                    k = str(dtype)
                    if 'int' in k:
                        return snp.array([int(x) for x in obj], dtype=dtype)
                    vals = [toks.value(x) for x in obj]
                    import numpy as _np
                    out = _np.empty(len(vals), dtype=object)
                    for i, v in enumerate(vals):
                        out[i] = v
                    return snp.asarray(out)
                return snp.array(obj, dtype=dtype, **kw)
        return _NP()
