"""C16 — Miller conversions are lossless; plane normal is the reciprocal-lattice vector; family identification.

Contracts on atomman/tools/miller.py, atomman/tools/crystalsystem.py, atomman/core/Box.py (family constructors and
is<family>/identifyfamily).  Every proof harness runs the REAL source text of this run.
"""
from fractions import Fraction
import itertools
import math
import os
import hashlib

import numpy as _np

from pyvc.runner import group, REPO
from pyvc import symnp as snp, terms as tm
from pyvc.sym import Sym, realconst
from .common import det3, dot3, cross3, sym_abs, And, Or, Not, Implies, Iff, arb_box

LEVEL = 'proof'
EXPLANATION = ("Contracts on the Miller index conversions, the plane-normal routine, the centring matrices, reduce_indices and the "
               "crystal-family constructors/identification, written from the property text. The real source of /repo is executed on symbolic "
               "indices (reals for the linear maps, symbolic integers per zero pattern for the plane normal) and symbolic right-handed cells; "
               "obligations are polynomial identities (ringnorm) or small SMT queries. np.lcm / np.gcd enter as assumed dependency contracts "
               "(divisibility, sign, Bezout). Index strings and all_indices are enumerated exhaustively up to a stated bound (labelled).")
ASSUMPTIONS = [
    "np.lcm / np.gcd: assumed contracts (common multiple / common divisor with integer cofactors, positivity, Bezout identity); minimality of lcm not needed",
    "np.apply_along_axis applies the function to every 1-D slice along the axis (NumPy's own code runs; rows enumerated for shapes (3,), (2,3))",
    "family identification: composition of (constructor passes the family's parameters) + C01 contracts (set_abc / getters) + (identify decides from a,b,c,alpha,beta,gamma), each verified separately",
    "fromstring / all_indices: exhaustive enumeration up to the stated bounds (index strings with |index| <= 3, fractions p/q with q <= 4; maxindex <= 3): bounded in the string/bound, labelled bounded",
]
UNCOVERED = ["IEEE rounding size", "index strings beyond the enumerated grammar bound"]

MILLER = 'atomman/tools/miller.py'
CRYST = 'atomman/tools/crystalsystem.py'
BOXF = 'atomman/core/Box.py'


def _miller(L):
    return L.load(MILLER)


# ----------------------------------------------------------------------------
# native replay

def _replay_miller(stem, vals):
    from pyvc.native import atomman
    import numpy as np
    am = atomman()
    m = am.tools.miller
    msgs = []
    rng = np.random.RandomState(1)
    tri = am.Box(a=3.1, b=4.2, c=5.3, alpha=81, beta=97, gamma=112)
    hexb = am.Box.hexagonal(2.9, 4.7)
    boxes = [tri, hexb, am.Box.cubic(3.3), am.Box.tetragonal(2.9, 4.7), am.Box.trigonal(3.1, 71.0), am.Box.orthorhombic(3.1, 4.2, 5.3),
             am.Box.monoclinic(3.1, 4.2, 5.3, 103.0), am.Box(vects=[[3.0, 0.2, -0.4], [0.5, 2.8, 0.3], [-0.2, 0.6, 3.5]])]
    try:
        # the counter-model itself: cell and indices of the refuted obligation
        if 'bv_0_0' in vals:
            V = np.array([[float(vals.get('bv_%d_%d' % (i, j), 0.0)) for j in range(3)] for i in range(3)])
            idx = [int(round(float(vals.get(k, 0)))) for k in 'hkl']
            if np.linalg.det(V) > 1e-9 and any(idx):
                bx = am.Box(vects=V)
                nrm = m.plane_crystal_to_cartesian(idx, bx)
                R = bx.reciprocal_vects
                Gm = idx[0] * R[0] + idx[1] * R[1] + idx[2] * R[2]
                if not np.allclose(nrm, Gm / np.linalg.norm(Gm), atol=1e-7):
                    msgs.append('plane_crystal_to_cartesian(%r) in the cell %r = %r, reciprocal-lattice direction %r' % (idx, V.tolist(), nrm.tolist(), (Gm / np.linalg.norm(Gm)).tolist()))
        # vectors do not carry the cell origin; index arrays of any leading shape convert element by element
        shifted = am.Box(vects=tri.vects, origin=[0.7, -1.3, 2.1])
        for uvw in ([1, 2, -1], [0, 0, 1], [-2, 1, 3]):
            got = m.vector_crystal_to_cartesian(uvw, shifted)
            if not np.allclose(got, np.array(uvw, dtype=float).dot(tri.vects), atol=1e-10):
                msgs.append('vector_crystal_to_cartesian(%r) in a cell with origin (0.7,-1.3,2.1) = %r, u a + v b + w c = %r' % (uvw, got.tolist(), np.array(uvw, dtype=float).dot(tri.vects).tolist()))
        allidx = np.array(list(itertools.product(range(-2, 3), repeat=3)), dtype=float)[:120]
        for shp in ((120, 3), (4, 30, 3), (2, 3, 20, 3), (5, 3, 8, 3)):
            arr = allidx.reshape(shp)
            try:
                got = np.asarray(m.vector3to4(arr))
                want = np.stack([(2 * arr[..., 0] - arr[..., 1]) / 3, (2 * arr[..., 1] - arr[..., 0]) / 3, -(arr[..., 0] + arr[..., 1]) / 3, arr[..., 2]], axis=-1)
                if got.shape != want.shape or not np.allclose(got, want, atol=1e-12):
                    msgs.append('vector3to4 on an index array of shape %r: shape %r / values differ from the element-wise conversion' % (shp, got.shape))
            except Exception as e:
                msgs.append('vector3to4 on an index array of shape %r raised %s: %s' % (shp, type(e).__name__, e))
        for idx in itertools.product(range(-3, 4), repeat=3):
            if idx == (0, 0, 0):
                continue
            v = np.array(idx, dtype=float)
            if not np.allclose(m.plane4to3(m.plane3to4(v)), v):
                msgs.append('plane4to3(plane3to4(%r)) != identity' % (idx,))
            if not np.allclose(m.vector4to3(m.vector3to4(v)), v):
                msgs.append('vector4to3(vector3to4(%r)) != identity' % (idx,))
            p4 = m.plane3to4(v)
            if abs(p4[:3].sum()) > 1e-12 or p4[3] != v[2]:
                msgs.append('plane3to4(%r) = %r' % (idx, p4.tolist()))
            v4 = m.vector3to4(v)
            a1, a2, c = hexb.vects
            if not np.allclose(v4[0] * a1 + v4[1] * a2 + v4[2] * (-a1 - a2) + v4[3] * c, v.dot(hexb.vects)):
                msgs.append('vector3to4(%r) denotes another direction' % (idx,))
            for box in boxes:
                n = m.plane_crystal_to_cartesian(idx, box)
                R = box.reciprocal_vects
                G = idx[0] * R[0] + idx[1] * R[1] + idx[2] * R[2]
                if not np.allclose(n, G / np.linalg.norm(G), atol=1e-9):
                    msgs.append('plane_crystal_to_cartesian(%r) = %r, reciprocal-lattice direction %r' % (idx, n.tolist(), (G / np.linalg.norm(G)).tolist()))
            r = m.reduce_indices(np.array(idx))
            g = math.gcd(*[abs(i) for i in idx])
            if not np.array_equal(r, np.array(idx) // g):
                msgs.append('reduce_indices(%r) = %r' % (idx, r.tolist()))
            if len(msgs) > 5:
                break
        for q in itertools.product(range(-3, 4), range(-3, 4), range(-4, 5)):
            u, v_, w = q
            quad = (u, v_, -(u + v_), w)
            if not any(quad):
                continue
            g = math.gcd(*[abs(i) for i in quad])
            r = m.reduce_indices(np.array(quad))
            if not np.array_equal(r, np.array(quad) // g):
                msgs.append('reduce_indices(%r) = %r, expected %r (Miller-Bravais quadruple)' % (list(quad), r.tolist(), (np.array(quad) // g).tolist()))
                if len(msgs) > 5:
                    break
        x3 = np.array([[[2, 4, 6], [3, 3, 9]], [[5, 10, 5], [7, 0, 0]]])
        want3 = np.array([[[1, 2, 3], [1, 1, 3]], [[1, 2, 1], [1, 0, 0]]])
        try:
            got3 = m.reduce_indices(x3)
            if not np.array_equal(got3, want3):
                msgs.append('reduce_indices(%r) = %r, expected %r (rows reduced by the wrong row\'s divisor)' % (x3.tolist(), got3.tolist(), want3.tolist()))
        except Exception as e:
            msgs.append('reduce_indices on a (2,2,3) array raised %s: %s' % (type(e).__name__, e))
        for s in ('p', 'a', 'b', 'c', 'i', 'f', 't1', 't2'):
            v = rng.randint(-4, 5, (5, 3)).astype(float)
            if not np.allclose(m.vector_conventional_to_primitive(m.vector_primitive_to_conventional(v, s), s), v):
                msgs.append('centring %s: c2p(p2c(v)) != v' % s)
            if not np.allclose(m.vector_primitive_to_conventional(m.vector_conventional_to_primitive(v, s), s), v):
                msgs.append('centring %s: p2c(c2p(v)) != v' % s)
    except Exception as e:
        msgs.append('raised %s: %s' % (type(e).__name__, e))
    return (len(msgs) > 0, '; '.join(msgs[:6]) if msgs else 'exhaustive float replay over indices in [-3,3]^3 found no disagreement')


def _replay_family(stem, vals):
    from pyvc.native import atomman
    am = atomman()
    msgs = []
    cases = [('cubic', lambda: am.Box.cubic(3.3)), ('hexagonal', lambda: am.Box.hexagonal(2.9, 4.7)), ('tetragonal', lambda: am.Box.tetragonal(2.9, 4.7)),
             ('rhombohedral', lambda: am.Box.trigonal(3.1, 71.0)), ('orthorhombic', lambda: am.Box.orthorhombic(3.1, 4.2, 5.3)),
             ('monoclinic', lambda: am.Box.monoclinic(3.1, 4.2, 5.3, 103.0)), ('triclinic', lambda: am.Box.triclinic(3.1, 4.2, 5.3, 81, 97, 112))]
    for fam, mk in cases:
        try:
            got = mk().identifyfamily()
            if got != fam:
                msgs.append('%s cell identified as %r' % (fam, got))
        except Exception as e:
            msgs.append('%s: raised %s: %s' % (fam, type(e).__name__, e))
    return (len(msgs) > 0, '; '.join(msgs) if msgs else 'family constructors identify as their own family in floats')


# ----------------------------------------------------------------------------
# 3 <-> 4 index notations

SHAPES3 = [(3,), (2, 3), (2, 2, 3)]


@group('miller.plane34', files=[MILLER], functions=['miller.plane3to4', 'miller.plane4to3'],
       clause='three- and four-index plane notations convert back and forth without loss; i = -(h+k); the h+k+i=0 guard is exactly the refusal condition',
       replay=_replay_miller)
def plane34(E, L):
    M = _miller(L)
    for shp in SHAPES3:
        tag = 'x'.join(str(s) for s in shp)
        x = E.reals('p%s' % tag, shp)
        p4 = M.plane3to4(x)
        E.prove('plane3to4.shape[%s]' % tag, p4.shape == shp[:-1] + (4,))
        E.prove_eq('plane3to4.h[%s]' % tag, p4[..., 0], x[..., 0])
        E.prove_eq('plane3to4.k[%s]' % tag, p4[..., 1], x[..., 1])
        E.prove_eq('plane3to4.i[%s]' % tag, p4[..., 2], -(x[..., 0] + x[..., 1]))
        E.prove_eq('plane3to4.l[%s]' % tag, p4[..., 3], x[..., 2])
        back = M.plane4to3(p4)
        E.prove_eq('plane4to3(plane3to4).identity[%s]' % tag, back, x)
    # 4 -> 3 -> 4 on the domain h+k+i = 0
    h, k, l = E.real('h'), E.real('k'), E.real('l')
    q = snp.array([h, k, -(h + k), l])
    E.prove_eq('plane3to4(plane4to3).identity', M.plane3to4(M.plane4to3(q)), q)
    E.canary('plane34.canary', p4[..., 2].ravel()[0] == 0)


@group('miller.plane4to3.refusal', files=[MILLER], functions=['miller.plane4to3', 'miller.vector4to3'],
       clause='four-index input violating h+k+i=0 (beyond the allclose tolerance 1e-8) is refused with ValueError, input satisfying it is accepted',
       replay=_replay_miller)
def plane4_refusal(E, L):
    M = _miller(L)
    q = E.reals('q', (4,))
    s = q[0] + q[1] + q[2]
    for nm in ('plane4to3', 'vector4to3'):
        try:
            getattr(M, nm)(q)
            E.prove('%s.accepts_only_zero_sum' % nm, sym_abs(s) <= realconst(Fraction(1, 10 ** 8)))
        except ValueError:
            E.prove('%s.refuses_only_nonzero_sum' % nm, sym_abs(s) > realconst(Fraction(1, 10 ** 8)))
    E.canary('plane4.refusal.canary', s == 0)
    # wrong trailing dimension
    for nm, n in (('plane3to4', 4), ('plane4to3', 3), ('vector3to4', 4), ('vector4to3', 3), ('vector_primitive_to_conventional', 4),
                  ('vector_conventional_to_primitive', 2)):
        try:
            getattr(M, nm)(E.reals('w%d' % n, (n,)))
            E.prove('%s.refuses_bad_dimension' % nm, False)
        except ValueError:
            E.prove('%s.refuses_bad_dimension' % nm, True)


@group('miller.vector34', files=[MILLER], functions=['miller.vector3to4', 'miller.vector4to3'],
       clause='three- and four-index vector notations are mutually inverse and denote the same Cartesian direction (a3 = -a1-a2); t = -(u+v)',
       replay=_replay_miller)
def vector34(E, L):
    M = _miller(L)
    Box = L.load(BOXF).Box
    box, V, o = arb_box(E, Box)
    for shp in SHAPES3:
        tag = 'x'.join(str(s) for s in shp)
        x = E.reals('v%s' % tag, shp)
        v4 = M.vector3to4(x)
        E.prove('vector3to4.shape[%s]' % tag, v4.shape == shp[:-1] + (4,))
        E.prove_eq('vector3to4.t[%s]' % tag, v4[..., 2], -(v4[..., 0] + v4[..., 1]))
        E.prove_eq('vector4to3(vector3to4).identity[%s]' % tag, M.vector4to3(v4), x)
        # same Cartesian direction:  u a1 + v a2 + t a3 + w c  with a3 = -a1 - a2   equals  [uvw] . vects
        a1, a2, c = V[0], V[1], V[2]
        for idx in _np.ndindex(*shp[:-1]):
            four = v4[idx]
            three = x[idx]
            for j in range(3):
                lhs = four[0] * a1[j] + four[1] * a2[j] + four[2] * (-a1[j] - a2[j]) + four[3] * c[j]
                rhs = three[0] * a1[j] + three[1] * a2[j] + three[2] * c[j]
                E.prove('vector3to4.same_direction[%s]%s[%d]' % (tag, list(idx), j), lhs == rhs)
    u, v, w = E.real('u'), E.real('v'), E.real('w')
    q = snp.array([u, v, -(u + v), w])
    E.prove_eq('vector3to4(vector4to3).identity', M.vector3to4(M.vector4to3(q)), q)
    E.canary('vector34.canary', v4[..., 0].ravel()[0] == x[..., 0].ravel()[0])


class _HexBox(object):
    """stand-in Box for vector_crystal_to_cartesian: vects symbolic; ishexagonal() as requested"""

    def __init__(self, V, hexagonal, origin=None):
        self.vects = V
        self._hex = hexagonal
        self.origin = origin if origin is not None else snp.zeros(3)

    # the rest of the Box interface by its C01 contracts (a vector conversion must not use them: positions carry the origin, vectors do not)
    def position_relative_to_cartesian(self, rel):
        rel = snp.asarray(rel)
        return snp.asarray(_np.asarray(rel, dtype=object).dot(_np.asarray(self.vects, dtype=object)) + _np.asarray(self.origin, dtype=object))

    def ishexagonal(self):
        return self._hex


@group('miller.vector_crystal_to_cartesian', files=[MILLER], functions=['miller.vector_crystal_to_cartesian'],
       clause='[uvw] -> u a + v b + w c; four-index input goes through vector4to3 and needs a hexagonal cell', replay=_replay_miller)
def vector_c2c(E, L):
    M = _miller(L)
    V = E.reals('V', (3, 3))
    x = E.reals('x', (2, 3))
    org = E.reals('origin', (3,))
    r = M.vector_crystal_to_cartesian(x, _HexBox(V, False, org))
    E.prove('vector_crystal_to_cartesian.shape', r.shape == (2, 3))
    for k in range(2):
        for j in range(3):
            E.prove('vector_crystal_to_cartesian.post[%d,%d]' % (k, j), r[k, j] == x[k, 0] * V[0, j] + x[k, 1] * V[1, j] + x[k, 2] * V[2, j])
    u, v, w = E.real('u'), E.real('v'), E.real('w')
    q = snp.array([u, v, -(u + v), w])
    r4 = M.vector_crystal_to_cartesian(q, _HexBox(V, True, org))
    for j in range(3):
        E.prove('vector_crystal_to_cartesian.hex[%d]' % j, r4[j] == u * V[0, j] + v * V[1, j] - (u + v) * (-V[0, j] - V[1, j]) + w * V[2, j])
    try:
        M.vector_crystal_to_cartesian(q, _HexBox(V, False))
        E.prove('vector_crystal_to_cartesian.refuses_hex_indices_in_nonhex_cell', False)
    except ValueError:
        E.prove('vector_crystal_to_cartesian.refuses_hex_indices_in_nonhex_cell', True)
    E.canary('vector_c2c.canary', r[0, 0] == x[0, 0])


# ----------------------------------------------------------------------------
# plane normal

ZERO_PATTERNS = [(1, 1, 1), (1, 1, 0), (1, 0, 1), (1, 0, 0), (0, 1, 1), (0, 1, 0), (0, 0, 1)]


def _plane_normal_group(pat):
    tag = ''.join('x' if p else '0' for p in pat)

    @group('miller.plane_normal[%s]' % tag, files=[MILLER], functions=['miller.plane_crystal_to_cartesian'],
           clause='the Cartesian normal of integer plane indices (zero pattern %s, all non-zero integers) is the unit vector along h a* + k b* + l c*; '
                  'hence n.(u a + v b + w c) = 0 exactly when hu+kv+lw = 0' % tag,
           replay=_replay_miller, timeout_ms=30000)
    def h_(E, L):
        M = _miller(L)
        Box = L.load(BOXF).Box
        box, V, o = arb_box(E, Box)
        names = 'hkl'
        idx = []
        for k in range(3):
            if pat[k]:
                x = E.int(names[k])
                E.assume(x != 0)
                idx.append(x)
            else:
                idx.append(0)
        nz = [k for k in range(3) if pat[k]]
        p0_ = nz[0]
        a, b, c = V[0], V[1], V[2]
        bc, ca, ab = cross3(b, c), cross3(c, a), cross3(a, b)
        det = det3(V)
        # det * (h a* + k b* + l c*)   (det > 0 by the right-handedness precondition)
        G = snp.array([idx[0] * bc[j] + idx[1] * ca[j] + idx[2] * ab[j] for j in range(3)])
        c1 = idx[nz[0]]
        for k in nz[1:]:
            c1 = c1 * idx[k]
        E.canary('plane_normal.canary[%s]' % tag, idx[p0_] == 1)
        E.side_mode = 'collect'
        n = M.plane_crystal_to_cartesian(idx, box)
        E.side_mode = 'emit'
        E.prove('plane_normal.shape[%s]' % tag, n.shape == (3,))
        # what the assumed lcm contract introduced on this path: m = idx_k * q_k
        ms = _fresh_vars(E, 'lcm')
        m = Sym(ms[-1]) if ms else 1
        c2 = m ** (len(nz) - 1) if ms else 1
        s = snp.sign(c1)
        p0 = nz[0]
        base = dict(s=s, c1=c1, c2=c2, G=G, det=det, hp=idx[p0], vp=V[p0])

        def common_facts(v):
            return [('s_unit', v['s'] * v['s'] == 1), ('s_is_sign_of_c1', v['s'] * v['c1'] > 0), ('c2_positive', v['c2'] > 0),
                    ('det_positive', v['det'] > 0), ('hp_nonzero', v['hp'] != 0),
                    ('G_dot_cellvector', dot3(v['G'], v['vp']) == v['hp'] * v['det'])]
        # 1. the division by the norm inside the routine: the raw normal cannot vanish
        for e in E.collected:
            if e['kind'] != 'div_nonzero' or e['done']:
                continue
            eqt = e['term'].args[0] if e['term'].op == 'not' else e['term']
            r = Sym([x for x in eqt.args if not tm.is_const(x)][0])
            conc = dict(base, r=r)
            E.discharge_side(e, 'plane_normal.norm_nonzero[%s]' % tag, conc,
                             lambda v: common_facts(v) + [('norm_sq', v['c1'] * v['c1'] * v['r'] * v['r'] == v['c2'] * v['c2'] * v['s'] * v['s'] * dot3(v['G'], v['G']))],
                             lambda v: Sym(tm.ne(v['r'].t, tm.const(0, v['r'].t.sort))))
            rr = r
        E.prove('plane_normal.unit[%s]' % tag, dot3(n, n) == 1)
        u, v_, w = E.int('u'), E.int('v'), E.int('w')
        vec = snp.array([u * a[j] + v_ * b[j] + w * c[j] for j in range(3)])
        z = idx[0] * u + idx[1] * v_ + idx[2] * w
        conc = dict(base, r=rr, n=n, vec=vec, z=z)

        def facts(v):
            return common_facts(v) + [('r_nonneg', v['r'] >= 0), ('r_nonzero', v['r'] != 0),
                                      ('normal_times_norm', [v['c1'] * v['n'][j] * v['r'] == v['s'] * v['c2'] * v['G'][j] for j in range(3)]),
                                      ('G_dot_latticevector', dot3(v['G'], v['vec']) == v['det'] * v['z'])]

        def goal(v):
            nxG = cross3(v['n'], v['G'])
            return And(nxG[0] == 0, nxG[1] == 0, nxG[2] == 0, dot3(v['n'], v['G']) > 0,
                       Iff(dot3(v['n'], v['vec']) == 0, v['z'] == 0))
        E.abstract_lemma('plane_normal.reciprocal_direction_and_zone_law[%s]' % tag, conc, facts, goal)
    return h_


for _p in ZERO_PATTERNS:
    _plane_normal_group(_p)


@group('miller.plane_normal.refusals', files=[MILLER], functions=['miller.plane_crystal_to_cartesian'],
       clause='all-zero indices, non-integer indices and four indices with a non-hexagonal cell are refused; four indices in a hexagonal cell give the (hkl) normal; rows act independently',
       replay=_replay_miller)
def plane_normal_refusals(E, L):
    M = _miller(L)
    Box = L.load(BOXF).Box
    box, V, o = arb_box(E, Box)
    for bad, why in (([0, 0, 0], 'zero'), ([0.5, 1, 0], 'noninteger'), ([1, 1], 'dimension')):
        try:
            M.plane_crystal_to_cartesian(bad, box)
            E.prove('plane_normal.refuses[%s]' % why, False)
        except ValueError:
            E.prove('plane_normal.refuses[%s]' % why, True)
    E.side_enabled = False       # the norm of the raw normal is non-zero: obligation plane_normal.norm_nonzero of the per-pattern groups
    hb = _HexBox(V, False)
    try:
        M.plane_crystal_to_cartesian([1, 0, -1, 2], hb)
        E.prove('plane_normal.refuses[hex indices in non-hex cell]', False)
    except ValueError:
        E.prove('plane_normal.refuses[hex indices in non-hex cell]', True)
    hb = _HexBox(V, True)
    n4 = M.plane_crystal_to_cartesian([1, 0, -1, 2], hb)
    n3 = M.plane_crystal_to_cartesian([1, 0, 2], hb)
    E.prove_eq('plane_normal.four_index_equals_three_index', n4, n3)
    rows = M.plane_crystal_to_cartesian([[1, 0, 2], [0, -1, 1]], hb)
    E.prove('plane_normal.rows.shape', rows.shape == (2, 3))
    E.prove_eq('plane_normal.rows[0]', rows[0], n3)
    E.prove_eq('plane_normal.rows[1]', rows[1], M.plane_crystal_to_cartesian([0, -1, 1], hb))
    E.canary('plane_normal.refusals.canary', V[0, 0] == 0)


# ----------------------------------------------------------------------------
# centring settings

SETTINGS = ['p', 'a', 'b', 'c', 'i', 'f', 't1', 't2']
# lattice points per conventional cell (International Tables): determinant of conventional->primitive index map
POINTS = {'p': 1, 'a': 2, 'b': 2, 'c': 2, 'i': 2, 'f': 4, 't1': 3, 't2': 3}


@group('miller.centring', files=[MILLER], functions=['miller.vector_primitive_to_conventional', 'miller.vector_conventional_to_primitive'],
       clause='conventional-to-primitive and primitive-to-conventional index conversions are mutually inverse for every centring and their determinants are the lattice-point '
              'multiplicity (1,2,2,2,2,4,3,3) resp. its reciprocal; conventional lattice vectors map to integer primitive indices', replay=_replay_miller)
def centring(E, L):
    M = _miller(L)
    for s in SETTINGS:
        x = E.reals('x_%s' % s, (2, 3))
        p2c = M.vector_primitive_to_conventional(x, s)
        E.prove_eq('centring.c2p(p2c).identity[%s]' % s, M.vector_conventional_to_primitive(p2c, s), x)
        c2p = M.vector_conventional_to_primitive(x, s)
        E.prove_eq('centring.p2c(c2p).identity[%s]' % s, M.vector_primitive_to_conventional(c2p, s), x)
        # the maps are linear: images of the basis give the matrices; determinants
        I3 = snp.eye(3)
        Mc2p = M.vector_conventional_to_primitive(I3, s)
        Mp2c = M.vector_primitive_to_conventional(I3, s)
        E.prove('centring.det_c2p[%s]' % s, det3(Mc2p) == POINTS[s])
        E.prove('centring.det_p2c[%s]' % s, det3(Mp2c) * POINTS[s] == 1)
        ok = True
        for i in range(3):
            for j in range(3):
                e = Mc2p[i, j]
                val = e.value() if isinstance(e, Sym) else Fraction(e)
                ok = ok and Fraction(val).denominator == 1
        E.prove('centring.c2p_integer[%s]' % s, ok)
        for k in range(2):
            for j in range(3):
                E.prove('centring.linear[%s][%d,%d]' % (s, k, j), c2p[k, j] == x[k, 0] * Mc2p[0, j] + x[k, 1] * Mc2p[1, j] + x[k, 2] * Mc2p[2, j])
    for nm in ('vector_primitive_to_conventional', 'vector_conventional_to_primitive'):
        try:
            getattr(M, nm)(E.reals('z', (3,)), 'q')
            E.prove('%s.refuses_unknown_setting' % nm, False)
        except ValueError:
            E.prove('%s.refuses_unknown_setting' % nm, True)
    E.canary('centring.canary', c2p[0, 0] == x[0, 0])


# ----------------------------------------------------------------------------
# reduce_indices (gcd contract)

@group('miller.reduce_indices', files=[MILLER], functions=['miller.reduce_indices'],
       clause='reducing indices returns coprime integer indices of the same direction (original = positive integer multiple of the result)',
       replay=_replay_miller, timeout_ms=30000)
def reduce_indices(E, L):
    M = _miller(L)
    for n in (3, 4):
        x = E.ints('i%d' % n, (n,))
        E.assume(Or(*[x[k] != 0 for k in range(n)]))
        r = M.reduce_indices(x)
        E.prove('reduce_indices.shape[%d]' % n, r.shape == (n,))
        # the facade's gcd contract introduced g and Bezout coefficients on this path: recover them from the engine's fresh names
        g = Sym(tm.var('gcd!%d' % _first_fresh(E, 'gcd'), tm.I))
        E.prove('reduce_indices.positive_scale[%d]' % n, g > 0)
        for k in range(n):
            E.prove('reduce_indices.same_direction[%d][%d]' % (n, k), x[k] == g * r[k])
        bez = [Sym(v) for v in _fresh_vars(E, 'bezout')][-n:]
        E.prove('reduce_indices.coprime[%d]' % n, sum((bez[k] * r[k] for k in range(1, n)), bez[0] * r[0]) == 1)
    # arrays of any leading shape: every row is reduced by its own divisor
    for shp in ((2, 3), (2, 2, 3)):
        tag = 'x'.join(str(i) for i in shp)
        xs = E.ints('r%s' % tag, shp)
        for idx in _np.ndindex(*shp[:-1]):
            E.assume(Or(*[xs[idx + (k,)] != 0 for k in range(3)]))
        npc = len(E.pc)
        rs = M.reduce_indices(xs)
        E.prove('reduce_indices.rows.shape[%s]' % tag, rs.shape == shp)
        gs = [Sym(v) for v in _fresh_vars_in(E.pc[npc:], 'gcd')]
        k = 0
        for idx in _np.ndindex(*shp[:-1]):
            g = gs[k]
            k += 1
            for j in range(3):
                E.prove('reduce_indices.rows.same_direction[%s]%s[%d]' % (tag, list(idx), j), xs[idx + (j,)] == g * rs[idx + (j,)])
    E.canary('reduce_indices.canary', r[0] == x[0])
    try:
        M.reduce_indices(E.ints('bad', (2,)))
        E.prove('reduce_indices.refuses_bad_dimension', False)
    except ValueError:
        E.prove('reduce_indices.refuses_bad_dimension', True)


def _fresh_vars(E, base):
    return _fresh_vars_in(E.pc, base)


def _fresh_vars_in(pc, base):
    out = []
    for t in pc:
        for s in tm.subterms([t]):
            if s.op == 'var' and s.args[0].startswith(base + '!') and s not in out:
                out.append(s)
    out.sort(key=lambda s: int(s.args[0].split('!')[1]))
    return out


def _first_fresh(E, base):
    vs = _fresh_vars(E, base)
    return int(vs[-1].args[0].split('!')[1])


@group('miller.reduce_indices.exhaustive', kind='bounded', files=[MILLER], functions=['miller.reduce_indices', 'miller.all_indices', 'miller.fromstring'],
       clause='reduce_indices against math.gcd, all_indices count/zero-vector removal, index strings parse to the numbers they show',
       rule='exhaustive: all integer triples and Miller-Bravais quadruples with |index| <= 4; all_indices(maxindex 1..3, reduce True/False); every string over 4 bracket kinds x 3/4 indices in [-3,3] '
            '(seed-selected 600 per bracket in quick, all in thorough) x optional fraction p/q, q <= 4; non-trivial = not all indices equal')
def reduce_exhaustive(tier, seed):
    from pyvc.native import atomman
    import numpy as np
    import random
    am = atomman()
    m = am.tools.miller
    fails, samples = [], []
    evals = nontriv = 0
    R = 4
    for idx in itertools.product(range(-R, R + 1), repeat=3):
        if idx == (0, 0, 0):
            continue
        evals += 1
        nontriv += len(set(idx)) > 1
        g = math.gcd(*[abs(i) for i in idx])
        for arr in (np.array(idx), np.array([idx[0], idx[1], -(idx[0] + idx[1]), idx[2]])):
            if not np.any(arr):
                continue
            g = math.gcd(*[abs(int(i)) for i in arr])
            try:
                r = m.reduce_indices(arr)
                ok = np.array_equal(r, arr // g) and math.gcd(*[abs(int(i)) for i in r]) == 1
            except Exception as e:
                ok, r = False, '%s: %s' % (type(e).__name__, e)
            if not ok:
                fails.append({'obligation': 'reduce_indices.post', 'key': str(arr.tolist()), 'input': arr.tolist(), 'detail': 'reduce_indices(%r) = %r, expected %r' % (arr.tolist(), getattr(r, 'tolist', lambda: r)(), (arr // g).tolist())})
    samples.append({'reduce_indices': [4, -2, 2], 'result': m.reduce_indices(np.array([4, -2, 2])).tolist()})
    # 2-D input acts row by row
    rows = np.array([[2, 4, 6], [3, 0, -9], [0, 0, 5]])
    r = m.reduce_indices(rows)
    evals += 1
    if not np.array_equal(r, np.array([[1, 2, 3], [1, 0, -3], [0, 0, 1]])):
        fails.append({'obligation': 'reduce_indices.rows', 'key': 'rows', 'input': rows.tolist(), 'detail': 'got %r' % (r.tolist(),)})
    for mx in (1, 2, 3):
        for red in (False, True):
            evals += 1
            nontriv += 1
            got = m.all_indices(mx, reduce=red)
            want = set(i for i in itertools.product(range(-mx, mx + 1), repeat=3) if i != (0, 0, 0))
            if red:
                want = set(tuple(int(x) // math.gcd(*[abs(y) for y in i]) for x in i) for i in want)
            gs = [tuple(int(x) for x in row) for row in got]
            if set(gs) != want or len(gs) != len(want):
                fails.append({'obligation': 'all_indices.post', 'key': 'maxindex=%d,reduce=%s' % (mx, red), 'input': [mx, red],
                              'detail': 'all_indices(%d, reduce=%s): %d rows (%d distinct), expected %d' % (mx, red, len(gs), len(set(gs)), len(want))})
    # index strings
    rnd = random.Random(seed)
    brackets = ['[]', '()', '<>', '{}']
    fracs = [None] + [(p, q) for q in (2, 3, 4) for p in (1, 3)]
    nstr = 0
    for (o, c) in brackets:
        for n in (3, 4):
            allidx = list(itertools.product(range(-3, 4), repeat=n))
            if tier == 'quick':
                allidx = rnd.sample(allidx, 300)
            for idx in allidx:
                fr = fracs[nstr % len(fracs)]
                nstr += 1
                body = ' '.join(str(i) for i in idx)
                s = ('%d/%d' % fr if fr else '') + o + body + c
                evals += 1
                nontriv += len(set(idx)) > 1
                scale = (fr[0] / fr[1]) if fr else 1.0
                try:
                    got = m.fromstring(s)
                    ok = got.shape == (n,) and np.allclose(got, scale * np.array(idx, dtype=float), rtol=1e-14, atol=0)
                except Exception as e:
                    ok, got = False, '%s: %s' % (type(e).__name__, e)
                if not ok:
                    fails.append({'obligation': 'fromstring.post', 'key': s, 'input': s, 'detail': 'fromstring(%r) = %r' % (s, getattr(got, 'tolist', lambda: got)())})
    for s in ('1 0 -1', ' 2 -1 -1 3 '):
        evals += 1
        got = m.fromstring(s)
        want = np.array([float(t) for t in s.split()])
        if not np.array_equal(got, want):
            fails.append({'obligation': 'fromstring.post', 'key': s, 'input': s, 'detail': 'fromstring(%r) = %r' % (s, got.tolist())})
    samples.append({'fromstring': '1/3[1 1 -2 0]', 'result': m.fromstring('1/3[1 1 -2 0]').tolist()})
    files = {MILLER: hashlib.sha256(open(os.path.join(REPO, MILLER), 'rb').read()).hexdigest()}
    return {'family': 'indices in [-4,4]^3 (+ the Miller-Bravais quadruple of each), all_indices maxindex 1..3, %d index strings' % nstr,
            'evaluations': evals, 'distinct_nontrivial': nontriv,
            'rule': 'exhaustive enumeration as stated; distinct by input; non-trivial = indices not all equal',
            'samples': samples, 'failures': fails[:20], 'files': files}


# ----------------------------------------------------------------------------
# crystal family: constructors pass the family's parameters; identification decides from (a,b,c,alpha,beta,gamma)

def _ParamBox(a, b, c, alpha, beta, gamma, Box=None):
    """a Box whose reported lengths/angles are arbitrary symbolic values (the getters' own contract is C01);
    all other methods are the real ones"""
    vals = dict(a=a, b=b, c=c, alpha=alpha, beta=beta, gamma=gamma)
    ns = {k: property(lambda self, k=k: vals[k]) for k in vals}

    def _missing(self, name):
        # the stand-in has reported lengths and angles only: a predicate that reads anything else of the cell (its vectors, ...) is outside what this proof models
        from pyvc.sym import LeftFragment
        raise LeftFragment('the family predicate reads %r of the cell; the parametrised stand-in only has lengths and angles' % name)
    ns['__getattr__'] = _missing
    cls = type('ParamBox', (Box,) if Box is not None else (object,), ns)
    return object.__new__(cls)


def _close(x, y, rtol=Fraction(1, 10 ** 5), atol=Fraction(1, 10 ** 8)):
    y = y if isinstance(y, Sym) else realconst(y)
    return sym_abs(x - y) <= realconst(atol) + realconst(rtol) * sym_abs(y)


def _family_pre(E, fam):
    """parameters as reported for a cell made by the family constructor with generic, non-coincident values:
    equal parameters are reported equal up to a relative 1e-9 (rounding of set_abc/getters, C01), different parameters differ by more than 1e-4 relative,
    free angles stay 1e-3 degrees away from 90 and from each other"""
    a, b, c, al, be, ga = [E.real(n) for n in ('a', 'b', 'c', 'alpha', 'beta', 'gamma')]
    E.assume(And(a > 0, b > 0, c > 0, al > 0, al < 180, be > 0, be < 180, ga > 0, ga < 180))
    eps = realconst(Fraction(1, 10 ** 9))
    same = lambda x, y: sym_abs(x - y) <= eps * sym_abs(y)
    ang = lambda x, v: sym_abs(x - v) <= realconst(Fraction(1, 10 ** 7))
    diff = lambda x, y: sym_abs(x - y) > realconst(Fraction(1, 10 ** 4)) * (sym_abs(x) + sym_abs(y)) + realconst(Fraction(1, 10 ** 7))
    adiff = lambda x, y: sym_abs(x - y) > realconst(Fraction(1, 10 ** 3)) + realconst(Fraction(2, 10 ** 5)) * 180
    if fam == 'cubic':
        E.assume(And(same(a, b), same(a, c), ang(al, 90), ang(be, 90), ang(ga, 90)))
    elif fam == 'hexagonal':
        E.assume(And(same(a, b), ang(al, 90), ang(be, 90), ang(ga, 120)))
    elif fam == 'tetragonal':
        E.assume(And(same(a, b), diff(a, c), ang(al, 90), ang(be, 90), ang(ga, 90)))
    elif fam == 'rhombohedral':
        E.assume(And(same(a, b), same(a, c), same(al, be), same(al, ga), adiff(al, realconst(90))))
    elif fam == 'orthorhombic':
        E.assume(And(diff(a, b), diff(a, c), ang(al, 90), ang(be, 90), ang(ga, 90)))
    elif fam == 'monoclinic':
        E.assume(And(diff(a, b), diff(a, c), ang(al, 90), adiff(be, realconst(90)), ang(ga, 90)))
    elif fam == 'triclinic':
        E.assume(And(diff(a, b), diff(a, c), adiff(al, be), adiff(al, ga)))
    return a, b, c, al, be, ga


FAMILIES = ['cubic', 'hexagonal', 'tetragonal', 'rhombohedral', 'orthorhombic', 'monoclinic', 'triclinic']


def _identify_group(fam):
    @group('family.identify[%s]' % fam, files=[BOXF, CRYST], functions=['Box.identifyfamily', 'Box.is%s' % fam, 'crystalsystem.identifyfamily', 'crystalsystem.is%s' % fam],
           clause='a cell whose reported lengths/angles are those of a %s cell with generic parameters is identified as %s (method and stand-alone function)' % (fam, fam),
           replay=_replay_family)
    def h_(E, L):
        Box = L.load(BOXF).Box
        CS = L.load(CRYST)
        a, b, c, al, be, ga = _family_pre(E, fam)
        pb = _ParamBox(a, b, c, al, be, ga, Box)
        got = pb.identifyfamily()
        E.prove('identifyfamily.method[%s]' % fam, got == fam)
        import warnings
        with warnings.catch_warnings():
            warnings.simplefilter('ignore')
            got2 = CS.identifyfamily(pb)
        E.prove('identifyfamily.function[%s]' % fam, got2 == fam)
        # the individual predicate is true, and is exactly its isclose-specification
        isf = getattr(pb, 'is' + fam)()
        E.prove('is%s.true' % fam, isf)
        E.reachable('family.identify.requires_satisfiable[%s]' % fam)
        E.canary('family.identify.canary[%s]' % fam, a == b)
    return h_


for _f in FAMILIES:
    _identify_group(_f)


@group('family.predicates.spec', files=[BOXF], functions=['Box.iscubic', 'Box.ishexagonal', 'Box.istetragonal', 'Box.isrhombohedral', 'Box.isorthorhombic',
                                                           'Box.ismonoclinic', 'Box.istriclinic'],
       clause='each family predicate is exactly its definition in terms of isclose comparisons of a,b,c,alpha,beta,gamma (all values)', replay=_replay_family)
def predicates_spec(E, L):
    Box = L.load(BOXF).Box
    a, b, c, al, be, ga = [E.real(n) for n in ('a', 'b', 'c', 'alpha', 'beta', 'gamma')]
    pb = _ParamBox(a, b, c, al, be, ga, Box)
    ab, ac = _close(a, b), _close(a, c)
    a90, b90, g90, g120 = _close(al, 90), _close(be, 90), _close(ga, 90), _close(ga, 120)
    albe, alga = _close(al, be), _close(al, ga)
    spec = {
        'cubic': And(ab, ac, a90, b90, g90),
        'hexagonal': And(ab, a90, b90, g120),
        'tetragonal': And(ab, Not(ac), a90, b90, g90),
        'rhombohedral': And(ab, ac, albe, alga, Not(a90)),
        'orthorhombic': And(Not(ab), Not(ac), a90, b90, g90),
        'monoclinic': And(Not(ab), Not(ac), a90, Not(b90), g90),
        'triclinic': And(Not(ab), Not(ac), Not(albe), Not(alga)),
    }
    for f in FAMILIES:
        r = getattr(pb, 'is' + f)()
        r = r if isinstance(r, Sym) else Sym(tm.const(bool(r)))
        E.prove('is%s.spec' % f, Iff(r, spec[f]))
    E.canary('family.predicates.canary', ab)


class _CaptureBox(object):
    pass


@group('family.constructors', files=[BOXF], functions=['Box.cubic', 'Box.hexagonal', 'Box.tetragonal', 'Box.trigonal', 'Box.orthorhombic', 'Box.monoclinic', 'Box.triclinic'],
       clause="each family constructor builds the cell from that family's lengths and angles (cubic: a,a,a,90,90,90; hexagonal: a,a,c,90,90,120; ...) and refuses coincident parameters",
       replay=_replay_family)
def family_constructors(E, L):
    Box = L.load(BOXF).Box
    got = {}

    class Cap(Box):
        def __init__(self, **kw):
            got.clear()
            got.update(kw)
    a, b, c, al, be, ga = [E.real(n) for n in ('a', 'b', 'c', 'alpha', 'beta', 'gamma')]
    E.assume(And(a > 0, b > 0, c > 0, a != b, a != c, b != c, al != be, al != ga, al < 120, be > 90))

    def chk(name, want):
        keys = ('a', 'b', 'c', 'alpha', 'beta', 'gamma')
        E.prove('%s.keys' % name, sorted(got) == sorted(keys))
        for k, w in zip(keys, want):
            E.prove('%s.%s' % (name, k), got[k] == w)
    Cap.cubic(a)
    chk('cubic', (a, a, a, 90, 90, 90))
    Cap.hexagonal(a, c)
    chk('hexagonal', (a, a, c, 90, 90, 120))
    Cap.tetragonal(a, c)
    chk('tetragonal', (a, a, c, 90, 90, 90))
    Cap.trigonal(a, al)
    chk('trigonal', (a, a, a, al, al, al))
    Cap.orthorhombic(a, b, c)
    chk('orthorhombic', (a, b, c, 90, 90, 90))
    Cap.monoclinic(a, b, c, be)
    chk('monoclinic', (a, b, c, 90, be, 90))
    Cap.triclinic(a, b, c, al, be, ga)
    chk('triclinic', (a, b, c, al, be, ga))
    for nm, args in (('hexagonal', (a, a)), ('tetragonal', (a, a)), ('orthorhombic', (a, a, c)), ('orthorhombic', (a, b, a)),
                     ('monoclinic', (a, a, c, be)), ('monoclinic', (a, b, c, 90)), ('trigonal', (a, 120)), ('triclinic', (a, b, c, al, al, ga))):
        try:
            getattr(Cap, nm)(*args)
            E.prove('%s.refuses_coincident%s' % (nm, len(args)), False)
        except ValueError:
            E.prove('%s.refuses_coincident%s' % (nm, len(args)), True)
    E.canary('family.constructors.canary', a == 1)

# ----------------------------------------------------------------------------
# bounded: cells of every family in several orientations (the proofs above use a symbolic general cell for the conversions and reported lengths/angles for the
# predicates; this family ties the two together on real Box objects that are NOT in the constructor's standard orientation)

@group('family.oriented_cells', kind='bounded', files=[MILLER, BOXF, CRYST], functions=['miller.vector_crystal_to_cartesian', 'miller.plane_crystal_to_cartesian', 'Box.ishexagonal', 'Box.identifyfamily'],
       clause='on right-handed cells of every family in the standard and in rotated orientations: three-index vectors convert to u a + v b + w c and plane normals to the unit reciprocal-lattice '
              'direction; on hexagonal cells in every orientation the four-index forms are accepted and denote the same direction / normal as the three-index forms; a cell made by a family '
              'constructor (standard orientation) is identified as its family',
       rule='7 families x 6 orientations (identity; 30 deg about z; 40 deg about x; 25 deg about y; two general axes) x all index triples in [-2,2]^3 (non-zero); for hexagonal cells also the '
            'Miller-Bravais quadruple of each triple; oracle: explicit linear combinations and cross products; distinct by (family, orientation, indices); non-trivial = rotated orientation')
def oriented_cells(tier, seed):
    from pyvc.native import atomman
    import numpy as np
    am = atomman()
    m = am.tools.miller

    def rot(axis, deg):
        axis = np.asarray(axis, dtype=float)
        axis = axis / np.linalg.norm(axis)
        t = np.radians(deg)
        K = np.array([[0, -axis[2], axis[1]], [axis[2], 0, -axis[0]], [-axis[1], axis[0], 0]])
        return np.eye(3) + np.sin(t) * K + (1 - np.cos(t)) * K.dot(K)
    orients = [('identity', np.eye(3)), ('z30', rot([0, 0, 1], 30)), ('x40', rot([1, 0, 0], 40)), ('y25', rot([0, 1, 0], 25)), ('g1', rot([1, 2, 3], 57)), ('g2', rot([-2, 1, 0.5], 131))]
    cases = [('cubic', am.Box.cubic(3.3)), ('hexagonal', am.Box.hexagonal(2.9, 4.7)), ('tetragonal', am.Box.tetragonal(2.9, 4.7)), ('rhombohedral', am.Box.trigonal(3.1, 71.0)),
             ('orthorhombic', am.Box.orthorhombic(3.1, 4.2, 5.3)), ('monoclinic', am.Box.monoclinic(3.1, 4.2, 5.3, 103.0)), ('triclinic', am.Box.triclinic(3.1, 4.2, 5.3, 81, 97, 112))]
    triples = [t for t in itertools.product(range(-2, 3), repeat=3) if any(t)]
    fails, samples = [], []
    evals = nontriv = 0
    for fam, std in cases:
        for oname, R in orients:
            V = std.vects.dot(R.T)
            try:
                box = am.Box(vects=V, origin=[0.4, -0.3, 1.1])
            except Exception as e:
                fails.append({'obligation': 'oriented.cell', 'key': '%s,%s' % (fam, oname), 'input': V.tolist(), 'detail': 'Box(vects=...) raised %s: %s' % (type(e).__name__, e)})
                continue
            a1, a2, a3 = V
            rec = np.array([np.cross(a2, a3), np.cross(a3, a1), np.cross(a1, a2)]) / a1.dot(np.cross(a2, a3))
            bad = []
            if oname == 'identity':
                try:
                    got = box.identifyfamily()
                    if got != fam:
                        bad.append('identified as %r' % (got,))
                except Exception as e:
                    bad.append('identifyfamily raised %s: %s' % (type(e).__name__, e))
            for t in triples:
                evals += 1
                nontriv += oname != 'identity'
                tv = np.array(t, dtype=float)
                try:
                    v3 = m.vector_crystal_to_cartesian(np.array(t), box)
                    if not np.allclose(v3, tv.dot(V), atol=1e-9):
                        bad.append('[%d %d %d] -> %r, expected %r' % (t + (np.round(v3, 5).tolist(), np.round(tv.dot(V), 5).tolist())))
                    n3 = m.plane_crystal_to_cartesian(np.array(t), box)
                    G = tv.dot(rec)
                    if not np.allclose(n3, G / np.linalg.norm(G), atol=1e-8):
                        bad.append('(%d %d %d) normal %r, reciprocal-lattice direction %r' % (t + (np.round(n3, 5).tolist(), np.round(G / np.linalg.norm(G), 5).tolist())))
                    if fam == 'hexagonal':
                        q4 = m.vector3to4(tv)
                        v4 = m.vector_crystal_to_cartesian(q4, box)
                        if not np.allclose(v4, tv.dot(V), atol=1e-9):
                            bad.append('four-index vector %r -> %r, three-index form gives %r' % (np.round(q4, 4).tolist(), np.round(v4, 5).tolist(), np.round(tv.dot(V), 5).tolist()))
                        p4 = m.plane3to4(tv)
                        n4 = m.plane_crystal_to_cartesian(p4, box)
                        if not np.allclose(n4, n3, atol=1e-8):
                            bad.append('four-index plane %r normal %r, three-index form gives %r' % (p4.tolist(), np.round(n4, 5).tolist(), np.round(n3, 5).tolist()))
                except Exception as e:
                    bad.append('indices %r: raised %s: %s' % (list(t), type(e).__name__, e))
                if len(bad) > 2:
                    break
            if bad:
                fails.append({'obligation': 'oriented.post', 'key': '%s,%s' % (fam, oname), 'input': {'vects': V.tolist()}, 'detail': '%s cell, orientation %s: %s' % (fam, oname, '; '.join(bad[:2]))})
        samples.append({'family': fam, 'orientations': [o for o, _ in orients]})
    files = {rel: hashlib.sha256(open(os.path.join(REPO, rel), 'rb').read()).hexdigest() for rel in (MILLER, BOXF, CRYST)}
    return {'family': '7 crystal families x 6 orientations x index triples in [-2,2]^3', 'evaluations': evals, 'distinct_nontrivial': nontriv, 'rule': 'see group rule', 'samples': samples[:2],
            'failures': fails[:20], 'files': files}


# ----------------------------------------------------------------------------
# callee contracts this property's proofs ASSUME are part of this check (modular verification carries the property only if the assumed contract is itself
# discharged on the same tree): the groups of the property that establishes them run here as well, reported under this property when they fail.
# the crystal-family predicates read the cell's lengths and angles; Box.py and vect_angle.py are among this property's files
from . import c01 as _c01
for _g in _c01.GROUPS:
    if _g.name in ('vect_angle', 'Box.angles', 'Box.abc_volume'):
        GROUPS.append(_g)
