#!/bin/sh
# tools/mutant.sh <patch-file|-R commit> <PROPERTY> [check args...]
# Runs ./check against a scratch copy of /repo's atomman package with the patch applied (never touches /repo).
# For `-R <commit>` the named /repo commit is reverted in the scratch copy (used to show that a fix: commit is detected).
set -e
DIR="$(cd "$(dirname "$0")/.." && pwd)"
S=$(mktemp -d /tmp/pyvc_mut.XXXXXX)
trap 'rm -rf "$S"' EXIT
mkdir -p "$S/repo"
rsync -a --exclude .git --exclude doc --exclude build /repo/ "$S/repo/"
if [ "$1" = "-R" ]; then
  shift; c="$1"; shift
  git -C /repo show "$c" | (cd "$S/repo" && patch -R -p1 -s)
else
  p="$(realpath "$1")"; shift
  (cd "$S/repo" && patch -p1 -s < "$p")
fi
prop="$1"; shift
cd "$DIR"
PYVC_REPO="$S/repo" ./check "$prop" --no-evidence "$@" || echo "exit=$?"
