#!/bin/sh
# tools/seed_verify.sh <ID_k> [srcdir]   (default srcdir /tmp/seed_out/<ID>/<ID_k>)
# Confirms a seeded change in a scratch git worktree of /repo: demo passes without it, fails with it, the 83 baseline tests still pass with it.
# Then stores it under /verif/seeded/<ID_k>/ with meta.json.  The worktree and its build output are removed afterwards.
set -u
DIR="$(cd "$(dirname "$0")/.." && pwd)"
IDK="$1"; ID="${IDK%%_*}"
SRC="${2:-/tmp/seed_out/$ID/$IDK}"
W=/tmp/vw_$IDK
git -C /repo worktree remove --force "$W" >/dev/null 2>&1
git -C /repo worktree add --detach -f "$W" HEAD >/dev/null 2>&1 || { echo "cannot create worktree"; exit 2; }
(cd /repo && find atomman -name '*.so' | while read f; do cp "$f" "$W/$f"; done)
cd "$W"
PYTHONPATH="$W" timeout 300 /venv/bin/python -W ignore "$SRC/demo.py" > /tmp/vw_$IDK.clean.out 2>&1; rc_clean=$?
if ! git apply "$SRC/patch.diff" 2>/tmp/vw_$IDK.apply.err; then echo "$IDK: patch does not apply: $(head -3 /tmp/vw_$IDK.apply.err)"; cd /; git -C /repo worktree remove --force "$W"; exit 2; fi
if grep -q '\.pyx' "$SRC/patch.diff"; then /venv/bin/python setup.py build_ext --inplace >/tmp/vw_$IDK.build.out 2>&1 || echo "build failed"; fi
PYTHONPATH="$W" timeout 300 /venv/bin/python -W ignore "$SRC/demo.py" > /tmp/vw_$IDK.mut.out 2>&1; rc_mut=$?
PYTHONPATH="$W" /venv/bin/python -m pytest -q -p no:cacheprovider --timeout=900 --continue-on-collection-errors tests > /tmp/vw_$IDK.tests.out 2>&1
tests_line=$(tail -1 /tmp/vw_$IDK.tests.out)
failed=$(grep -E '^FAILED' /tmp/vw_$IDK.tests.out | grep -v -E 'test_atomic_imageflags|test_atomic_no_imageflags|test_goodfile' | wc -l)
cd /
git -C /repo worktree remove --force "$W"
echo "$IDK: demo clean rc=$rc_clean, demo with change rc=$rc_mut, tests: $tests_line, unexpected test failures=$failed"
if [ "$rc_clean" = 0 ] && [ "$rc_mut" != 0 ] && [ "$failed" = 0 ] && echo "$tests_line" | grep -qE "(83|84|85|86) passed"; then
  mkdir -p "$DIR/seeded/$IDK"
  cp "$SRC/patch.diff" "$SRC/demo.py" "$DIR/seeded/$IDK/"
  [ -f "$SRC/notes.md" ] && cp "$SRC/notes.md" "$DIR/seeded/$IDK/"
  /venv/bin/python - "$IDK" "$ID" "$DIR" "$tests_line" "$rc_clean" "$rc_mut" <<'PY'
import json, sys, subprocess
idk, pid, d, tests, rc0, rc1 = sys.argv[1:7]
notes = ''
try: notes = open('%s/seeded/%s/notes.md' % (d, idk)).read()
except Exception: pass
head = subprocess.run(['git','-C','/repo','rev-parse','--short','HEAD'],capture_output=True,text=True).stdout.strip()
tail = open('/tmp/vw_%s.mut.out' % idk).read()[-600:]
meta = {'id': idk, 'breaks_property': pid, 'source': 'fresh sub-agent given only the property text and a scratch worktree',
        'needs_to_manifest': (notes.split('\n\n')[1] if notes.count('\n\n') else notes)[:800],
        'verified_by_me': {'repo_head': head, 'demo_exit_without_change': int(rc0), 'demo_exit_with_change': int(rc1), 'baseline_tests_with_change': tests,
                           'demo_output_with_change_tail': tail},
        'detected_by': None}
json.dump(meta, open('%s/seeded/%s/meta.json' % (d, idk), 'w'), indent=1)
PY
  echo "$IDK: kept in seeded/$IDK"
else
  echo "$IDK: NOT kept"
fi
rm -f /tmp/vw_$IDK.*
