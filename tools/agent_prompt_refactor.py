#!/usr/bin/env python3
"""prints the sub-agent prompt for behaviour-PRESERVING refactorings of the code a property is anchored in (false-alarm probe)"""
import json, sys
pid = sys.argv[1]
k0 = int(sys.argv[2]) if len(sys.argv) > 2 else 1
num = int(sys.argv[3]) if len(sys.argv) > 3 else 3
avoid = sys.argv[4] if len(sys.argv) > 4 else ''
p = [json.loads(l) for l in open('/verif/properties.jsonl') if json.loads(l)['id'] == pid][0]
print(f"""You are helping test a verification effort for the Python package usnistgov/atomman (NIST atomistic toolkit).
You have your own scratch git worktree of the repository at /tmp/wt_{pid} (compiled Cython extensions already copied in; Cython and gcc are present if you need to rebuild a .pyx with `cd /tmp/wt_{pid} && /venv/bin/python setup.py build_ext --inplace`).
Work ONLY inside /tmp/wt_{pid} and /tmp/refactor_out/{pid}. Never read or write /repo or /verif. There is no network. Use /venv/bin/python (numpy, scipy, pandas, pytest). To make Python import YOUR copy of atomman, run with `cd /tmp/wt_{pid}` and `PYTHONPATH=/tmp/wt_{pid}` and confirm with `python -c "import atomman; print(atomman.__file__)"`.

Here is a semantic property of atomman that holds for all inputs on the current tree:

  id: {pid}
  title: {p['title']}
  statement: {p['statement']}
  quantifier: {p['quantifier']['text']}
  files it is anchored in: {', '.join(p['anchors']['files'])}

Your task: produce {['ONE', 'TWO', 'THREE'][num - 1]} independent BEHAVIOUR-PRESERVING refactoring(s) of the code this property is anchored in -- the kind of clean-up a maintainer does without intending any change in behaviour: e.g. renaming local variables, reordering independent statements, replacing a loop by an equivalent vectorised expression (or the reverse), extracting a helper function or inlining one, restructuring if/else chains, replacing a chain of conditionals by a table lookup, using an equivalent NumPy call, introducing an early return that provably does the same, splitting a long function. Each refactoring should touch a function that matters for the property (not only comments/docstrings) and change at least ~8 lines. The three should differ in kind and preferably touch different functions.
Hard requirements for each refactoring:
 * Behaviour must be IDENTICAL for all inputs in the property's quantifier (same results up to floating-point round-off of at most a few ulps, same exceptions for the documented refusals, same in-place effects / no new aliasing, same return types and shapes). Do NOT fix bugs, do not change tolerances, do not change public signatures, do not change which exceptions are raised.
 * The existing tests must still pass: `cd /tmp/wt_{pid} && PYTHONPATH=/tmp/wt_{pid} /venv/bin/python -m pytest -q -p no:cacheprovider --timeout=900 -x tests 2>&1 | tail -5` (unmodified tree: 86 passed, 9 skipped).
 * Write an equivalence program `equiv.py` that exercises the refactored functions on a broad, seeded family of inputs from the property's quantifier (including the unusual corners: tilted cells, non-zero origins, every periodicity setting, negative indices, odd shapes, rarely used options, sequences of operations -- whatever applies), records all outputs to a file with full precision, and, given `--compare <file>`, compares a new run against the recorded file. Record on the clean tree, apply the patch, compare: it must report no differences beyond 1e-12 relative. Under 60 s.
Deliverables, for k = {', '.join(str(k0 + i) for i in range(num))}:
   /tmp/refactor_out/{pid}/{pid}_r{{k}}/patch.diff   (output of `git -C /tmp/wt_{pid} diff` for that refactoring alone, applying cleanly with `git apply` to the unmodified tree)
   /tmp/refactor_out/{pid}/{pid}_r{{k}}/equiv.py
   /tmp/refactor_out/{pid}/{pid}_r{{k}}/notes.md     (what was refactored, why it is behaviour-preserving, what you ran and observed)
Make each refactoring alone starting from the clean tree (`git -C /tmp/wt_{pid} checkout -- .` between them), and leave the worktree clean when you finish. If a .pyx file is changed, rebuild the extension for your verification and rebuild from the clean source afterwards.
{('Earlier refactorings that were already produced and must NOT be repeated (choose other functions of the anchored files, or a different kind of restructuring): ' + avoid) if avoid else ''}
Finish with a short report: for each refactoring one paragraph (file/function, what kind of restructuring, why behaviour is unchanged).""")
