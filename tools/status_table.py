#!/usr/bin/env python3
"""prints the DESIGN 10.1 status table from the evidence files (quick tier, as last written by ./check)"""
import json, glob, os
root = os.path.dirname(os.path.dirname(os.path.abspath(__file__)))
print('| id | level | proof groups | static | bounded groups | obligations (all discharged) | bounded evaluations | wall s |')
print('|----|-------|-----|---|---|------|------|-----|')
for f in sorted(glob.glob(os.path.join(root, 'evidence', 'C*.json'))):
    ev = json.load(open(f))
    c = ev['coverage']
    kinds = [g.get('kind') for g in c.get('groups', [])]
    print('| %s | %s | %d | %d | %d | %d%s | %s | %d |' % (ev['property_id'], ev['level'], kinds.count('proof'), kinds.count('static'), kinds.count('bounded'), c.get('obligations', 0),
                                                        '' if c.get('obligations') == c.get('discharged') else ' (%d discharged)' % c.get('discharged', 0),
                                                        c.get('evaluations') or '–', round(ev.get('wall_s', 0))))
