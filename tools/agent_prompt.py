#!/usr/bin/env python3
"""prints the sub-agent prompt for one property id (only the property text + worktree; nothing from /verif's machinery)"""
import json, sys
pid = sys.argv[1]
k0 = int(sys.argv[2]) if len(sys.argv) > 2 else 1
avoid = sys.argv[3] if len(sys.argv) > 3 else ''
p = [json.loads(l) for l in open('/verif/properties.jsonl') if json.loads(l)['id'] == pid][0]
print(f"""You are helping test a verification effort for the Python package usnistgov/atomman (NIST atomistic toolkit).
You have your own scratch git worktree of the repository at /tmp/wt_{pid} (compiled Cython extensions already copied in; Cython and gcc are present if you need to rebuild a .pyx with `cd /tmp/wt_{pid} && /venv/bin/python setup.py build_ext --inplace`).
Work ONLY inside /tmp/wt_{pid} and /tmp/seed_out/{pid}. Never read or write /repo or /verif. There is no network. Use /venv/bin/python (it has numpy, scipy, pandas, pytest). To make Python import YOUR copy of atomman, run with `cd /tmp/wt_{pid}` and `PYTHONPATH=/tmp/wt_{pid}` and confirm with `python -c "import atomman; print(atomman.__file__)"`.

Here is a semantic property of atomman that is supposed to hold for ALL inputs:

  id: {pid}
  title: {p['title']}
  statement: {p['statement']}
  quantifier: {p['quantifier']['text']}
  files it is anchored in: {', '.join(p['anchors']['files'])}

Your task: produce TWO independent, realistic source changes to atomman (each a small patch, the kind of bug a maintainer could plausibly introduce in a refactor or "optimisation") that each BREAK this property while the package still imports and the existing test suite still passes.
Requirements for each change:
 * It must need something specific to manifest: an unusual input (e.g. a tilted cell, non-zero origin, negative index, particular periodicity setting, a particular dimension or array shape, a rarely used option or branch), a multi-step sequence of operations, or two cooperating sites that each look fine alone. NOT something every ordinary call would expose at once. Prefer the two changes to be in different functions/files and of different character.
 * The existing tests must still pass with the change: run `cd /tmp/wt_{pid} && PYTHONPATH=/tmp/wt_{pid} /venv/bin/python -m pytest -q -p no:cacheprovider --timeout=900 -x tests 2>&1 | tail -5`. (On the unmodified tree all tests pass: 86 passed, 9 skipped.)
 * Write a demonstration program that exits 0 on the unmodified tree and exits non-zero (with a message saying what is wrong) with the change applied. It must import atomman from the current directory / PYTHONPATH, and check the property clause directly (e.g. compare with an independently computed expected value), deterministic, under 60 s.
Deliverables, for k = {k0}, {k0 + 1}:
   /tmp/seed_out/{pid}/{pid}_k/patch.diff   (output of `git -C /tmp/wt_{pid} diff` for that change alone, applying cleanly with `git apply` to the unmodified tree)
   /tmp/seed_out/{pid}/{pid}_k/demo.py
   /tmp/seed_out/{pid}/{pid}_k/notes.md     (which clause of the property it breaks, what it needs in order to manifest, what you ran and the observed outputs with and without the change)
Make each change alone starting from the clean tree (`git -C /tmp/wt_{pid} checkout -- .` between them), and leave the worktree clean (no applied change) when you finish. Verify everything yourself (tests pass with the change; demo passes without and fails with). If a .pyx file is changed, rebuild the extension for your verification and restore/rebuild it afterwards so the worktree is left equivalent to the clean tree.
{('Earlier changes that were already produced and must NOT be repeated (choose different functions or a different kind of mistake): ' + avoid) if avoid else ''}
Finish with a short report: for each change one paragraph (file/function, what breaks, how it manifests).""")
