#!/bin/sh
# tools/mkwt.sh <name>  -> creates scratch git worktree /tmp/wt_<name> of /repo HEAD with the compiled extensions copied in
set -e
W=/tmp/wt_$1
git -C /repo worktree add --detach -f "$W" HEAD >/dev/null 2>&1
(cd /repo && find atomman -name '*.so' | while read f; do cp "$f" "$W/$f"; done)
mkdir -p /tmp/seed_out/$1
echo "$W"
