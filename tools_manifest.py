#!/usr/bin/env python3
"""Regenerates MANIFEST.json from the table below (single source of truth for what is claimed)."""
import json, os
ROOT = os.path.dirname(os.path.abspath(__file__))
props = [json.loads(l) for l in open(os.path.join(ROOT, 'properties.jsonl'))]
ids = [p['id'] for p in props]

CLAIMS = json.load(open(os.path.join(ROOT, 'claims.json')))

checks = []
na = []
for pid in ids:
    c = CLAIMS.get(pid)
    if c is None or c.get('not_applicable'):
        na.append({'property_id': pid, 'reason': (c or {}).get('reason', 'no contract-based check built yet for this property (see DESIGN.md section 6)')})
        continue
    checks.append({
        'property_id': pid,
        'quick_cmd': './check %s --tier quick' % pid,
        'thorough_cmd': './check %s --tier thorough' % pid,
        'evidence_file': 'evidence/%s.json' % pid,
        'replay_cmd_template': './check %s --replay {path}' % pid,
        'engine': 'pyvc',
        'level_claimed': {'category': c['category'], 'text': c['text'], 'design_ref': c.get('design_ref', 'DESIGN.md section 5 (%s)' % pid)},
        'level_note': c['note'],
        'technique': c['technique'],
    })
m = {
    'version': 1,
    'setup_cmd': './setup.sh',
    'hooks': {'guard': 'ATOMMAN_VERIF', 'enable': 'no source hooks are used: contracts live in /verif/contracts as sidecars and the real source is re-instantiated from /repo on every run',
              'baseline_off_cmd': 'cd /repo && /venv/bin/python -m pytest -ra -q -p no:cacheprovider --timeout=900 --continue-on-collection-errors',
              'source_commits': [], 'add_only': True},
    'engines': [{'name': 'pyvc', 'path': 'pyvc/', 'serves_properties': [c['property_id'] for c in checks],
                 'kind_free_text': 'contract-based deductive verification: verification-condition generator over the real Python/Cython source (symbolic execution under a NumPy facade, sidecar contracts), back ends polynomial normaliser + z3 + cvc5; bounded icontract-style run-time stand-ins where labelled'}],
    'checks': checks,
    'not_applicable': na,
    'notes': 'See DESIGN.md. Exit codes of ./check: 0 held, 1 violation (VIOLATION line), 2 undecided (solver unknown / left the modelled fragment), 3 checker broken (vacuity guard, zero obligations).',
}
json.dump(m, open(os.path.join(ROOT, 'MANIFEST.json'), 'w'), indent=1)
print('claimed:', [c['property_id'] for c in checks], 'not_applicable:', [n['property_id'] for n in na])
