"""Check driver: runs the contract groups of one property against /repo's working
tree, discharges the obligations, decides the verdict (DESIGN 4.2), writes the
evidence file and replay files."""
import argparse
import concurrent.futures as cf
import hashlib
import importlib
import json
import multiprocessing as mp
import os
import re
import sys
import time
import traceback

ROOT = os.path.dirname(os.path.dirname(os.path.abspath(__file__)))
REPO = os.environ.get('PYVC_REPO', '/repo')

GLOBAL_ASSUMPTIONS = [
    "IEEE-754 double arithmetic is treated as real arithmetic: obligations are proved over the mathematical reals/integers; rounding size is assumed, not proved",
    "Python/NumPy/C integers are unbounded; float literals mean their decimal value",
    "semantics of the NumPy facade for overridden functions (pyvc/symnp.py) and the opaque-function axioms for sqrt/cos/sin/arccos (pyvc/smt.py)",
    "cy2py drops C type annotations/decorators of .pyx files (listed under cy2py_dropped); the compiled .so is assumed to correspond to the .pyx",
    "CPython executes the re-instantiated module as it would the installed one (same interpreter, same source text)",
    "soundness of z3 5.1 / cvc5 1.0.3 and of the polynomial normaliser pyvc/poly.py",
]

TRUSTED_BASE = ["pyvc/terms.py", "pyvc/poly.py (ringnorm)", "pyvc/smt.py (+opaque-function axioms)", "pyvc/symnp.py (NumPy facade)",
                "pyvc/loader.py (cy2py, float-literal rewrite)", "z3 5.1.0", "cvc5 1.0.3", "CPython 3.12 / NumPy 2.5.3 object-array semantics"]


# ----------------------------------------------------------------------------
# registry used by contracts

class Group(object):
    def __init__(self, fn, name, kind, files, functions, overrides, loopspec, replay, clause, tiers, timeout_ms, bounded_rule):
        self.fn = fn
        self.name = name
        self.kind = kind              # 'proof' | 'bounded' | 'static'
        self.files = files or []
        self.functions = functions or []
        self.overrides = overrides
        self.loopspec = loopspec
        self.replay = replay
        self.clause = clause
        self.tiers = tiers
        self.timeout_ms = timeout_ms
        self.bounded_rule = bounded_rule


_registry = {}


def group(name, kind='proof', files=None, functions=None, overrides=None, loopspec=None, replay=None, clause='',
          tiers=('quick', 'thorough'), timeout_ms=None, rule=''):
    def deco(fn):
        mod = sys.modules[fn.__module__]
        reg = mod.__dict__.setdefault('GROUPS', [])
        reg.append(Group(fn, name, kind, files, functions, overrides, loopspec, replay, clause, tiers, timeout_ms, rule))
        return fn
    return deco


# ----------------------------------------------------------------------------
# running one group (in a worker process)

_INCIDENTAL = ('.div_nonzero', '.sqrt_arg_nonneg', '.arccos_arg_range', '.log_arg_positive')


def _incidental(stem):
    return stem.endswith(_INCIDENTAL) or '.no_unexpected_exception(' in stem


def _run_group(prop, gname, tier, seed):
    t0 = time.time()
    out = {'group': gname, 'obligations': [], 'paths': 0, 'left_fragment': [], 'unexpected': [], 'files': {},
           'cy2py_dropped': {}, 'notes': [], 'error': None, 'solver_s': 0.0, 'bounded': None, 'functions': [], 'clause': ''}
    try:
        mod = importlib.import_module('contracts.%s' % prop.lower())
        g = [x for x in mod.GROUPS if x.name == gname][0]
        out['kind'] = g.kind
        out['functions'] = g.functions
        out['clause'] = g.clause
        if g.kind == 'proof':
            from pyvc.engine import Engine
            from pyvc.loader import Loader
            ov = g.overrides() if callable(g.overrides) else g.overrides
            L = Loader(repo=REPO, overrides=ov, loopspec=g.loopspec)
            E = Engine(gname, tier=tier, timeout_ms=g.timeout_ms)
            E.loader = L
            E.seed = seed
            E.run(lambda E_: g.fn(E_, L))
            t1 = time.time()
            pending = E.prepare()
            for ob in E.obligations:
                out['obligations'].append(_ob_record(ob, g))
            out['pending'] = [(k, text, pure, E.timeout_ms, relaxed) for (k, text, pure, relaxed) in pending]
            out['explore_s'] = t1 - t0
            out['paths'] = E.paths
            out['left_fragment'] = E.left_fragment
            out['abandoned'] = list(getattr(E, 'abandoned', []))
            out['unexpected'] = E.unexpected
            out['files'] = L.files
            out['cy2py_dropped'] = {k: [list(x) for x in v] for k, v in L.cy2py_dropped.items()}
            out['notes'] = E.notes
            out['solver_s'] = E.solver_seconds
            out['inputs'] = E.inputs
        elif g.kind == 'static':
            res = g.fn(tier, seed)
            for r in res['obligations']:
                out['obligations'].append(r)
            out['files'] = res.get('files', {})
            out['notes'] = res.get('notes', [])
        elif g.kind == 'bounded':
            res = g.fn(tier, seed)
            out['bounded'] = res
            out['files'] = res.get('files', {})
    except BaseException as e:
        out['error'] = '%s: %s\n%s' % (type(e).__name__, e, traceback.format_exc()[-1500:])
    out['wall_s'] = time.time() - t0
    return out


def _solve_task(task):
    gname, k, text, pure, timeout_ms, relaxed = task
    from pyvc import smt
    dt0 = 0.0
    if relaxed is not None:
        # real relaxation of an integer obligation: unsat over the reals implies unsat over the integers
        r, model, backend, dt0 = smt.solve(relaxed, True, min(timeout_ms, 10000), use_cvc5=False)
        if r == 'unsat':
            return gname, k, r, model, backend + '-realrelax', dt0
    r, model, backend, dt = smt.solve(text, pure, timeout_ms)
    return gname, k, r, model, backend, dt + dt0


def _replay_child(conn, g, stem, vals):
    try:
        conn.send(tuple(g.replay(stem, vals)))
    except BaseException as e:
        conn.send(('raised', '%s: %s' % (type(e).__name__, e)))
    finally:
        conn.close()


def _isolated_replay(g, stem, vals, timeout=600):
    """the replay runs the real (possibly natively compiled) code: do it in a forked child so that a native crash cannot take the checker down"""
    ctx = mp.get_context('fork')
    parent, child = ctx.Pipe(duplex=False)
    pr = ctx.Process(target=_replay_child, args=(child, g, stem, vals))
    pr.daemon = False
    pr.start()
    child.close()
    res = None
    if parent.poll(timeout):
        try:
            res = parent.recv()
        except EOFError:
            res = None
    pr.join(5)
    if pr.is_alive():
        pr.kill()
        pr.join()
        return False, 'replay did not finish within %d s' % timeout
    if res is None:
        return True, 'the real code terminated the replay process (exit code %r: native crash) on the replay inputs' % (pr.exitcode,)
    if res[0] == 'raised':
        raise RuntimeError(res[1])
    return res


_REPLAY_CAP = 10          # replays per group: each runs the real code in a forked child; hundreds of refuted obligations of one broken function need not each pay for it
_replay_budget = {}


def _finish_record(rec, r, model, backend, dt, g):
    rec['backend'] = backend
    rec['seconds'] = round(dt, 4)
    if rec['expect'] == 'unsat':
        if r == 'unsat':
            rec['result'] = 'proved'
        elif r == 'sat':
            rec['result'] = 'refuted'
            rec['model'] = {k: (str(v) if not isinstance(v, bool) else v) for k, v in model.items() if not k.startswith('app_')}
            if g.replay is not None and _replay_budget.get(g.name, 0) >= _REPLAY_CAP:
                rec['replay'] = {'reproduced': False, 'skipped': True,
                                 'text': 'replay not run: %d refuted obligations of this group were already replayed on the real code (see those)' % _REPLAY_CAP}
            elif g.replay is not None:
                _replay_budget[g.name] = _replay_budget.get(g.name, 0) + 1
                try:
                    from fractions import Fraction
                    vals = {k: (float(Fraction(v)) if not isinstance(v, bool) else v) for k, v in rec['model'].items()}
                    reproduced, text = _isolated_replay(g, rec['stem'], vals)
                    rec['replay'] = {'reproduced': bool(reproduced), 'text': str(text)[:2000]}
                except Exception as e:
                    rec['replay'] = {'reproduced': False, 'text': 'replay harness raised %s: %s' % (type(e).__name__, e)}
        else:
            rec['result'] = 'unknown'
            rec['detail'] = str(model)[:300]
    else:
        if r == 'sat':
            rec['result'] = 'proved'
        elif r == 'unsat':
            rec['result'] = 'refuted'
            rec['detail'] = 'expected satisfiable (canary/reachability) but is unsatisfiable: vacuous'
        else:
            rec['result'] = 'unknown'
            rec['detail'] = str(model)[:300]


def _ob_record(ob, g):
    from pyvc import terms as tm
    rec = {'name': ob.name, 'stem': ob.stem, 'kind': ob.kind, 'expect': ob.expect, 'result': ob.result, 'backend': ob.backend,
           'seconds': round(ob.seconds, 4), 'detail': ob.detail, 'goal': tm.show(ob.goal, 5)[:400],
           'n_assumptions': len(ob.pc)}
    if ob.model is not None and ob.result == 'refuted':
        rec['model'] = {k: (str(v) if not isinstance(v, bool) else v) for k, v in ob.model.items() if not k.startswith('app_')}
        if g.replay is not None and _replay_budget.get(g.name, 0) >= _REPLAY_CAP:
            rec['replay'] = {'reproduced': False, 'skipped': True,
                             'text': 'replay not run: %d refuted obligations of this group were already replayed on the real code (see those)' % _REPLAY_CAP}
        elif g.replay is not None:
            _replay_budget[g.name] = _replay_budget.get(g.name, 0) + 1
            try:
                from fractions import Fraction
                vals = {k: (float(Fraction(v)) if not isinstance(v, bool) else v) for k, v in rec['model'].items()}
                reproduced, text = _isolated_replay(g, ob.stem, vals)
                rec['replay'] = {'reproduced': bool(reproduced), 'text': str(text)[:2000]}
            except Exception as e:
                rec['replay'] = {'reproduced': False, 'text': 'replay harness raised %s: %s' % (type(e).__name__, e)}
    return rec


# ----------------------------------------------------------------------------
# known findings

def load_known(prop):
    path = os.path.join(ROOT, 'known_findings.txt')
    out = []
    if os.path.exists(path):
        for line in open(path, encoding='utf-8'):
            line = line.strip()
            m = re.match(r'^finding:\s+property=(\S+)\s+obligation=(\S+)\s+key=(.*?)\s+--\s+(.*)$', line)
            if m and m.group(1) == prop:
                out.append({'obligation': m.group(2), 'key': m.group(3).strip(), 'text': m.group(4)})
    return out


def load_baseline(prop):
    path = os.path.join(ROOT, 'obligations', '%s.list' % prop)
    if not os.path.exists(path):
        return None
    return set(l.strip() for l in open(path) if l.strip() and not l.startswith('#'))


# ----------------------------------------------------------------------------
# main

class _Pools(object):
    """owns the current process pool; a broken pool (a worker was killed) is abandoned without waiting for it"""
    def __init__(self, pool):
        self.current = pool
        self.broken = []

    def replace(self, pool):
        self.broken.append(self.current)
        for proc in list((getattr(self.current, '_processes', None) or {}).values()):
            try:
                proc.kill()
            except Exception:
                pass
        try:
            self.current.shutdown(wait=False, cancel_futures=True)
        except Exception:
            pass
        self.current = pool
        return pool

    def __enter__(self):
        return self

    def __exit__(self, *exc):
        procs = list((getattr(self.current, '_processes', None) or {}).values())
        try:
            self.current.shutdown(wait=not self.broken, cancel_futures=True)
        except Exception:
            pass
        if self.broken:
            for proc in procs:
                try:
                    proc.kill()
                except Exception:
                    pass
        for p_ in self.broken:
            for proc in list((getattr(p_, '_processes', None) or {}).values()):
                try:
                    proc.kill()
                except Exception:
                    pass
        return False


def main(argv=None):
    ap = argparse.ArgumentParser()
    ap.add_argument('prop')
    ap.add_argument('--tier', default=os.environ.get('VERIF_TIER', 'quick'))
    ap.add_argument('--group', default=None)
    ap.add_argument('--replay', default=None)
    ap.add_argument('--update-baseline', action='store_true')
    ap.add_argument('--jobs', type=int, default=int(os.environ.get('PYVC_JOBS', '16')))
    ap.add_argument('--verbose', '-v', action='store_true')
    ap.add_argument('--no-evidence', action='store_true')
    a = ap.parse_args(argv)
    prop = a.prop.upper()
    tier = a.tier if a.tier in ('quick', 'thorough') else 'quick'
    seed = int(os.environ.get('VERIF_SEED', '0') or 0)
    if a.replay:
        return replay_file(a.replay)
    t0 = time.time()
    sys.path.insert(0, ROOT)
    try:
        mod = importlib.import_module('contracts.%s' % prop.lower())
    except Exception:
        traceback.print_exc()
        print('CHECKER-BROKEN property=%s cannot import contracts' % prop)
        return 3
    groups = [g for g in mod.GROUPS if tier in g.tiers and (a.group is None or re.search(a.group, g.name))]
    results = []
    ctx = mp.get_context('fork')
    with _Pools(cf.ProcessPoolExecutor(max_workers=max(1, a.jobs), mp_context=ctx)) as pools:
        ex = pools.current
        futs = {ex.submit(_run_group, prop, g.name, tier, seed): g for g in groups}
        for f in cf.as_completed(futs):
            g = futs[f]
            try:
                r = f.result()
            except BaseException as e:
                r = {'group': g.name, 'obligations': [], 'error': 'worker died: %r' % (e,), 'kind': g.kind, 'bounded': None,
                     'left_fragment': [], 'unexpected': [], 'files': {}, 'cy2py_dropped': {}, 'notes': [], 'paths': 0,
                     'solver_s': 0, 'wall_s': 0, 'functions': g.functions, 'clause': g.clause}
            results.append(r)
            if a.verbose:
                print('  group %-45s %6.1fs  obligations=%d error=%s' % (r['group'], r.get('wall_s', 0), len(r['obligations']), bool(r['error'])))
        # a worker that dies (native crash of the code under check inside a bounded group, OOM kill) breaks the whole pool: every group that
        # was lost is re-run alone in a fresh single-worker pool, so that only the group that really kills its process stays lost
        died = [r for r in results if (r.get('error') or '').startswith('worker died')]
        if died:
            gbyname = {g.name: g for g in groups}
            for r in died:
                g = gbyname[r['group']]
                rr = None
                for attempt in range(2):
                    try:
                        with cf.ProcessPoolExecutor(max_workers=1, mp_context=ctx) as ex1:
                            rr = ex1.submit(_run_group, prop, g.name, tier, seed).result()
                        break
                    except BaseException as e:
                        rr = None
                        last = e
                if rr is not None:
                    results[results.index(r)] = rr
                elif g.kind == 'bounded':
                    # the code under check terminated the interpreter twice on this family: the bounded contract could not even be evaluated
                    results[results.index(r)] = dict(r, error=None, bounded={'family': g.name, 'evaluations': 1, 'distinct_nontrivial': 0, 'rule': g.bounded_rule, 'samples': [],
                                                                             'failures': [{'obligation': g.name + '.post', 'key': 'process-terminated', 'input': 'family of group ' + g.name,
                                                                                           'detail': 'the code under check terminated the worker process (native crash: %r) in two isolated runs'
                                                                                                     % (last,), 'no_input': True}], 'files': {}})
                else:
                    r['error'] = 'worker died twice in isolation: %r' % (last,)
            ex = pools.replace(cf.ProcessPoolExecutor(max_workers=max(1, a.jobs), mp_context=ctx))
        # phase 2: all residual SMT queries of all groups on the same pool
        tasks = []
        bygroup = {r['group']: r for r in results}
        gmap = {g.name: g for g in groups}
        for r in results:
            for (k, text, pure, tmo, relaxed) in r.pop('pending', []) or []:
                tasks.append((r['group'], k, text, pure, tmo, relaxed))
        tasks.sort(key=lambda t: -len(t[2]))
        smt_total = 0.0
        for (gname, k, res, model, backend, dt) in ex.map(_solve_task, tasks, chunksize=1):
            rec = bygroup[gname]['obligations'][k]
            _finish_record(rec, res, model, backend, dt, gmap[gname])
            bygroup[gname]['solver_s'] = bygroup[gname].get('solver_s', 0) + dt
    results.sort(key=lambda r: [g.name for g in groups].index(r['group']))
    return verdict(prop, mod, tier, seed, groups, results, t0, a)


def verdict(prop, mod, tier, seed, groups, results, t0, a):
    known = load_known(prop)
    baseline = load_baseline(prop)
    lines = []
    broken, undecided, violations, known_hits = [], [], [], []
    abandoned_notes = []
    n_ob = n_dis = 0
    by_backend = {}
    samples = []
    canaries = 0
    bounded_blocks = []
    files = {}
    cy2py = {}
    functions = []
    solver_s = 0.0
    paths = 0
    proved_stems = set()
    failed_stems = set()
    canary_fail = {}
    for r in results:
        files.update(r.get('files') or {})
        cy2py.update(r.get('cy2py_dropped') or {})
        solver_s += r.get('solver_s') or 0
        paths += r.get('paths') or 0
        for fn in r.get('functions') or []:
            if fn not in functions:
                functions.append(fn)
        if r['error']:
            broken.append('%s: %s' % (r['group'], r['error']))
            continue
        for (p, msg) in r.get('abandoned') or []:
            abandoned_notes.append('%s path %d: %s' % (r['group'], p, msg.replace('\n', ' | ')[:300]))
        for (p, msg) in r.get('left_fragment') or []:
            undecided.append('%s path %d left the modelled fragment: %s' % (r['group'], p, msg))
        if r.get('kind') in ('proof', 'static'):
            if not r['obligations'] and not r.get('left_fragment'):
                broken.append('%s: zero obligations generated' % r['group'])
            for ob in r['obligations']:
                n_ob += 1
                be = ob.get('backend') or '?'
                if ob['result'] == 'proved':
                    n_dis += 1
                    by_backend[be] = by_backend.get(be, 0) + 1
                    if ob.get('kind') == 'canary':
                        canaries += 1
                    proved_stems.add(ob['stem'])
                    if len(samples) < 6 and ob.get('kind') not in ('side',) and be not in ('trivial',):
                        samples.append({'obligation': ob['name'], 'group': r['group'], 'backend': be, 'goal': ob['goal'][:240],
                                        'assumptions': ob.get('n_assumptions'), 'seconds': ob['seconds']})
                    continue
                if ob.get('kind') in ('canary', 'reach'):
                    # aggregated per stem below: one path on which the false claim is refuted suffices
                    canary_fail.setdefault((r['group'], ob['stem']), []).append(ob)
                    n_ob -= 1
                    continue
                failed_stems.add(ob['stem'])
                if ob['result'] == 'refuted':
                    kf = [k for k in known if k['obligation'] == ob['stem']]
                    if kf:
                        known_hits.append((ob, kf[0]))
                        continue
                    violations.append((r['group'], ob))
                else:
                    undecided.append('%s: %s %s (%s)' % (r['group'], ob['name'], ob['result'], (ob.get('detail') or '')[:160]))
        if r.get('kind') == 'bounded' and r.get('bounded') is not None:
            b = r['bounded']
            bounded_blocks.append({'group': r['group'], 'family': b.get('family'), 'evaluations': b.get('evaluations', 0),
                                   'distinct_nontrivial': b.get('distinct_nontrivial', 0), 'rule': b.get('rule', ''),
                                   'samples': b.get('samples', [])[:3], 'failures': len(b.get('failures', []))})
            if b.get('evaluations', 0) == 0:
                broken.append('%s: bounded stand-in evaluated nothing' % r['group'])
            for fl in b.get('failures', []):
                kf = [k for k in known if k['obligation'] == fl['obligation'] and k['key'] == fl['key']]
                if kf:
                    known_hits.append(({'name': fl['obligation'], 'stem': fl['obligation']}, kf[0]))
                else:
                    violations.append((r['group'], {'name': fl['obligation'], 'stem': fl['obligation'], 'bounded': True,
                                                    'model': fl.get('input'), 'detail': fl.get('detail', ''),
                                                    'replay': {'reproduced': not fl.get('no_input'), 'text': fl.get('detail', '')},
                                                    'replay_code': fl.get('replay_code'), 'key': fl['key']}))
    for (gname, stem), obs in canary_fail.items():
        if stem in proved_stems:
            continue
        if all(o['result'] == 'refuted' for o in obs):
            broken.append('%s: canary/reachability %s is unsatisfiable on every path: vacuous' % (gname, stem))
        else:
            undecided.append('%s: canary %s undecided (%s)' % (gname, stem, obs[0]['detail'][:120]))
    # vacuity: baseline obligation stems must still be generated -- except the incidental ones, which exist only because the code performs an operation with a
    # side condition (division, sqrt, ...) or because a raising path was not pruned before exploration: another arrangement of the same computation, or a better
    # feasibility answer, legitimately generates none of them
    if baseline is not None:
        baseline = set(s_ for s_ in baseline if not _incidental(s_))
    missing = []
    # a path that ended in an exception nobody reproduced on the real code (typically the real code asking a harness stand-in for something it does not model) is a
    # limit of the harness as well: the obligations that path would have produced are undecided, not violated; the exception itself is reported on its own line
    unrepro = set()
    for r in results:
        if r.get('unexpected'):
            obs_ = [o for o in r['obligations'] if o.get('kind') == 'exception' and o.get('result') == 'refuted']
            if obs_ and not any((o.get('replay') or {}).get('reproduced') for o in obs_):
                unrepro.add(r['group'])
    left_any = any(r.get('left_fragment') for r in results) or bool(unrepro)
    if baseline is not None and a.group is None and not broken and left_any:
        # some symbolic execution stopped for a reason of the tool (unmodelled construct, block not found): obligations that were not generated are undecided, not violated
        have = proved_stems | failed_stems
        lost = [s_ for s_ in sorted(baseline) if s_ not in have and not (tier == 'quick' and s_.startswith('T:'))]
        if lost:
            undecided.append('%d baseline obligations were not generated because a path left the modelled fragment%s (first: %s)' % (
                len(lost), ' or ended in an exception that the replay on the real code did not reproduce' if unrepro else '', lost[0]))
    if baseline is not None and a.group is None and not broken and not left_any:
        have = proved_stems | failed_stems
        for s in sorted(baseline):
            tiers_ok = True
            if s not in have:
                # stems of thorough-only groups are not expected in quick runs
                if tier == 'quick' and s.startswith('T:'):
                    continue
                missing.append(s)
    if a.update_baseline and not (broken or violations or undecided) and a.group is None:
        os.makedirs(os.path.join(ROOT, 'obligations'), exist_ok=True)
        prev = baseline or set()
        keep = set(s for s in prev if s not in proved_stems)
        if tier == 'thorough':
            keep = set()
        with open(os.path.join(ROOT, 'obligations', '%s.list' % prop), 'w') as f:
            f.write('# obligation stems discharged on the unchanged tree (tier %s)\n' % tier)
            for s in sorted(proved_stems | keep):
                if not _incidental(s):
                    f.write(s + '\n')
    # --- output
    exit_code = 0
    replay_dir = os.path.join(ROOT, 'replays', prop)
    seen_v = set()
    for (ob, kf) in known_hits:
        key = (kf['obligation'], kf['key'])
        if key in seen_v:
            continue
        seen_v.add(key)
        print('KNOWN-FINDING: property=%s %s [%s] %s' % (prop, kf['obligation'], kf['key'], kf['text']))
    vcount = 0
    for (gname, ob) in violations:
        stem = ob['stem']
        if stem in seen_v:
            continue
        seen_v.add(stem)
        rp = ob.get('replay') or {}
        reproduced = bool(rp.get('reproduced'))
        in_base = baseline is not None and stem in baseline
        if not reproduced and ob.get('kind') == 'shape' and not ob.get('bounded'):
            # an obligation about the ARRANGEMENT of the code (a block was located, a callee is reached exactly once, ...): the proof built on that arrangement does
            # not apply to this source; only a failing input found by the replay would make it a violation
            undecided.append('%s: %s: the code is not arranged as this proof expects and the replay on the real code found no failing input' % (gname, ob['name']))
            continue
        if not reproduced and not in_base and not ob.get('bounded'):
            undecided.append('%s: %s refuted by the solver but not reproduced on the real code and not in the committed baseline' % (gname, ob['name']))
            continue
        os.makedirs(replay_dir, exist_ok=True)
        path = os.path.join(replay_dir, re.sub(r'[^A-Za-z0-9_.-]+', '_', stem) + '.json')
        with open(path, 'w') as f:
            json.dump({'property': prop, 'group': gname, 'obligation': ob['name'], 'goal': ob.get('goal'),
                       'counter_model': ob.get('model'), 'replay': rp, 'replay_code': ob.get('replay_code'),
                       'verifier_output': ob.get('detail'), 'reproduced_on_real_code': reproduced}, f, indent=1, default=str)
        vcount += 1
        print('VIOLATION property=%s replay=%s%s' % (prop, path, '' if reproduced else ' no-failing-input-found'))
        print('  obligation %s (%s): %s' % (ob['name'], gname, (rp.get('text') or ob.get('detail') or '')[:300].replace('\n', ' | ')))
    for s in missing:
        os.makedirs(replay_dir, exist_ok=True)
        path = os.path.join(replay_dir, re.sub(r'[^A-Za-z0-9_.-]+', '_', s) + '.missing.json')
        with open(path, 'w') as f:
            json.dump({'property': prop, 'obligation': s, 'verifier_output': 'obligation present in the committed baseline is no longer generated from the current source (function/path disappeared or raised on every path)'}, f, indent=1)
        vcount += 1
        print('VIOLATION property=%s replay=%s no-failing-input-found' % (prop, path))
        print('  obligation %s is in the committed baseline but was not generated from the current tree' % s)
    if vcount:
        exit_code = 1
    if canaries == 0 and any(r.get('kind') == 'proof' for r in results) and not broken and a.group is None:
        if left_any:
            # every symbolic execution stopped at a limit of the tool before its canary: nothing was proved, nothing is claimed
            undecided.append('no canary obligation was generated because every proof group left the modelled fragment')
        else:
            broken.append('no canary obligation was refuted (vacuity guard)')
    for n_ in abandoned_notes[:8]:
        undecided.append('path abandoned because its path condition became unsatisfiable (contradictory harness precondition => vacuous obligations): %s' % n_)
    if broken:
        for b in broken:
            print('CHECKER-BROKEN property=%s %s' % (prop, b[:1500]))
        if exit_code == 0:
            exit_code = 3
    if undecided:
        for u in undecided[:40]:
            print('UNDECIDED property=%s %s' % (prop, u[:600]))
        if exit_code == 0:
            exit_code = 2
    wall = time.time() - t0
    ev_total = sum(b['evaluations'] for b in bounded_blocks)
    ev_dist = sum(b['distinct_nontrivial'] for b in bounded_blocks)
    level = getattr(mod, 'LEVEL', 'other')
    coverage = {
        'obligations': n_ob, 'discharged': n_dis,
        'checker_cmd': './check %s --tier %s' % (prop, tier),
        'trusted_base': TRUSTED_BASE + list(getattr(mod, 'TRUSTED_EXTRA', [])),
        'explanation': getattr(mod, 'EXPLANATION', ''),
        'by_backend': by_backend, 'solver_seconds': round(solver_s, 2), 'paths_explored': paths,
        'functions_under_contract': functions, 'files_sha256': files, 'cy2py_dropped': cy2py,
        'groups': [{'group': r['group'], 'kind': r.get('kind'), 'clause': r.get('clause', ''), 'obligations': len(r['obligations']),
                    'discharged': sum(1 for o in r['obligations'] if o['result'] == 'proved'),
                    'paths': r.get('paths', 0), 'wall_s': round(r.get('wall_s', 0), 2)} for r in results],
        'canaries_refuted': canaries,
        'bounded': bounded_blocks,
        'evaluations': ev_total, 'distinct_nontrivial': ev_dist,
        'rule': '; '.join(b['rule'] for b in bounded_blocks if b['rule'])[:2000],
        'samples': samples + [s for b in bounded_blocks for s in b['samples']][:6],
        'uncovered_clauses': getattr(mod, 'UNCOVERED', []),
        'known_findings_matched': sorted(set('%s [%s]' % (k['obligation'], k['key']) for _, k in known_hits)),
        'undecided': undecided[:20], 'checker_broken': broken[:10],
        'exit_code': exit_code,
    }
    if not coverage['samples']:
        coverage['samples'] = [{'note': 'no obligation discharged by a solver back end in this run'}]
    evidence = {'property_id': prop, 'tier': tier, 'seed': seed, 'level': level, 'coverage': coverage,
                'assumptions': GLOBAL_ASSUMPTIONS + list(getattr(mod, 'ASSUMPTIONS', [])),
                'wall_s': round(wall, 2), 'violations': vcount}
    if not a.no_evidence and a.group is None:
        os.makedirs(os.path.join(ROOT, 'evidence'), exist_ok=True)
        with open(os.path.join(ROOT, 'evidence', '%s.json' % prop), 'w') as f:
            json.dump(evidence, f, indent=1, default=str)
    print('%s tier=%s obligations=%d discharged=%d backends=%s bounded_evaluations=%d known_findings=%d violations=%d undecided=%d wall=%.1fs exit=%d'
          % (prop, tier, n_ob, n_dis, by_backend, ev_total, len(set((k['obligation'], k['key']) for _, k in known_hits)), vcount, len(undecided), wall, exit_code))
    return exit_code


def replay_file(path):
    d = json.load(open(path))
    print(json.dumps(d, indent=1)[:4000])
    code = d.get('replay_code')
    if code:
        ns = {}
        exec(compile(code, path, 'exec'), ns)
    return 0


if __name__ == '__main__':
    try:
        _rc = main()
    except SystemExit:
        raise
    except BaseException as _e:        # an uncaught exception must never look like exit 1 (violation)
        import traceback as _tb
        _tb.print_exc()
        print('CHECKER-BROKEN uncaught %s: %s' % (type(_e).__name__, _e))
        _rc = 3
    sys.exit(_rc)
