"""Complex symbolic scalar: a pair of real `Sym`s with the field operations defined component-wise (DESIGN 2.2).
log(z) = 1/2 log(re^2 + im^2) + i arctan2(im, re)   (principal branch; opaque real functions, differentiable by pyvc.diff)."""
import numbers

import numpy as _np

from . import terms as tm
from .sym import Sym, lift, LeftFragment


def _r(x):
    if isinstance(x, Sym):
        return x
    t = lift(x)
    if t is None:
        return None
    return Sym(tm.to_real(t) if t.sort != tm.B else t)


class CSym(object):
    __slots__ = ('re', 'im')
    _pyvc_complex = True

    def __init__(self, re, im=0):
        self.re = _r(re)
        self.im = _r(im)

    @staticmethod
    def coerce(x):
        if isinstance(x, CSym):
            return x
        if isinstance(x, (complex, _np.complexfloating)):
            return CSym(float(x.real), float(x.imag))
        r = _r(x)
        if r is None:
            return None
        return CSym(r, 0)

    def __repr__(self):
        return 'CSym(%r, %r)' % (self.re, self.im)

    def __hash__(self):
        return hash((self.re, self.im))

    def __deepcopy__(self, memo):
        return self

    def _bin(self, o, f):
        o = CSym.coerce(o)
        if o is None:
            return NotImplemented
        return f(self, o)

    def __add__(self, o): return self._bin(o, lambda a, b: CSym(a.re + b.re, a.im + b.im))
    __radd__ = __add__
    def __sub__(self, o): return self._bin(o, lambda a, b: CSym(a.re - b.re, a.im - b.im))
    def __rsub__(self, o): return self._bin(o, lambda a, b: CSym(b.re - a.re, b.im - a.im))
    def __mul__(self, o): return self._bin(o, lambda a, b: CSym(a.re * b.re - a.im * b.im, a.re * b.im + a.im * b.re))
    __rmul__ = __mul__

    @staticmethod
    def _div(a, b):
        d = b.re * b.re + b.im * b.im
        return CSym((a.re * b.re + a.im * b.im) / d, (a.im * b.re - a.re * b.im) / d)

    def __truediv__(self, o): return self._bin(o, CSym._div)
    def __rtruediv__(self, o): return self._bin(o, lambda a, b: CSym._div(b, a))
    def __neg__(self): return CSym(-self.re, -self.im)
    def __pos__(self): return self

    def __pow__(self, n):
        if isinstance(n, numbers.Integral) and n >= 0:
            r = CSym(1, 0)
            for _ in range(int(n)):
                r = r * self
            return r
        raise LeftFragment('complex power %r' % (n,))

    def conjugate(self): return CSym(self.re, -self.im)
    conj = conjugate

    @property
    def real(self): return self.re

    @property
    def imag(self): return self.im

    def log(self):
        from . import symnp
        mod2 = self.re * self.re + self.im * self.im
        return CSym(Sym(tm.app('log', (tm.to_real(mod2.t),))) / 2, Sym(tm.app('arctan2', (tm.to_real(self.im.t), tm.to_real(self.re.t)))))

    def __eq__(self, o):
        o = CSym.coerce(o)
        if o is None:
            return False
        return Sym(tm.and_((self.re == o.re)._b(), (self.im == o.im)._b()))

    def __ne__(self, o):
        r = self.__eq__(o)
        return True if r is False else Sym(tm.not_(r._b()))


def carray(name, shape, E):
    """array of complex symbols name_idx = re + i im"""
    a = _np.empty(shape, dtype=object)
    for idx in _np.ndindex(*a.shape):
        tag = '_'.join(str(i) for i in idx)
        a[idx] = CSym(E.real('%s_re_%s' % (name, tag)), E.real('%s_im_%s' % (name, tag)))
    from . import symnp
    return a.view(symnp.SymArray)
