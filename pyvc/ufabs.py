"""Ring abstraction with uninterpreted multiplication ("z3-ufring" obligations).

Purpose: decide facts about results that are nested conditionals (ite) over polynomials, independently of HOW the code arranged the computation (scratch arrays or
scalars, cached or recomputed magnitudes, loop nests or tables), without asking an SMT solver to reason about nonlinear real arithmetic.

Given `named` = [(name, term)], a list of polynomials the specification talks about (e.g. the 27 candidate vectors' components and their squared lengths), a term or
formula t over the program's symbolic inputs is rewritten bottom-up into abs(t):
  * a conditional-free numeric subterm whose exact polynomial normal form equals that of a named polynomial becomes that polynomial's NAME (a fresh variable);
    the largest such subterm wins (the test is made at every node before its children are used);
  * any other product of two non-constant factors becomes the application umul(a', b') of an uninterpreted binary function (arguments ordered, so umul is commutative);
  * everything else (sums, constant multiples, conditionals, comparisons, Boolean structure, opaque applications) is rebuilt over the rewritten children.
Soundness: abs(t) evaluates to the same value as t in the intended interpretation  I = {name := its polynomial, umul := real multiplication}.  A formula abs(F) that
is valid for EVERY interpretation of the names and of umul (under axioms that I satisfies, e.g.  N_s = umul(c_s0,c_s0) + umul(c_s1,c_s1) + umul(c_s2,c_s2)) is in
particular true in I for every value of the inputs, i.e. F holds for all inputs.  The converse fails (abstraction can lose facts): an abstract counter-model is NOT an
input; the obligation is then reported with the replay family deciding whether a failing input exists.
"""
from . import terms as tm
from . import poly


def _key(t):
    n, d = poly.ratfun(t)
    if d is not poly.ONE_P and d != poly.ONE_P:
        return None
    return frozenset(n.items())


class RingAbstraction(object):
    def __init__(self, named):
        self.names = {}
        self.vars = {}
        self.clash = []
        for name, t in named:
            k = _key(t)
            v = tm.var(name, tm.R)
            self.vars[name] = v
            if k is None:
                continue
            if k in self.names and self.names[k] is not v:
                self.clash.append((name, self.names[k].args[0]))
                continue
            self.names[k] = v
        self._memo = {}
        self._itefree = {}
        self.matched = set()

    def umul(self, a, b):
        if a.uid > b.uid:
            a, b = b, a
        return tm.app('umul', (tm.to_real(a), tm.to_real(b)), tm.R)

    def abs(self, t):
        memo, itefree = self._memo, self._itefree
        for s in tm.subterms([t]):
            if s.uid in memo:
                continue
            kids = [a for a in s.args if isinstance(a, tm.T)]
            free = s.op != 'ite' and all(itefree[a.uid] for a in kids)
            itefree[s.uid] = free
            if s.sort != tm.B and free and s.op not in ('const',):
                k = _key(s)
                if k is not None and k in self.names:
                    memo[s.uid] = self.names[k]
                    self.matched.add(self.names[k].args[0])
                    continue
            if not kids:
                memo[s.uid] = s
                continue
            na = [memo[a.uid] if isinstance(a, tm.T) else a for a in s.args]
            if s.op == 'mul' and na[0].op != 'const' and na[1].op != 'const':
                memo[s.uid] = self.umul(na[0], na[1])
            else:
                memo[s.uid] = tm.rebuild(s, na)
        return memo[t.uid]


class Lifter(object):
    """Conditional lifting before naming: every numeric term is rewritten into a decision tree whose inner nodes test guard ATOMS (each distinct condition of a
    conditional in the term, represented by a fresh Boolean variable G_u with the defining axiom  G_u <=> lifted(condition u)) and whose leaves are conditional-free
    terms:   f(ite(g, a, b), y) = ite(g, f(a, y), f(b, y)),   and below a node that tests g the other operands are simplified with g known.
    Leaves are then named by the RingAbstraction.  Each step is an equivalence, and replacing a condition by a Boolean variable constrained to be equivalent to it
    preserves validity, so:  (all definitions => goal') valid for every value of the G's, the names and umul  ==>  goal holds for all inputs.
    What it buys: a magnitude recomputed from a conditionally updated vector (sum of squares of conditionals) and a magnitude cached in a conditionally updated
    scalar lift to the SAME tree of named squared lengths, so the remaining reasoning is linear order over the names."""

    def __init__(self, ab, tag=''):
        self.ab = ab
        self.tag = tag
        self._guards = {}
        self._lift = {}
        self._gvar = {}
        self._restrict = {}
        self._comb = {}
        self._name = {}
        self.defs = []
        self._gv_uids = set()

    # -- guard atoms -------------------------------------------------------------------------
    @staticmethod
    def _atom(c):
        pol = True
        while c.op == 'not':
            c = c.args[0]
            pol = not pol
        return c, pol

    def guards_of(self, t):
        g = self._guards
        for s in tm.subterms([t]):
            if s.uid in g:
                continue
            acc = set()
            for a in s.args:
                if isinstance(a, tm.T):
                    acc |= g[a.uid]
            if s.op == 'ite':
                acc = acc | {self._atom(s.args[0])[0].uid}
            g[s.uid] = frozenset(acc)
        return g[t.uid]

    def gvar(self, atom):
        v = self._gvar.get(atom.uid)
        if v is None:
            v = tm.var('G%d~%s' % (len(self._gvar), self.tag), tm.B)
            self._gvar[atom.uid] = v
            self._gv_uids.add(v.uid)
            self.defs.append((v, self.formula(atom)))
        return v

    # -- trees -------------------------------------------------------------------------------
    def _is_node(self, t):
        return t.op == 'ite' and self._atom(t.args[0])[0].uid in self._gv_uids

    def restrict(self, T, gv, val):
        if not self._is_node(T):
            return T
        key = (T.uid, gv.uid, val)
        r = self._restrict.get(key)
        if r is None:
            c, a, b = T.args
            atom, pol = self._atom(c)
            if atom is gv:
                r = self.restrict(a if (val == pol) else b, gv, val)
            else:
                r = tm.ite(c, self.restrict(a, gv, val), self.restrict(b, gv, val))
            self._restrict[key] = r
        return r

    def combine(self, s, trees):
        key = (s.op, s.args[0] if s.op == 'app' else None, tuple(t.uid for t in trees))
        r = self._comb.get(key)
        if r is not None:
            return r
        node = next((t for t in trees if self._is_node(t)), None)
        if node is None:
            na, k = [], 0
            for a in s.args:
                if isinstance(a, tm.T):
                    na.append(trees[k])
                    k += 1
                else:
                    na.append(a)
            r = tm.rebuild(s, na)
        else:
            gv, pol = self._atom(node.args[0])
            hi = self.combine(s, [self.restrict(t, gv, True) for t in trees])
            lo = self.combine(s, [self.restrict(t, gv, False) for t in trees])
            r = tm.ite(gv, hi, lo)
        self._comb[key] = r
        return r

    def lift(self, t, ctx=()):
        """decision tree of the numeric term t under the known guard values ctx = ((atom uid, bool), ...)"""
        gs = self.guards_of(t)
        if not gs:
            return t
        cx = tuple(sorted((u, b) for (u, b) in ctx if u in gs))
        key = (t.uid, cx)
        r = self._lift.get(key)
        if r is not None:
            return r
        known = dict(cx)
        if t.op == 'ite':
            c, a, b = t.args
            atom, pol = self._atom(c)
            if atom.uid in known:
                r = self.lift(a if known[atom.uid] == pol else b, ctx)
            else:
                gv = self.gvar(atom)
                hi = self.lift(a if pol else b, tuple(ctx) + ((atom.uid, True),))
                lo = self.lift(b if pol else a, tuple(ctx) + ((atom.uid, False),))
                r = tm.ite(gv, hi, lo)
        else:
            trees = [self.lift(a, ctx) for a in t.args if isinstance(a, tm.T)]
            # operands were lifted under ctx only; values decided further down are handled by restrict() inside combine()
            r = self.combine(t, trees)
        self._lift[key] = r
        return r

    def name(self, T):
        r = self._name.get(T.uid)
        if r is None:
            if self._is_node(T):
                r = tm.ite(T.args[0], self.name(T.args[1]), self.name(T.args[2]))
            else:
                r = self.ab.abs(T)
            self._name[T.uid] = r
        return r

    def value(self, t):
        """named decision tree of a numeric term"""
        return self.name(self.lift(t))

    def formula(self, f):
        """lifted + named form of a Boolean term"""
        if f.op in ('lt', 'le', 'eq') and f.args[0].sort != tm.B:
            return tm.cmp(f.op, self.value(f.args[0]), self.value(f.args[1]))
        if f.op in ('and', 'or', 'not'):
            return tm.rebuild(f, [self.formula(a) for a in f.args])
        if f.op in ('var', 'bconst'):
            return f
        if f.op == 'ite':
            return tm.ite(self.formula(f.args[0]), self.formula(f.args[1]), self.formula(f.args[2]))
        return self.ab.abs(f)

    def vector_tree(self, ts):
        """joint decision tree of several numeric terms: leaves are tuples of conditional-free terms"""
        T = self.lift(tm.app('vec', tuple(tm.to_real(t) for t in ts), tm.R))
        return T

    def map_leaves(self, T, f):
        """tree with every leaf tuple (l0, l1, ...) replaced by the term f(named l0, named l1, ...); f may raise KeyError for an unrecognised leaf"""
        if self._is_node(T):
            return tm.ite(T.args[0], self.map_leaves(T.args[1], f), self.map_leaves(T.args[2], f))
        assert T.op == 'app' and T.args[0] == 'vec'
        return f(tuple(self.ab.abs(x) for x in T.args[1:]))

    def uses_umul(self, roots):
        return any(s.op == 'app' and s.args[0] == 'umul' for s in tm.subterms(list(roots)))

    def axioms(self):
        out = []
        for gv, d in self.defs:
            out.append(tm.and_(tm.or_(tm.not_(gv), d), tm.or_(gv, tm.not_(d))))
        return out
