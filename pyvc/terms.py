"""Hash-consed term DAG over sorts Real ('R'), Int ('I'), Bool ('B').

Terms are immutable; structural sharing is by identity (hash-consing), so
`a is b` iff the two terms were built the same way (after the light
simplifications done by the constructors).

Also here: the polynomial / rational-function normaliser (`ratfun`) used as the
first back end ("ringnorm") and the SMT-LIB 2 printer used for z3 / cvc5.
"""
from fractions import Fraction
import itertools

R, I, B = 'R', 'I', 'B'


class T(object):
    __slots__ = ('op', 'args', 'sort', 'uid', '__weakref__')

    def __repr__(self):
        return show(self)


_table = {}
_counter = itertools.count(1)


def _mk(op, args, sort):
    key = (op, args, sort)
    t = _table.get(key)
    if t is None:
        t = T()
        t.op = op
        t.args = args
        t.sort = sort
        t.uid = next(_counter)
        _table[key] = t
    return t


# ----------------------------------------------------------------------------
# constructors

def const(q, sort=None):
    if isinstance(q, bool):
        return _mk('bconst', (bool(q),), B)
    if not isinstance(q, Fraction):
        q = Fraction(q)
    if sort is None:
        sort = I if q.denominator == 1 else R
    return _mk('const', (q,), sort)


TRUE = const(True)
FALSE = const(False)
ZERO = const(0, R)
ONE = const(1, R)
IZERO = const(0, I)
IONE = const(1, I)


def var(name, sort=R):
    return _mk('var', (name,), sort)


def is_const(t):
    return t.op == 'const' or t.op == 'bconst'


def cval(t):
    return t.args[0]


def _num_sort(*ts):
    for t in ts:
        if t.sort == R:
            return R
    return I


def to_real(t):
    if t.sort == R:
        return t
    if t.op == 'const':
        return const(t.args[0], R)
    return _mk('toreal', (t,), R)


def add(a, b):
    s = _num_sort(a, b)
    if a.op == 'const' and b.op == 'const':
        return const(a.args[0] + b.args[0], s)
    if a.op == 'const' and a.args[0] == 0:
        return b if b.sort == s else to_real(b)
    if b.op == 'const' and b.args[0] == 0:
        return a if a.sort == s else to_real(a)
    if a.uid > b.uid:
        a, b = b, a
    return _mk('add', (a, b), s)


def mul(a, b):
    s = _num_sort(a, b)
    if a.op == 'const' and b.op == 'const':
        return const(a.args[0] * b.args[0], s)
    for x, y in ((a, b), (b, a)):
        if x.op == 'const':
            if x.args[0] == 0:
                return const(0, s)
            if x.args[0] == 1:
                return y if y.sort == s else to_real(y)
            # fold constant into an existing constant factor
            if y.op == 'mul' and y.args[0].op == 'const':
                return mul(const(x.args[0] * y.args[0].args[0], _num_sort(x, y.args[0])), y.args[1])
    if b.op == 'const' or (a.op != 'const' and a.uid > b.uid):
        a, b = b, a
    return _mk('mul', (a, b), s)


def neg(a):
    return mul(const(-1, a.sort), a)


def sub(a, b):
    if a is b:
        return const(0, _num_sort(a, b))
    return add(a, neg(b))


def div(a, b):
    """true division; result sort Real"""
    if b.op == 'const':
        if b.args[0] == 0:
            raise ZeroDivisionError('division by the constant zero')
        return mul(const(Fraction(1) / b.args[0], R), to_real(a))
    if a.op == 'const' and a.args[0] == 0:
        return ZERO
    if a is b:
        return ONE
    return _mk('div', (to_real(a), to_real(b)), R)


def powi(a, n):
    """integer power"""
    if n == 0:
        return const(1, a.sort)
    if n < 0:
        return div(ONE, powi(a, -n))
    if a.op == 'const':
        return const(a.args[0] ** n, a.sort)
    r = a
    for _ in range(n - 1):
        r = mul(r, a)
    return r


def app(fname, args, sort=R):
    return _mk('app', (fname,) + tuple(args), sort)


def sqrt(a):
    a = to_real(a)
    if a.op == 'const':
        q = a.args[0]
        if q >= 0:
            import math
            n, d = math.isqrt(q.numerator), math.isqrt(q.denominator)
            if n * n == q.numerator and d * d == q.denominator:
                return const(Fraction(n, d), R)
    return app('sqrt', (a,))


def ite(c, a, b):
    if c.op == 'bconst':
        return a if c.args[0] else b
    if a is b:
        return a
    if a.sort == B:
        return or_(and_(c, a), and_(not_(c), b))
    s = _num_sort(a, b)
    if a.sort != s:
        a = to_real(a)
    if b.sort != s:
        b = to_real(b)
    return _mk('ite', (c, a, b), s)


_CMP = {'lt': lambda x, y: x < y, 'le': lambda x, y: x <= y, 'eq': lambda x, y: x == y}


def cmp(op, a, b):
    """op in lt le eq (gt/ge/ne are expressed through these)"""
    if a.op == 'const' and b.op == 'const':
        return const(_CMP[op](a.args[0], b.args[0]))
    if a is b:
        return const(op != 'lt')
    if a.sort == B or b.sort == B:
        assert op == 'eq' and a.sort == B and b.sort == B
        return or_(and_(a, b), and_(not_(a), not_(b)))
    # |x| < c and |x| <= c' are false for c <= 0, c' < 0   (|x| is ite(0 <= x, x, -x))
    if op in ('lt', 'le') and b.op == 'const' and _is_abs(a):
        if (op == 'lt' and b.args[0] <= 0) or (op == 'le' and b.args[0] < 0):
            return FALSE
    if op == 'eq' and a.uid > b.uid:
        a, b = b, a
    return _mk(op, (a, b), B)


def _is_abs(t):
    if t.op != 'ite':
        return False
    c, x, y = t.args
    if c.op == 'le' and c.args[0].op == 'const' and c.args[0].args[0] == 0 and c.args[1] is x:
        return y is mul(const(-1, x.sort), x)
    return False


def lt(a, b): return cmp('lt', a, b)
def le(a, b): return cmp('le', a, b)
def gt(a, b): return cmp('lt', b, a)
def ge(a, b): return cmp('le', b, a)
def eq(a, b): return cmp('eq', a, b)
def ne(a, b): return not_(cmp('eq', a, b))


def not_(a):
    if a.op == 'bconst':
        return const(not a.args[0])
    if a.op == 'not':
        return a.args[0]
    return _mk('not', (a,), B)


def and_(*xs):
    out = []
    for x in xs:
        if x.op == 'bconst':
            if not x.args[0]:
                return FALSE
            continue
        if x.op == 'and':
            for y in x.args:
                if y not in out:
                    out.append(y)
        elif x not in out:
            out.append(x)
    if not out:
        return TRUE
    if len(out) == 1:
        return out[0]
    return _mk('and', tuple(out), B)


def or_(*xs):
    out = []
    for x in xs:
        if x.op == 'bconst':
            if x.args[0]:
                return TRUE
            continue
        if x.op == 'or':
            for y in x.args:
                if y not in out:
                    out.append(y)
        elif x not in out:
            out.append(x)
    if not out:
        return FALSE
    if len(out) == 1:
        return out[0]
    return _mk('or', tuple(out), B)


def implies(a, b):
    return or_(not_(a), b)


def as_int(t):
    """an Int-sorted term equal to the Real-sorted term t when t is built from integers by + and * only; else None"""
    if t.sort == I:
        return t
    if t.op == 'const':
        return const(t.args[0], I) if t.args[0].denominator == 1 else None
    if t.op == 'toreal':
        return t.args[0]
    if t.op in ('add', 'mul'):
        x, y = as_int(t.args[0]), as_int(t.args[1])
        if x is None or y is None:
            return None
        return add(x, y) if t.op == 'add' else mul(x, y)
    return None


def floor(a):
    if a.sort == I:
        return a
    if a.op == 'const':
        q = a.args[0]
        return const(q.numerator // q.denominator, I)
    ai = as_int(a)
    if ai is not None:
        return ai
    return _mk('floor', (a,), I)


def ceil(a):
    return neg(floor(neg(a)))


def trunc(a):
    if a.sort == I:
        return a
    ai = as_int(a)
    if ai is not None:
        return ai
    return ite(ge(a, ZERO), floor(a), ceil(a))


def rint(a):
    """round half to even (Python round / numpy rint)"""
    if a.sort == I:
        return a
    f = floor(add(a, const(Fraction(1, 2))))
    # exactly half-way and f odd -> f-1
    half = eq(sub(to_real(f), a), const(Fraction(1, 2)))
    odd = eq(imod(f, const(2, I)), IONE)
    return ite(and_(half, odd), sub(f, IONE), f)


def idiv(a, b):
    """Python floor division"""
    if a.op == 'const' and b.op == 'const' and b.args[0] != 0:
        q = a.args[0] / b.args[0]
        return const(q.numerator // q.denominator, _num_sort(a, b))
    if a.sort == I and b.sort == I:
        return _mk('idiv', (a, b), I)
    return to_real(floor(div(a, b)))


def imod(a, b):
    """Python modulo (sign of divisor)"""
    if a.op == 'const' and b.op == 'const' and b.args[0] != 0:
        q = a.args[0] / b.args[0]
        fl = q.numerator // q.denominator
        return const(a.args[0] - fl * b.args[0], _num_sort(a, b))
    if a.sort == I and b.sort == I:
        return _mk('imod', (a, b), I)
    return sub(a, mul(b, idiv(a, b)))


def abs_(a):
    if a.op == 'const':
        return const(abs(a.args[0]), a.sort)
    return ite(ge(a, const(0, a.sort)), a, neg(a))


def min_(a, b):
    return ite(le(a, b), a, b)


def max_(a, b):
    return ite(ge(a, b), a, b)


# ----------------------------------------------------------------------------
# pretty printer (bounded)

def show(t, depth=6):
    if t.op == 'const':
        q = t.args[0]
        return str(q) if q.denominator == 1 else '(%s)' % q
    if t.op == 'bconst':
        return str(t.args[0])
    if t.op == 'var':
        return t.args[0]
    if depth <= 0:
        return '...'
    d = depth - 1
    if t.op == 'app':
        return '%s(%s)' % (t.args[0], ', '.join(show(a, d) for a in t.args[1:]))
    sym = {'add': ' + ', 'mul': '*', 'div': '/', 'lt': ' < ', 'le': ' <= ', 'eq': ' == ',
           'and': ' & ', 'or': ' | ', 'idiv': '//', 'imod': '%'}
    if t.op in sym:
        return '(' + sym[t.op].join(show(a, d) for a in t.args) + ')'
    return '%s(%s)' % (t.op, ', '.join(show(a, d) for a in t.args))


# ----------------------------------------------------------------------------
# traversal helpers

def subterms(roots):
    """all subterms, children before parents"""
    seen = set()
    order = []
    stack = [(r, False) for r in roots]
    while stack:
        t, done = stack.pop()
        if done:
            order.append(t)
            continue
        if t.uid in seen:
            continue
        seen.add(t.uid)
        stack.append((t, True))
        for a in t.args:
            if isinstance(a, T) and a.uid not in seen:
                stack.append((a, False))
    return order


def free_vars(roots):
    return [t for t in subterms(roots) if t.op == 'var']


def substitute(t, mapping, _memo=None):
    """mapping: T -> T (by identity)"""
    memo = {} if _memo is None else _memo
    for s in subterms([t]):
        if s in mapping:
            memo[s.uid] = mapping[s]
            continue
        if not any(isinstance(a, T) for a in s.args):
            memo[s.uid] = s
            continue
        na = [memo[a.uid] if isinstance(a, T) else a for a in s.args]
        memo[s.uid] = rebuild(s, na)
    return memo[t.uid]


def rebuild(s, na):
    op = s.op
    if op == 'add': return add(na[0], na[1])
    if op == 'mul': return mul(na[0], na[1])
    if op == 'div': return div(na[0], na[1])
    if op == 'ite': return ite(na[0], na[1], na[2])
    if op in ('lt', 'le', 'eq'): return cmp(op, na[0], na[1])
    if op == 'not': return not_(na[0])
    if op == 'and': return and_(*na)
    if op == 'or': return or_(*na)
    if op == 'floor': return floor(na[0])
    if op == 'toreal': return to_real(na[0])
    if op == 'idiv': return idiv(na[0], na[1])
    if op == 'imod': return imod(na[0], na[1])
    if op == 'app':
        if na[0] == 'sqrt':
            return sqrt(na[1])
        return app(na[0], na[1:], s.sort)
    raise ValueError(op)


# ----------------------------------------------------------------------------
# exact evaluation under an assignment of rationals (used for replay checks and
# the differential self-test); opaque functions evaluated in floats -> Fraction

def evaluate(t, env, funcs=None):
    import math
    memo = {}
    for s in subterms([t]):
        op = s.op
        a = [memo[x.uid] if isinstance(x, T) else x for x in s.args]
        if op in ('const', 'bconst'):
            v = s.args[0]
        elif op == 'var':
            v = env[s.args[0]]
        elif op == 'add': v = a[0] + a[1]
        elif op == 'mul': v = a[0] * a[1]
        elif op == 'div': v = Fraction(a[0]) / Fraction(a[1]) if not isinstance(a[0], float) and not isinstance(a[1], float) else a[0] / a[1]
        elif op == 'ite': v = a[1] if a[0] else a[2]
        elif op == 'lt': v = a[0] < a[1]
        elif op == 'le': v = a[0] <= a[1]
        elif op == 'eq': v = a[0] == a[1]
        elif op == 'not': v = not a[0]
        elif op == 'and': v = all(a)
        elif op == 'or': v = any(a)
        elif op == 'floor': v = math.floor(a[0])
        elif op == 'toreal': v = a[0]
        elif op == 'idiv': v = a[0] // a[1]
        elif op == 'imod': v = a[0] % a[1]
        elif op == 'app':
            f = a[0]
            xs = [float(x) for x in a[1:]]
            if funcs and f in funcs:
                v = funcs[f](*xs)
            else:
                v = {'sqrt': math.sqrt, 'cos': math.cos, 'sin': math.sin, 'arccos': math.acos,
                     'arcsin': math.asin, 'arctan': math.atan, 'arctan2': math.atan2,
                     'log': math.log, 'exp': math.exp, 'pow': math.pow, 'tan': math.tan}[f](*xs)
        else:
            raise ValueError(op)
        memo[s.uid] = v
    return memo[t.uid]
