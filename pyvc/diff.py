"""Forward symbolic differentiation of real terms (DESIGN 2.6): d/dx over + - * /, log, arctan, arctan2, sqrt, cos, sin, exp and ite
(piecewise: each branch differentiated; valid on the open regions where the condition is locally constant).
The rules are the textbook ones and are part of the trusted base."""
from . import terms as tm


def D(t, x, _memo=None):
    """derivative of the term t with respect to the variable term x"""
    memo = {} if _memo is None else _memo
    for s in tm.subterms([t]):
        if s.uid in memo:
            continue
        if s.sort == tm.B:
            continue
        op = s.op
        if s is x:
            r = tm.ONE
        elif op in ('const', 'var'):
            r = tm.ZERO
        elif op == 'add':
            r = tm.add(memo[s.args[0].uid], memo[s.args[1].uid])
        elif op == 'mul':
            a, b = s.args
            r = tm.add(tm.mul(memo[a.uid], tm.to_real(b)), tm.mul(tm.to_real(a), memo[b.uid]))
        elif op == 'div':
            a, b = s.args
            r = tm.div(tm.sub(tm.mul(memo[a.uid], b), tm.mul(a, memo[b.uid])), tm.mul(b, b))
        elif op == 'toreal':
            r = memo[s.args[0].uid]
        elif op == 'ite':
            c, a, b = s.args
            r = tm.ite(c, memo[a.uid], memo[b.uid])
        elif op == 'app':
            f = s.args[0]
            a = s.args[1:]
            da = [memo[u.uid] for u in a]
            if f == 'log':
                r = tm.div(da[0], a[0])
            elif f == 'exp':
                r = tm.mul(da[0], s)
            elif f == 'sqrt':
                r = tm.div(da[0], tm.mul(tm.const(2, tm.R), s))
            elif f == 'arctan':
                r = tm.div(da[0], tm.add(tm.ONE, tm.mul(a[0], a[0])))
            elif f == 'arctan2':
                y, xx = a
                r = tm.div(tm.sub(tm.mul(xx, da[0]), tm.mul(y, da[1])), tm.add(tm.mul(xx, xx), tm.mul(y, y)))
            elif f == 'cos':
                r = tm.neg(tm.mul(da[0], tm.app('sin', (a[0],))))
            elif f == 'sin':
                r = tm.mul(da[0], tm.app('cos', (a[0],)))
            else:
                raise ValueError('no differentiation rule for %s' % f)
        elif op in ('floor', 'idiv', 'imod'):
            r = tm.ZERO if op == 'floor' else None
            if r is None:
                raise ValueError('no differentiation rule for %s' % op)
        else:
            raise ValueError('no differentiation rule for %s' % op)
        memo[s.uid] = r
    return memo[t.uid]
