"""SMT-LIB 2 printer for obligations and the z3 / cvc5 drivers.

An obligation  (assumptions |- goal)  is printed as
    declarations; axioms of the opaque functions occurring; assumptions; (not goal)
and is *discharged* when the solver answers unsat.

Opaque applications become fresh constants plus instantiated axioms (DESIGN
2.6); congruence (equal arguments => equal values) is added pairwise so the
pure-real case stays inside QF_NRA, where z3's nlsat is a decision procedure.
"""
import os
import re
import subprocess
import tempfile
import time
from fractions import Fraction
from . import terms as tm

PI_NAME = 'pi'


def _q(q):
    if q.denominator == 1:
        return str(q.numerator) if q >= 0 else '(- %d)' % (-q.numerator)
    s = '(/ %d %d)' % (abs(q.numerator), q.denominator)
    return s if q >= 0 else '(- %s)' % s


def _qr(q):
    if q.denominator == 1:
        return ('%d.0' % q.numerator) if q >= 0 else '(- %d.0)' % (-q.numerator)
    s = '(/ %d.0 %d.0)' % (abs(q.numerator), q.denominator)
    return s if q >= 0 else '(- %s)' % s


_name_ok = re.compile(r'^[A-Za-z_][A-Za-z0-9_.\[\]]*$')


def vname(n):
    return n if _name_ok.match(n) and '[' not in n else '|%s|' % n


class NoRelax(Exception):
    pass


class Printer(object):
    def __init__(self, relax=False):
        self.relax = relax      # treat Int-sorted terms as Real (sound for proving: unsat over R => unsat over Z); no floor/div/mod
        self.lines = []
        self.names = {}     # uid -> smt name/expr
        self.decls = []
        self.axioms = []
        self.apps = {}      # fname -> list of (app term)
        self.has_int = False
        self.nonlinear = False
        self.varsorts = {}

    def ref(self, t):
        return self.names[t.uid]

    def emit_terms(self, roots):
        for s in tm.subterms(roots):
            if s.uid in self.names:
                continue
            op = s.op
            srt = {'R': 'Real', 'I': 'Real' if self.relax else 'Int', 'B': 'Bool'}[s.sort]
            if op == 'const':
                self.names[s.uid] = _qr(s.args[0]) if (s.sort == tm.R or self.relax) else _q(s.args[0])
                continue
            if op == 'bconst':
                self.names[s.uid] = 'true' if s.args[0] else 'false'
                continue
            if op == 'var':
                n = vname(s.args[0])
                self.names[s.uid] = n
                self.decls.append('(declare-const %s %s)' % (n, srt))
                self.varsorts[s.args[0]] = s.sort
                if s.sort == tm.I and not self.relax:
                    self.has_int = True
                if s.args[0] == PI_NAME:
                    self.axioms.append('(assert (and (< 3.14159 pi) (< pi 3.14160)))')
                continue
            a = [self.names[x.uid] if isinstance(x, tm.T) else x for x in s.args]
            if self.relax:
                if op in ('floor', 'idiv', 'imod'):
                    raise NoRelax(op)
                if op == 'toreal':
                    self.names[s.uid] = a[0]
                    continue
            if op == 'app':
                n = 'app_%s_%d' % (a[0], s.uid)
                self.names[s.uid] = n
                self.decls.append('(declare-const %s %s)' % (n, srt))
                self.apps.setdefault(a[0], []).append(s)
                continue
            if op == 'add': e = '(+ %s %s)' % (a[0], a[1])
            elif op == 'mul':
                e = '(* %s %s)' % (a[0], a[1])
                if s.args[0].op != 'const' and s.args[1].op != 'const':
                    self.nonlinear = True
            elif op == 'div':
                e = '(/ %s %s)' % (a[0], a[1])
                if s.args[1].op != 'const':
                    self.nonlinear = True
            elif op == 'ite': e = '(ite %s %s %s)' % (a[0], a[1], a[2])
            elif op == 'lt': e = '(< %s %s)' % self._coerce2(s)
            elif op == 'le': e = '(<= %s %s)' % self._coerce2(s)
            elif op == 'eq': e = '(= %s %s)' % self._coerce2(s)
            elif op == 'not': e = '(not %s)' % a[0]
            elif op == 'and': e = '(and %s)' % ' '.join(a)
            elif op == 'or': e = '(or %s)' % ' '.join(a)
            elif op == 'floor':
                e = '(to_int %s)' % a[0]
                self.has_int = True
            elif op == 'toreal': e = '(to_real %s)' % a[0]
            elif op == 'idiv':
                self.has_int = True
                e = '(ite (> %s 0) (div %s %s) (div (- %s) (- %s)))' % (a[1], a[0], a[1], a[0], a[1])
            elif op == 'imod':
                self.has_int = True
                e = '(- %s (* %s (ite (> %s 0) (div %s %s) (div (- %s) (- %s)))))' % (
                    a[0], a[1], a[1], a[0], a[1], a[0], a[1])
            else:
                raise ValueError(op)
            if op in ('add', 'mul', 'ite') and s.sort == tm.R:
                # coerce Int children
                xs = []
                for x in s.args:
                    if isinstance(x, tm.T) and x.sort == tm.I:
                        xs.append(self._as_real(x))
                    elif isinstance(x, tm.T):
                        xs.append(self.names[x.uid])
                if op == 'add': e = '(+ %s %s)' % tuple(xs)
                elif op == 'mul': e = '(* %s %s)' % tuple(xs)
                else: e = '(ite %s %s %s)' % tuple(xs)
            n = 't%d' % s.uid
            self.lines.append('(define-fun %s () %s %s)' % (n, srt, e))
            self.names[s.uid] = n

    def _coerce2(self, s):
        x, y = s.args
        nx, ny = self.names[x.uid], self.names[y.uid]
        if x.sort != y.sort and not self.relax:
            if x.sort == tm.I:
                nx = self._as_real(x)
            if y.sort == tm.I:
                ny = self._as_real(y)
        return nx, ny

    def _as_real(self, x):
        if x.op == 'const':
            return _qr(x.args[0])
        if self.relax:
            return self.names[x.uid]
        self.has_int = True
        return '(to_real %s)' % self.names[x.uid]

    # -- axioms for opaque applications ------------------------------------
    def app_axioms(self):
        """returns list of axiom *terms* is awkward because axioms mention the
        fresh constants; so they are produced as SMT text over printed names.
        New terms needed (e.g. pi) are emitted first."""
        out = []
        pi = tm.var(PI_NAME)
        need_pi = any(f in self.apps for f in ('cos', 'sin', 'arccos', 'arcsin', 'arctan', 'arctan2'))
        if need_pi:
            self.emit_terms([pi])
        P = lambda t: self.names[t.uid]
        for f, lst in self.apps.items():
            for s in lst:
                r = P(s)
                xs = [P(x) for x in s.args[1:]]
                if f == 'sqrt':
                    out.append('(assert (and (>= %s 0.0) (= (* %s %s) %s)))' % (r, r, r, xs[0]))
                elif f == 'cos':
                    x = xs[0]
                    out.append('(assert (and (<= (- 1.0) %s) (<= %s 1.0)))' % (r, r))
                    out.append('(assert (=> (= %s 0.0) (= %s 1.0)))' % (x, r))
                    out.append('(assert (=> (= %s (/ pi 2.0)) (= %s 0.0)))' % (x, r))
                    out.append('(assert (=> (= %s pi) (= %s (- 1.0))))' % (x, r))
                    out.append('(assert (=> (= %s (/ pi 3.0)) (= %s 0.5)))' % (x, r))
                    out.append('(assert (=> (= %s (/ (* 2.0 pi) 3.0)) (= %s (- 0.5))))' % (x, r))
                    out.append('(assert (=> (and (< 0.0 %s) (< %s (/ pi 2.0))) (and (< 0.0 %s) (< %s 1.0))))' % (x, x, r, r))
                    out.append('(assert (=> (and (< (/ pi 2.0) %s) (< %s pi)) (and (< (- 1.0) %s) (< %s 0.0))))' % (x, x, r, r))
                elif f == 'sin':
                    x = xs[0]
                    out.append('(assert (and (<= (- 1.0) %s) (<= %s 1.0)))' % (r, r))
                    out.append('(assert (=> (= %s 0.0) (= %s 0.0)))' % (x, r))
                    out.append('(assert (=> (= %s (/ pi 2.0)) (= %s 1.0)))' % (x, r))
                    out.append('(assert (=> (= %s pi) (= %s 0.0)))' % (x, r))
                    out.append('(assert (=> (and (< 0.0 %s) (< %s pi)) (and (< 0.0 %s) (<= %s 1.0))))' % (x, x, r, r))
                elif f == 'arccos':
                    x = xs[0]
                    out.append('(assert (=> (and (<= (- 1.0) %s) (<= %s 1.0)) (and (<= 0.0 %s) (<= %s pi))))' % (x, x, r, r))
                    out.append('(assert (=> (= %s 1.0) (= %s 0.0)))' % (x, r))
                    out.append('(assert (=> (= %s 0.0) (= %s (/ pi 2.0))))' % (x, r))
                    out.append('(assert (=> (= %s (- 1.0)) (= %s pi)))' % (x, r))
                    out.append('(assert (=> (and (<= (- 1.0) %s) (<= %s 1.0) (= %s 0.0)) (= %s 1.0)))' % (x, x, r, x))
                    out.append('(assert (=> (and (<= (- 1.0) %s) (<= %s 1.0) (= %s pi)) (= %s (- 1.0))))' % (x, x, r, x))
                    out.append('(assert (=> (= %s 0.5) (= %s (/ pi 3.0))))' % (x, r))
                    out.append('(assert (=> (= %s (- 0.5)) (= %s (/ (* 2.0 pi) 3.0))))' % (x, r))
                    # arccos(cos y) = y on [0, pi]
                    for c in self.apps.get('cos', []):
                        y = P(c.args[1])
                        out.append('(assert (=> (and (<= 0.0 %s) (<= %s pi) (= %s %s)) (= %s %s)))' % (y, y, P(c), x, r, y))
                        # cos(arccos x) = x on [-1, 1]
                        out.append('(assert (=> (and (= %s %s) (<= (- 1.0) %s) (<= %s 1.0)) (= %s %s)))' % (y, r, x, x, P(c), x))
                elif f == 'arctan':
                    x = xs[0]
                    out.append('(assert (and (< (- (/ pi 2.0)) %s) (< %s (/ pi 2.0))))' % (r, r))
                    # sign, and |arctan t| <= |t|
                    out.append('(assert (and (=> (> %s 0.0) (and (> %s 0.0) (< %s %s))) (=> (< %s 0.0) (and (< %s 0.0) (> %s %s))) (=> (= %s 0.0) (= %s 0.0))))' % (x, r, r, x, x, r, r, x, x, r))
                    # odd: arctan(-t) = -arctan(t) for pairs of occurring terms
                    for other in lst:
                        if other is not s:
                            out.append('(assert (=> (= %s (- %s)) (= %s (- %s))))' % (P(other.args[1]), x, P(other), r))
                elif f == 'exp':
                    out.append('(assert (> %s 0.0))' % r)
            # sin/cos pythagoras
            if f == 'cos':
                for c in lst:
                    for s2 in self.apps.get('sin', []):
                        if s2.args[1] is c.args[1]:
                            out.append('(assert (= (+ (* %s %s) (* %s %s)) 1.0))' % (P(c), P(c), P(s2), P(s2)))
                # strict monotonicity on [0, pi]
                for i in range(len(lst)):
                    for j in range(len(lst)):
                        if i != j:
                            xi, xj = P(lst[i].args[1]), P(lst[j].args[1])
                            out.append('(assert (=> (and (<= 0.0 %s) (< %s %s) (<= %s pi)) (> %s %s)))' % (
                                xi, xi, xj, xj, P(lst[i]), P(lst[j])))
            # congruence
            for i in range(len(lst)):
                for j in range(i + 1, len(lst)):
                    a1, a2 = lst[i].args[1:], lst[j].args[1:]
                    if len(a1) != len(a2):
                        continue
                    eqs = ' '.join('(= %s %s)' % (P(u), P(v)) for u, v in zip(a1, a2))
                    out.append('(assert (=> (and %s true) (= %s %s)))' % (eqs, P(lst[i]), P(lst[j])))
        return out


def to_smt2_relaxed(assumptions, goal):
    """real relaxation of a mixed Int/Real obligation, or None when it uses floor/div/mod or has no Int terms"""
    try:
        text, pure, vs = to_smt2(assumptions, goal, relax=True)
    except NoRelax:
        return None
    return text


def to_smt2(assumptions, goal, logic=None, extra_axioms=(), relax=False):
    """SMT-LIB text whose unsatisfiability means  assumptions |- goal"""
    p = Printer(relax=relax)
    roots = list(assumptions) + [goal] + list(extra_axioms)
    p.emit_terms(roots)
    ax = p.app_axioms()
    body = []
    body.extend(p.decls)
    body.extend(p.axioms)
    body.extend(p.lines)
    body.extend(ax)
    for a in list(assumptions) + list(extra_axioms):
        body.append('(assert %s)' % p.ref(a))
    body.append('(assert (not %s))' % p.ref(goal))
    pure_real = not p.has_int
    head = '; linear\n' if (pure_real and not p.nonlinear and not p.apps) else ''
    return head + '\n'.join(body) + '\n', pure_real, dict(p.varsorts)


def _z3_value(v):
    import z3
    if z3.is_int_value(v):
        return Fraction(v.as_long())
    if z3.is_rational_value(v):
        return Fraction(v.numerator_as_long(), v.denominator_as_long())
    if z3.is_algebraic_value(v):
        a = v.approx(30)
        return Fraction(a.numerator_as_long(), a.denominator_as_long())
    if z3.is_true(v):
        return True
    if z3.is_false(v):
        return False
    return None


def solve_z3(text, pure_real, timeout_ms, seed=None):
    import z3
    t0 = time.time()
    # a pure-real problem without products of unknowns (e.g. after ring abstraction) goes to the linear-arithmetic solver: the nonlinear one handles
    # Boolean structure over many conditionals badly
    s = (z3.SolverFor('QF_LRA') if text.startswith('; linear') else z3.SolverFor('QF_NRA')) if pure_real else z3.Solver()
    s.set('timeout', int(timeout_ms))
    if seed is not None:
        try:
            s.set('random_seed', int(seed))
        except z3.Z3Exception:
            pass
    try:
        s.from_string(text)
        r = s.check()
    except z3.Z3Exception as e:
        return 'error', {'error': str(e)}, time.time() - t0
    res = str(r)
    model = {}
    if res == 'sat':
        m = s.model()
        for d in m.decls():
            if d.arity() == 0:
                val = _z3_value(m[d])
                if val is not None:
                    model[d.name()] = val
    elif res == 'unknown':
        model = {'reason': s.reason_unknown()}
    return res, model, time.time() - t0


_CVC5 = '/usr/bin/cvc5'


def solve_cvc5(text, pure_real, timeout_ms):
    t0 = time.time()
    if not os.path.exists(_CVC5):
        return 'unknown', {'reason': 'cvc5 binary not present'}, 0.0
    full = '(set-option :produce-models true)\n(set-logic %s)\n' % ('QF_NRA' if pure_real else 'ALL') + text + '(check-sat)\n'
    with tempfile.NamedTemporaryFile('w', suffix='.smt2', delete=False) as f:
        f.write(full)
        path = f.name
    try:
        out = subprocess.run([_CVC5, '--lang=smt2', '--tlimit=%d' % int(timeout_ms), path],
                             capture_output=True, text=True, timeout=timeout_ms / 1000.0 + 5)
        first = (out.stdout.strip().splitlines() or ['unknown'])[0].strip()
        if first not in ('sat', 'unsat', 'unknown'):
            return 'unknown', {'reason': (out.stdout + out.stderr)[:300]}, time.time() - t0
        return first, {}, time.time() - t0
    except subprocess.TimeoutExpired:
        return 'unknown', {'reason': 'timeout'}, time.time() - t0
    finally:
        os.unlink(path)


def solve(text, pure_real, timeout_ms, use_cvc5=True):
    """z3 first, cvc5 on unknown.  returns (result, model, backend, seconds)"""
    r, m, dt = solve_z3(text, pure_real, timeout_ms)
    if r in ('sat', 'unsat'):
        return r, m, 'z3', dt
    if use_cvc5:
        r2, m2, dt2 = solve_cvc5(text, pure_real, timeout_ms)
        if r2 in ('sat', 'unsat'):
            return r2, m2, 'cvc5', dt + dt2
        # both gave up: one more z3 attempt with another random seed (a query that normally takes milliseconds occasionally wanders off; seen once under heavy load)
        r3, m3, dt3 = solve_z3(text, pure_real, timeout_ms, seed=97)
        if r3 in ('sat', 'unsat'):
            return r3, m3, 'z3', dt + dt2 + dt3
        return 'unknown', {'z3': m, 'cvc5': m2}, 'z3+cvc5', dt + dt2 + dt3
    return r, m, 'z3', dt
