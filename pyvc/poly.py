"""Exact rational-function normal form of numeric terms ("ringnorm" back end).

A polynomial is a dict  monomial -> Fraction, a monomial a sorted tuple of
(atom_uid, exponent).  Atoms are variables and every non-ring subterm (ite,
floor, opaque application, ...), canonicalised bottom-up so that equal
arguments give the same atom.  Two built-in rewrite rules:
    sqrt(x)^2 -> x            (sound given the side obligation x >= 0,
                               which the engine emits where sqrt is applied)
    sin(x)^2  -> 1 - cos(x)^2
Deciding  a == b  means: numerator of ratfun(a - b) is the zero polynomial.
Denominators are assumed non-zero (the engine emits `div_nonzero` obligations
where the division happens).
"""
from fractions import Fraction
from . import terms as tm

_atoms = {}       # uid -> T
_rf_memo = {}     # term uid -> (num, den)
_canon_memo = {}  # term uid -> T

ONE_P = {(): Fraction(1)}
ZERO_P = {}


def _mono_mul(m1, m2):
    if not m1:
        return m2
    if not m2:
        return m1
    out = []
    i = j = 0
    n1, n2 = len(m1), len(m2)
    while i < n1 and j < n2:
        a, b = m1[i], m2[j]
        if a[0] == b[0]:
            out.append((a[0], a[1] + b[1]))
            i += 1
            j += 1
        elif a[0] < b[0]:
            out.append(a)
            i += 1
        else:
            out.append(b)
            j += 1
    if i < n1:
        out.extend(m1[i:])
    if j < n2:
        out.extend(m2[j:])
    return tuple(out)


def padd(p, q):
    if not p:
        return q
    if not q:
        return p
    if len(p) < len(q):
        p, q = q, p
    r = dict(p)
    for m, c in q.items():
        v = r.get(m)
        if v is None:
            r[m] = c
        else:
            v = v + c
            if v == 0:
                del r[m]
            else:
                r[m] = v
    return r


def pscale(p, c):
    if c == 0:
        return {}
    if c == 1:
        return p
    return {m: v * c for m, v in p.items()}


def pmul(p, q):
    if not p or not q:
        return {}
    if len(p) == 1 and () in p:
        return pscale(q, p[()])
    if len(q) == 1 and () in q:
        return pscale(p, q[()])
    r = {}
    need_reduce = False
    for m1, c1 in p.items():
        for m2, c2 in q.items():
            m = _mono_mul(m1, m2)
            v = r.get(m)
            c = c1 * c2
            if v is None:
                r[m] = c
            else:
                v += c
                if v == 0:
                    del r[m]
                else:
                    r[m] = v
    return _reduce(r)


_special = {}  # atom uid -> ('sqrt', argterm) | ('sin', argterm)


def _reduce(p):
    """apply sqrt(x)^2 -> x and sin^2 -> 1-cos^2 until no monomial has such a square"""
    if not _special:
        return p
    while True:
        hit = None
        for m in p:
            for (u, e) in m:
                if e >= 2 and u in _special:
                    hit = (m, u, e)
                    break
            if hit:
                break
        if hit is None:
            return p
        m, u, e = hit
        c = p[m]
        kind, arg = _special[u]
        if kind == 'sqrt':
            num, den = ratfun(arg)
            if not (len(den) == 1 and () in den):
                # leave squares of sqrt(rational function) alone: mark as not special
                del _special[u]
                continue
            repl = pscale(num, 1 / den[()])
        else:
            cosu = atom_of(tm.app('cos', (arg,)))
            repl = padd(ONE_P, {((cosu, 2),): Fraction(-1)})
        rest = tuple((uu, ee) if uu != u else (uu, ee - 2) for (uu, ee) in m)
        rest = tuple(x for x in rest if x[1] > 0)
        q = dict(p)
        del q[m]
        q = padd(q, pmul({rest: c}, repl))
        p = q


def atom_of(t):
    """uid of the canonical atom for a non-ring term"""
    c = canon(t)
    if c.uid not in _atoms:
        _atoms[c.uid] = c
        if c.op == 'app' and c.args[0] == 'sqrt':
            _special[c.uid] = ('sqrt', c.args[1])
        elif c.op == 'app' and c.args[0] == 'sin':
            _special[c.uid] = ('sin', c.args[1])
    return c.uid


def canon(t):
    """canonical representative of t (children normalised)"""
    r = _canon_memo.get(t.uid)
    if r is not None:
        return r
    if t.op in ('var', 'const', 'bconst'):
        r = t
    elif t.sort != tm.B and t.op in ('add', 'mul', 'div', 'toreal'):
        r = term_of_ratfun(ratfun(t), t.sort)
    else:
        na = [canon(a) if isinstance(a, tm.T) else a for a in t.args]
        r = tm.rebuild(t, na)
        if r.sort != tm.B and r.op in ('add', 'mul', 'div', 'toreal', 'const'):
            r = canon(r) if r is not t else r
    _canon_memo[t.uid] = r
    return r


def ratfun(t):
    r = _rf_memo.get(t.uid)
    if r is not None:
        return r
    # iterative post-order to avoid recursion limits on deep sums
    for s in tm.subterms([t]):
        if s.uid in _rf_memo or s.sort == tm.B:
            continue
        op = s.op
        if op == 'const':
            c = s.args[0]
            v = ({(): c} if c != 0 else {}, ONE_P)
        elif op == 'var':
            _atoms.setdefault(s.uid, s)
            v = ({((s.uid, 1),): Fraction(1)}, ONE_P)
        elif op == 'add':
            (n1, d1), (n2, d2) = _rf_memo[s.args[0].uid], _rf_memo[s.args[1].uid]
            if d1 is d2 or d1 == d2:
                v = (padd(n1, n2), d1)
            else:
                v = (padd(pmul(n1, d2), pmul(n2, d1)), pmul(d1, d2))
        elif op == 'mul':
            (n1, d1), (n2, d2) = _rf_memo[s.args[0].uid], _rf_memo[s.args[1].uid]
            v = (pmul(n1, n2), pmul(d1, d2))
        elif op == 'div':
            (n1, d1), (n2, d2) = _rf_memo[s.args[0].uid], _rf_memo[s.args[1].uid]
            v = (pmul(n1, d2), pmul(d1, n2))
        elif op == 'toreal':
            v = _rf_memo[s.args[0].uid]
        else:
            if s.sort == tm.B:
                continue
            u = atom_of(s)
            v = ({((u, 1),): Fraction(1)}, ONE_P)
        n, d = v
        if len(d) == 1 and () in d and d[()] != 1:
            n = pscale(n, 1 / d[()])
            d = ONE_P
        elif not n:
            d = ONE_P
        _rf_memo[s.uid] = (n, d)
    return _rf_memo[t.uid]


def term_of_poly(p, sort=tm.R):
    acc = None
    for m in sorted(p):
        c = p[m]
        term = tm.const(c, tm.R if (sort == tm.R or c.denominator != 1) else tm.I)
        for (u, e) in m:
            term = tm.mul(term, tm.powi(_atoms[u], e))
        acc = term if acc is None else tm.add(acc, term)
    if acc is None:
        acc = tm.const(0, sort)
    return acc


def term_of_ratfun(rf, sort=tm.R):
    n, d = rf
    if len(d) == 1 and () in d:
        return term_of_poly(pscale(n, 1 / d[()]), sort)
    # normalise: leading coefficient of den = 1
    lead = d[min(d)]
    return tm.div(term_of_poly(pscale(n, 1 / lead)), term_of_poly(pscale(d, 1 / lead)))


def is_zero(t):
    """True iff t normalises to the zero rational function"""
    n, _ = ratfun(t)
    return not n


def equal(a, b):
    return is_zero(tm.sub(a, b))


def simplify(t):
    """canonical form of a numeric term (used to keep printed samples small)"""
    return canon(t)


def clear_caches():
    _rf_memo.clear()
    _canon_memo.clear()


# ----------------------------------------------------------------------------
# ring identities modulo hypotheses (equalities on the path condition used as rewrite rules)

def _mono_deg(m):
    return sum(e for _, e in m)


def _mono_divides(d, m):
    """d | m ; returns quotient monomial or None"""
    dm = dict(m)
    out = dict(m)
    for (u, e) in d:
        have = dm.get(u, 0)
        if have < e:
            return None
        if have == e:
            del out[u]
        else:
            out[u] = have - e
    return tuple(sorted(out.items()))


def rules_from_equalities(eqs):
    """eqs: list of Bool terms of the form eq(a, b) with numeric sides.  Each polynomial equality  p == 0  with a unique
    monomial of maximal total degree becomes the rule  lead -> -(p - c*lead)/c .  Sound for any subset of the hypotheses."""
    rules = []
    for t in eqs:
        if t.op != 'eq' or t.args[0].sort == tm.B:
            continue
        try:
            n, d = ratfun(tm.sub(t.args[0], t.args[1]))
        except Exception:
            continue
        if not (len(d) == 1 and () in d) or not n or len(n) > 6:
            continue
        degs = sorted(((_mono_deg(m), m) for m in n), reverse=True)
        if len(degs) > 1 and degs[0][0] == degs[1][0]:
            continue
        lead = degs[0][1]
        if not lead:
            continue
        c = n[lead]
        rest = {m: -v / c for m, v in n.items() if m != lead}
        rules.append((lead, rest))
    return rules


def reduce_mod(p, rules, max_steps=20000):
    if not rules:
        return p
    steps = 0
    while True:
        hit = None
        for m in p:
            for (lead, rest) in rules:
                q = _mono_divides(lead, m)
                if q is not None:
                    hit = (m, q, rest)
                    break
            if hit:
                break
        if hit is None:
            return p
        steps += 1
        if steps > max_steps:
            return None
        m, q, rest = hit
        c = p[m]
        p2 = dict(p)
        del p2[m]
        p = padd(p2, pmul({q: c}, rest))


def equal_mod(a, b, eqs):
    """a == b as rational functions modulo the polynomial equalities eqs (hypotheses). True / False(unknown)"""
    n, _ = ratfun(tm.sub(a, b))
    if not n:
        return True
    rules = rules_from_equalities(eqs)
    if not rules:
        return False
    r = reduce_mod(n, rules)
    return r is not None and not r
